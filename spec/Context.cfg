\* C06: the model on its own (no printing): invariants + action coverage, 4 frames
CONSTANTS
    MaxDepth = 4
    Emit = FALSE
INIT Init
NEXT Next
INVARIANTS TypeOK FlagsMatchPath EmitLeaf
