"""Batches of (program, input) cases -> one TLC run -> per-case results."""
import os
from . import common, tlc, export, sasm


def write_batch(d, name, root, cases, w, defs=None, consts=None, extra_cfg=''):
    progs_txt, groups = export.export_batch(cases)
    if defs is None:
        defs = 'MCSources == <<>>\nMCCases == <<>>'
    with open(os.path.join(d, 'BatchData.tla'), 'w') as f:
        f.write('---- MODULE BatchData ----\nEXTENDS SphinxCode, HiDIR\nMCProgs == %s\n%s\n====\n' % (progs_txt, defs))
    with open(os.path.join(d, name + '.tla'), 'w') as f:
        f.write('---- MODULE %s ----\nEXTENDS %s\n====\n' % (name, root))
    consts = dict(consts or {})
    with open(os.path.join(d, name + '.cfg'), 'w') as f:
        f.write('SPECIFICATION Spec\nCONSTRAINT Fuel\nCONSTANTS\n W = %d\n' % w)
        for k, v in consts.items():
            f.write(' %s = %s\n' % (k, v))
        f.write(extra_cfg)
    return groups


def run_machine(cases, w=2, monitors=True, max_level=4000, timeout=900, workers=None, keep=None):
    """Run compiled cases on spec/SphinxRun.tla.  Returns (results by case key, tlc Result).
    result: dict(status, halted, fault, alarm, pc, level, obs) or None when the behaviour ran out of fuel."""
    d = keep or common.scratch('hvrun_')
    try:
        write_batch(d, 'Batch', 'SphinxRun', cases, w,
                    consts={'Monitors': 'TRUE' if monitors else 'FALSE', 'MaxLevel': max_level})
        r = tlc.run(d, 'Batch', timeout=timeout, workers=workers)
        if r.errors and not r.prints:
            raise common.Machinery('TLC failed: %s\n%s' % (r.errors[:3], r.out[-1500:]))
        by = {}
        for p in r.prints:
            if len(p) >= 9 and p[1] == 'R':
                by[(p[2], p[3])] = p
        res = {}
        for c in cases:
            p = by.get((c.prog, c.inp))
            if p is None:
                res[c.key] = None
                continue
            v = p[4]
            obs = p[8]
            res[c.key] = {'status': p[5], 'halted': v['halted'], 'fault': v['fault'], 'alarm': v['alarm'],
                          'pc': p[6], 'level': p[7], 'obs': (export.decode_events(obs['ev']), obs['end'])}
        return res, r
    finally:
        if not keep:
            common.rm(d)


class Item:
    """One case for Refine: a source text, a build configuration and an argument vector."""
    def __init__(self, key, src, args=(), w=2, s=500, unchecked=False, opt=None, meta=None,
                 sem_src=None, sem_args=None):
        self.key = key
        self.src = src
        self.args = list(args)
        # the source semantics may be taken from a different (twin) program, e.g. the run-time form of a
        # constant expression (C14): the compiled `src` must behave like HiDSem(sem_src, sem_args)
        self.sem_src = sem_src
        self.sem_args = None if sem_args is None else list(sem_args)
        self.w = w
        self.s = s
        self.unchecked = unchecked
        self.opt = dict(opt or {})
        self.meta = meta or {}
        self.skip = None       # reason when the case could not be prepared
        self.result = None


import threading
PREP_LOCK = threading.Lock()      # the compiler and the translator run in one thread at a time; TLC subprocesses overlap
_COMPILED = {}                    # (src, w, s, unchecked, opt) -> assembly lines | exception; shared by presize and prepare


def compile_cached(it):
    from . import hidc_api
    ck = (it.src, it.w, it.s, it.unchecked, tuple(sorted(it.opt.items())))
    if ck not in _COMPILED:
        if len(_COMPILED) > 30000:
            _COMPILED.clear()
        try:
            _COMPILED[ck] = hidc_api.compile_src(it.src, w=it.w, s=it.s, unchecked=it.unchecked, **it.opt)
        except (hidc_api.Rejected, hidc_api.Crashed) as e:
            _COMPILED[ck] = e
    return ck, _COMPILED[ck]


def prepare(items, w):
    """Compile (working tree) and translate every item; returns (export cases, defs text).  Items that are
    rejected by the compiler or outside the modelled envelope get .skip set."""
    from . import ir, hidc_api
    compiled = {}
    translated = {}
    sources = []
    cases_txt = []
    ecases = []
    for it in items:
        ck, compiled[ck] = compile_cached(it)
        if isinstance(compiled[ck], Exception):
            it.skip = 'compile: %s' % compiled[ck]
            continue
        ssrc = it.sem_src if it.sem_src is not None else it.src
        sargs = it.sem_args if it.sem_args is not None else it.args
        tk = (ssrc, it.w, tuple(sorted(it.opt.items())))
        if tk not in translated:
            try:
                tr = ir.Translator(ssrc, w=it.w, **it.opt)
                sources.append(tr.source_record())
                translated[tk] = (tr, len(sources))
            except (ir.Unsupported, hidc_api.Rejected) as e:
                translated[tk] = e
        if isinstance(translated[tk], Exception):
            it.skip = 'translate: %s' % translated[tk]
            continue
        tr, sidx = translated[tk]
        try:
            crec = ir.case_record(tr, sidx, sargs)
            ec = export.Case(it.key, compiled[ck], it.args, meta={'hcase': len(cases_txt) + 1})
            ec.program = sasm.Program(ec.lines, ec.args)
        except (ir.Unsupported, sasm.AsmError, ValueError) as e:
            it.skip = 'case: %s' % e
            continue
        cases_txt.append(crec)
        it.meta['features'] = sorted(tr.features)
        ecases.append(ec)
    defs = 'MCSources == %s\nMCCases == %s' % (tlc.tla(sources), tlc.tla(cases_txt))
    return ecases, defs


def run_refine(items, w=2, monitors=True, max_level=6000, max_alloc=256, timeout=1200, workers=None, keep=None, heap='8g'):
    """Run items (all of word size w) on spec/Refine.tla.  Sets it.result for every conclusive or inconclusive
    item: dict(status, hst, agree, halted, fault, alarm, level, wrap, mobs, hobs) or None (out of fuel)."""
    d = keep or common.scratch('hvref_')
    try:
        with PREP_LOCK:
            ecases, defs = prepare(items, w)
            if not ecases:
                return None
            write_batch(d, 'Batch', 'Refine', ecases, w, defs=defs,
                        consts={'Monitors': 'TRUE' if monitors else 'FALSE', 'MaxLevel': max_level, 'MaxAlloc': max_alloc})
        r = tlc.run(d, 'Batch', timeout=timeout, workers=workers, heap=heap)
        completed = 'Model checking completed. No error has been found' in r.out
        oom = any('out of memory' in e for e in r.errors)
        if ((r.errors and not r.prints) or (not r.prints and not r.timed_out and not completed)) and not oom:
            raise common.Machinery('TLC failed: %s\n%s' % (r.errors[:3], r.out[-2500:]))
        # (out of memory: the verdicts printed so far stand, the caller runs the rest again in smaller batches)
        # no verdict line at all although TLC completed: every case of the batch ran out of fuel (result None)
        by = {}
        for p in r.prints:
            if len(p) >= 12 and p[1] == 'R':
                by[(p[2], p[3])] = p
        bykey = {c.key: c for c in ecases}
        for it in items:
            if it.skip:
                continue
            c = bykey[it.key]
            it.meta['guard_labels'] = c.meta.get('guard_labels', 0)
            p = by.get((c.prog, c.inp))
            if p is None:
                it.result = None
                continue
            v = p[4]
            obs = p[11]
            dec = lambda o: (export.decode_events(o['ev']), o['end'])
            it.result = {'status': p[5], 'pc': p[6], 'level': p[7], 'hst': p[8], 'cls': p[9], 'agree': p[9] in ('agree', 'inconclusive'), 'wrap': p[10],
                         'halted': v['halted'], 'fault': v['fault'], 'alarm': v['alarm'],
                         'mobs': dec(obs[0]), 'hobs': dec(obs[1]) if len(obs) > 1 else None}
        return r
    finally:
        if not keep:
            common.rm(d)
