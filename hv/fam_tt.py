"""Families for C02 (time travel), C03 (halt is defeat), C08 (scope exits), C04 (stack sweep), C16 (dynamic)."""
import random, itertools
from . import runner, families

PRELUDE = '''int x = 0;
empty !f() { write('f'); !truth_is_defeat(x == 1); write('F'); }
empty !g() { preempt { x = 1; write('g'); } write('h'); !truth_is_defeat(x == 0); write('G'); }
empty !r(int n) { write('r'); if (n > 0) { preempt { write('R'); return; } !r(n - 1); } !truth_is_defeat(x == 2); write('e'); }
empty !w(int n) { preempt { write('P'); write(n); } if (n > 0) { !w(n - 1); } !truth_is_defeat(x != 7); write('W'); }
'''

# ------------------------------------------------------------------------------------------------ core enumeration
LEAVES = ['o', 's1', 's2', 'd', 't0', 't1', 'cf', 'cg', 'cr', 'cw']


def bodies(n, depth, leaves=LEAVES):
    """all statement lists with exactly... at most n nodes (a node = one statement), nesting <= depth"""
    memo = {}

    def stmts(k, d):
        """lists of total size exactly k"""
        key = (k, d)
        if key in memo:
            return memo[key]
        res = []
        if k == 0:
            res = [()]
        else:
            for first_size in range(1, k + 1):
                for fs in stmt(first_size, d):
                    for rest in stmts(k - first_size, d):
                        res.append((fs,) + rest)
        memo[key] = res
        return res

    def stmt(k, d):
        res = []
        if k == 1:
            res += [(l,) for l in leaves]
        if d > 0 and k >= 2:
            for inner in stmts(k - 1, d - 1):
                if inner:
                    res.append(('p', inner))
            for a in range(0, k):
                for A in stmts(a, d - 1):
                    for B in stmts(k - 1 - a, d - 1):
                        if A or B:
                            res.append(('i', A, B))
        return res
    out = []
    for k in range(0, n + 1):
        out += stmts(k, depth)
    return out


def _nodes(ss):
    for st in ss:
        yield st
        if st[0] == 'p':
            yield from _nodes(st[1])
        elif st[0] == 'i':
            yield from _nodes(st[1])
            yield from _nodes(st[2])


class R:
    def __init__(self):
        self.n = 0

    def letter(self):
        c = 'abcdeijklmnopqtuvwyz'[self.n % 20]
        self.n += 1
        return c

    def stmts(self, ss):
        return ' '.join(self.stmt(s) for s in ss)

    def stmt(self, s):
        k = s[0]
        if k == 'o':
            return "write('%s');" % self.letter()
        if k == 's1':
            return 'x = 1;'
        if k == 's2':
            return 'x += 1;'
        if k == 'd':
            return '!is_defeat();'
        if k == 't0':
            return '!truth_is_defeat(x == 0);'
        if k == 't1':
            return '!truth_is_defeat(x != 0);'
        if k == 'cf':
            return '!f();'
        if k == 'cg':
            return '!g();'
        if k == 'cw':
            return '!w(1);'
        if k == 'cr':
            return '!r(2);'
        if k == 'p':
            return 'preempt { %s }' % self.stmts(s[1])
        if k == 'i':
            return 'if (x == 0) { %s } else { %s }' % (self.stmts(s[1]), self.stmts(s[2]))
        raise ValueError(k)


def render_try(kind, body, handler, r):
    return 'try { %s } %s { %s }' % (r.stmts(body), kind, r.stmts(handler))


def core_family(seed, tier):
    rnd = random.Random(seed)
    items = []
    B = bodies(3, 2)
    handlers = [(), (('o',),), (('s1',), ('o',))]
    single = []
    for b in B:
        if not b:
            continue
        for kind in ('undo', 'stop'):
            for h in (handlers[:2] if tier == 'quick' else [handlers[1]]):
                single.append((kind, b, h))
    if tier == 'quick':
        rnd.shuffle(single)
        single = single[:420]
    else:
        # exhaustive to 3 nodes; a seeded sample of the 38 300 bodies of exactly 4 nodes
        B4 = [b for b in bodies(4, 2) if sum(1 for _ in _nodes(b)) == 4]
        rnd.shuffle(B4)
        for b in B4[:1500]:
            single.append((rnd.choice(('undo', 'stop')), b, rnd.choice(handlers)))
    for i, (kind, b, h) in enumerate(single):
        r = R()
        src = PRELUDE + "empty @is_you(int x0) { x = x0; write('<'); %s write('>'); write(x); }" % render_try(kind, b, h, r)
        for x0 in (0, 1):
            items.append(runner.Item(('tt1', i, x0), src, [str(x0)], s=120,
                                     meta={'family': 'tt_core1', 'classifier': {'tt': 'single_' + kind}}))
    # histories: an earlier try of each kind/outcome, then a second try that calls defeat functions
    firsts = [('stop', (('o',), ('d',)), (('o',),)),                      # stop that fired
              ('stop', (('o',),), (('o',),)),                            # stop that did not
              ('undo', (('o',), ('d',)), (('o',),)),                      # undo taken
              ('undo', (('o',),), (('o',),)),                            # undo not taken
              ('stop', (('cf',), ('t1',)), (('s1',), ('o',))),            # stop fired from inside a defeat function
              ('stop', (('p', (('o',),)), ('t0',)), (('o',),)),           # preempt resolved inside a stop try
              ('undo', (('cg',),), (('o',),))]
    seconds = [b for b in bodies(2 if tier == 'quick' else 3, 1) if any(s[0] in ('cf', 'cg', 'cr', 'cw', 'p') or s[0] == 'i' for s in b) or any(s[0] in ('d', 't0', 't1') for s in b)]
    pairs = [(f, k2, b2) for f in firsts for k2 in ('undo', 'stop') for b2 in seconds]
    rnd.shuffle(pairs)
    pairs = pairs[:260 if tier == 'quick' else 4000]
    for i, (f, k2, b2) in enumerate(pairs):
        r = R()
        src = PRELUDE + "empty @is_you(int x0) { x = x0; %s write('|'); x = x0; %s write('>'); write(x); }" % (
            render_try(f[0], f[1], f[2], r), render_try(k2, b2, (('o',),), r))
        for x0 in (0, 1):
            items.append(runner.Item(('tt2', i, x0), src, [str(x0)], s=120,
                                     meta={'family': 'tt_history', 'classifier': {'tt': 'history_%s_then_%s' % (f[0], k2)}}))
    if tier != 'quick':
        triples = [(a, b, c) for a in firsts[:5] for b in firsts[:5] for c in seconds[:40]]
        rnd.shuffle(triples)
        for i, (a, b, c) in enumerate(triples[:600]):
            r = R()
            src = PRELUDE + "empty @is_you(int x0) { x = x0; %s x = x0; %s x = x0; %s write('>'); }" % (
                render_try(a[0], a[1], a[2], r), render_try(b[0], b[1], b[2], r), render_try('undo', c, (('o',),), r))
            for x0 in (0, 1):
                items.append(runner.Item(('tt3', i, x0), src, [str(x0)], s=120, meta={'family': 'tt_history3', 'classifier': {'tt': 'history3'}}))
    return items


TEMPLATES = [
    ('loop_exits', '''int x = 0;
empty !f() { !truth_is_defeat(x == 1); }
empty @is_you(int a, int b) {
  for (int i = 0; i < 3; i += 1) {
    write(i);
    try {
      if (i == a) { write('B'); break; }
      if (i == b) { write('C'); continue; }
      x = i; !f(); write('n');
    } %(kind)s { write('h'); if (i == a + 1) { break; } }
    write('.');
  }
  try { write('t'); x = 1; !f(); write('N'); } undo { write('U'); }
  write('>');
}''', [[a, b] for a in (-1, 0, 1, 2) for b in (-1, 0, 1)]),
    ('return_from_try', '''int x = 0;
empty !f() { !truth_is_defeat(x == 1); }
int @pick(int a) {
  try { if (a == 0) { return 10; } x = a; !f(); write('n'); if (a == 2) { return 20; } } %(kind)s { write('h'); if (a == 1) { return 30; } }
  return 40;
}
empty @is_you(int a) { write(@pick(a)); write(' '); x = 1; try { write('t'); !f(); } undo { write('U'); } write(@pick(0)); }''',
     [[0], [1], [2], [3]]),
    ('preempt_in_defeat_fn', '''int x = 0;
empty !walk(int n) {
  write('w'); write(n);
  if (n > 0) {
    preempt { write('P'); x = n; return; }
    !walk(n - 1);
  }
  !truth_is_defeat(x == 0);
}
empty @is_you(int n, int x0) { x = x0; try { !walk(n); write('n'); } %(kind)s { write('h'); } write(x); }''',
     [[n, x0] for n in (0, 1, 2) for x0 in (0, 1)]),
    ('spec_basic', '''int g = 0;
int side(int v) { g += 1; write('s'); return v; }
empty @is_you(int a, int b) {
  int r = side(a) ?? side(b); write(r); write(g);
  byte q = (a is byte) ?? (b is byte); write(q is int);
  bool t = (a > 0) ?? (b > 0); write(t);
  int u = side(a + 1) ?? 5; write(u); write(g);
  if (side(a) ?? b) { write('T'); } else { write('F'); }
  write(g);
  int l1 = 5 ?? side(b); write(l1); write(g); int l2 = a ?? side(b); write(l2); write(g);
  write((side(a) ?? b) * 2 + (side(a) ?? side(b))); write(g); write((a ?? b) - (b ?? a));
}''', [[a, b] for a in (0, 1, 5, 4, 256) for b in (0, 1, 5)]),
    ('spec_in_handler', '''int g = 0;
int side(int v) { g += 1; write('s'); return v; }
empty @is_you(int a, int b) {
  try { write('t'); !truth_is_defeat(a == b); write('n'); } stop { int r = side(a) ?? side(b); write(r); write(g); }
  try { write('t'); !truth_is_defeat(a != b); write('n'); } undo { write(side(a) ?? 7); write(g); }
  int k = (side(a) ?? b) + (side(b) ?? a); write(k); write(g);
}''', [[a, b] for a in (0, 7, 3) for b in (0, 7)]),
    ('truth_lowerings', '''empty @is_you(int a, int b) {
  bool p = a > b;
  try { !truth_is_defeat(a < b); write('1'); } undo { write('a'); }
  try { !truth_is_defeat(a < b or a == 5); write('2'); } undo { write('b'); }
  try { !truth_is_defeat(p); write('3'); } undo { write('c'); }
  try { !truth_is_defeat(not p); write('4'); } stop { write('d'); }
  try { !truth_is_defeat(a is bool); write('5'); } stop { write('e'); }
  try { !truth_is_defeat(true and p); write('6'); } undo { write('f'); }
  try { !truth_is_defeat(false); write('7'); } undo { write('g'); }
  try { !truth_is_defeat(a == b and b == 5); write('8'); } stop { write('h'); }
  try { write('9'); !truth_is_defeat(true); write('x'); } stop { write('i'); }
  try { write('A'); !truth_is_defeat(not false); write('x'); } undo { write('j'); }
  try { write('B'); !truth_is_defeat(2 + 2 == 4); write('x'); } stop { write('k'); }
  try { write('C'); !konst(a); write('y'); } stop { write('l'); }
  try { write('D'); !konst(a); write('y'); } undo { write('m'); }
  try { write('E'); if (a > 0) { !truth_is_defeat(true or p); } write('z'); } stop { write('n'); }
}
empty !konst(int a) { if (a != 1) { !truth_is_defeat(true); } write('K'); }''', [[a, b] for a in (0, 1, 5, -1) for b in (0, 5, 2)]),
    ('forced_preempt_in_defeat_fn', '''int x = 0;
empty !deep(int n) { preempt { write('p'); write(n); } if (n > 0) { !deep(n - 1); } write('d'); !truth_is_defeat(x != 5); write('k'); }
empty !mixed(int n) { if (n == 1) { preempt { write('q'); x = 5; } } else { preempt { write('z'); } } !truth_is_defeat(x != 5); write('m'); }
empty @is_you(int n, int x0) { x = x0; try { write('t'); !deep(n); write('n'); } %(kind)s { write('h'); } x = x0; try { write('T'); !mixed(n); write('N'); } %(kind)s { write('H'); } write(x); }''',
     [[n, x0] for n in (0, 1, 2) for x0 in (0, 5)]),
    ('halting_problem', '''empty @is_you(int a) {
  try { write('L'); int i = 0; while (i < a) { i += 1; } if (a < 0) { while (true) {} } !is_defeat(); } undo { write('T'); }
  write('>');
}''', [[0], [2], [-1]]),
    ('nested_handler_try', '''int x = 0;
empty !f() { !truth_is_defeat(x == 1); }
empty @is_you(int a) {
  try { write('1'); x = a; !f(); write('n'); }
  stop { write('h'); try { write('2'); x = 1 - a; !f(); write('m'); } undo { write('u'); } write('k'); }
  try { write('3'); x = 1; !f(); } stop { write('s'); }
  write('>');
}''', [[0], [1]]),
]


TEMPLATES += [
    ('preempt_with_loops', '''int x = 0;
empty !f() { !truth_is_defeat(x == 1); }
empty @is_you(int a, int b) {
  try { write('t'); preempt { for (int i = 0; i < 3; i += 1) { if (i == a) { continue; } if (i == b) { break; } write(i); int[] t = [i, i]; x = t[1]; } write('p'); } x = a; !f(); write('n'); } %(kind)s { write('h'); }
  for (int k = 0; k < 2; k += 1) { try { preempt { if (k == a) { write('c'); continue; } write('q'); } !truth_is_defeat(k == b); write('m'); } %(kind)s { write('H'); } write('.'); }
  write('>');
}''', [[a, b] for a in (0, 1, 2) for b in (0, 1, 3)]),
    ('you_call_from_handler', '''int x = 0;
empty !f(int d) { int[] pad = [d, d]; if (d > 0) { !f(d - 1); } !truth_is_defeat(x == 1); write(pad[1]); }
int @rescue(int a) { try { x = a; !f(1); write('r'); return 1; } stop { write('R'); } return 2; }
empty @is_you(int a, int b) {
  int[] keep = [7, 8, 9];
  try { x = a; !f(2); write('n'); } stop { write('h'); write(@rescue(b)); write(keep[2]); }
  try { x = b; !f(0); write('m'); } undo { write('u'); write(@rescue(a)); }
  write(keep[0]); write('>');
}''', [[a, b] for a in (0, 1) for b in (0, 1)]),
    ('spec_with_arrays', '''int g = 0; int[] G = [4, 5, 6];
int pick(const int[] a, int i) { g += 1; write('p'); return a[i]; }
int total(const int[] a) { int s = 0; for (int i = 0; i < a.length; i += 1) { s += a[i]; } g += 10; return s; }
empty @is_you(int a, int b) {
  int[] l = [a, b, 6];
  write(pick(l, 0) ?? pick(G, 2)); write(g); write(total([a, b]) ?? total(l)); write(g); write(l[0] ?? G[a %% 3]); write(pick(G, b %% 3) ?? l[2]); write(g);
  write((pick(l, 1) ?? G[1]) + G[0]); write(g); bool t = (l[0] > 0) ?? (pick(G, 0) > 4); write(t); write(g);
}'''.replace('%%', '%'), [[a, b] for a in (0, 4, 6) for b in (1, 5, 6)]),
]

TEMPLATES += [
    # values whose lowering has internal joins (normalisation, comparisons as values, and/or) feeding a later defeat: the
    # defeat must not be avertable by taking the other side of a join inside the expression code
    ('joined_values_then_defeat', '''empty @is_you(int a, int b) {
  try { bool s = a is bool; write(s); !truth_is_defeat(s == true); write('n'); } %(kind)s { write('h'); }
  try { int c = 0; c += (a is bool) is int; c += (b is bool) is int; write(c); !truth_is_defeat(c == 1); write('m'); } %(kind)s { write('H'); }
  try { bool lt = a < b; bool e = a == b; int v = (lt is int) * 2 + (e is int); write(v); !truth_is_defeat(v == 2); write('k'); } %(kind)s { write('K'); }
  try { bool c = (a > 0) and (b > 0); bool d = (a > 0) or (b > 0); write(c); write(d); !truth_is_defeat(c != d); write('j'); } %(kind)s { write('J'); }
  try { byte q = a is byte; bool z = q is bool; bool y = not (b is bool); write(z); !truth_is_defeat(z == y); write('z'); } %(kind)s { write('Z'); }
  try { int w = ((a is bool) is int) + (((a is byte) is bool) is int) * 2; write(w); !truth_is_defeat(w is bool); write('w'); } %(kind)s { write('W'); }
  write('>');
}''', [[a, b] for a in (0, 1, 2, 5, 256) for b in (0, 1, 3)]),
]

# emission order: hidc emits functions in order of first reference, and several per-function decisions of the code
# generator (variable defeat word, handler epilogues) are made while emitting.  The same three pieces in every order,
# so that every function is at some point emitted first / right after a defeat function / before the first stop-try.
def _emission_order():
    import itertools
    out = []
    pieces = {'u': "try { !chk(0); write('a'); } undo { write('A'); }",
              'c': "@twice(x);",
              's': "try { !chk(x); write('b'); } %(kind)s { write('B'); }"}
    for k1, k2 in (('stop', 'undo'), ('undo', 'stop'), ('stop', 'stop')):
        for perm in itertools.permutations('ucs'):
            body = ' '.join(pieces[p] for p in perm)
            src = '''empty !chk(int x) { !truth_is_defeat(x > 2); }
empty @twice(int x) {
  try { !chk(x); write('1'); } %s { write('S'); }
  try { !chk(x); write('2'); } %s { write('T'); }
  try { !chk(x - 5); write('3'); } %s { write('V'); }
}
empty @is_you(int x) { %s write('>'); }''' % (k1, k2, k1, body)
            out.append(('emit_order_%s_%s%s' % (''.join(perm), k1[0], k2[0]), src, [[1], [7], [9]]))
    return out


TEMPLATES += _emission_order()

TEMPLATES += [
    # finding F10: the target of an assignment doubles as result register; `??` stores its right operand there first
    ('spec_into_assigned_target', '''int g = 5; byte gb = 7; bool gt = true; int[] A = [1, 2, 3];
int f(int p) { return p + 1; }
byte fb(byte p) { return (p + 1) is byte; }
bool ft(bool p) { return not p; }
int rg() { return g; }
empty @is_you(int a, int b) {
  int l = a; byte lb = a is byte; bool lt = a > 0;
  g = f(g) ?? b; write(g); write(' '); g = (f(g) ?? b) + 1; write(g); write(' '); g = a + (f(g) ?? b); write(g); write(' ');
  g = -(f(g) ?? b); write(g); write(' '); g = A[((f(g) ?? b) %% 3 + 3) %% 3]; write(g); write(' '); g = f(f(g) ?? b); write(g); write(' ');
  g = [f(g) ?? b, 4][0]; write(g); write(' '); g += f(g) ?? b; write(g); write(' '); g = rg() ?? b; write(g); write(' '); g = (g + 1) ?? b; write(g); write(' ');
  l = f(l) ?? b; write(l); write(' '); l = -(f(l) ?? b); write(l); write(' '); A[1] = f(A[1]) ?? b; write(A[1]); write(' '); A[g %% 2] = (A[g %% 2] + 1) ?? 3; write(A[0]); write(A[1]); write(' ');
  gb = fb(gb) ?? (b is byte); write(gb is int); write(' '); lb = fb(lb) ?? (b is byte); write(lb is int); write(' ');
  gt = ft(gt) ?? (b > 0); write(gt); write(' '); lt = ft(lt) ?? (b > 0); write(lt);
}'''.replace('%%', '%'), [[a, b] for a in (0, 3, 8) for b in (9, 6, 1, 0)]),
]

TEMPLATES += [
    # defeat raised INSIDE a preempt body (directly, in a loop, through a defeat function), under both handlers
    ('defeat_inside_preempt', '''int x = 0;
empty !f() { !truth_is_defeat(x == 1); }
empty !deep(int a) { preempt { write('P'); !truth_is_defeat(a == 2); write('Q'); x = 0; } !f(); write('d'); }
empty @is_you(int a, int b) {
  try { write('t'); preempt { write('p'); !truth_is_defeat(a == 1); write('q'); x = 0; } x = b; !f(); write('n'); } %(kind)s { write('h'); }
  try { write('T'); preempt { write('r'); if (a == 2) { !is_defeat(); } x = 0; write('s'); } x = b; !f(); write('m'); } %(kind)s { write('H'); }
  try { write('U'); preempt { for (int i = 0; i < 2; i += 1) { write(i); !truth_is_defeat(i == a - 3); } x = 0; } x = b; !f(); write('k'); } %(kind)s { write('G'); }
  try { write('V'); x = b; !deep(a); write('j'); } %(kind)s { write('J'); }
  write('>');
}''', [[a, b] for a in (0, 1, 2, 3, 4) for b in (0, 1)]),
]

TEMPLATES += [
    # `a ?? b` whose left operand changes what the right operand reads (the right side is evaluated first and kept)
    ('spec_left_changes_right', '''int g = 5; byte gb = 3; int[] GA = [7, 8];
int setg(int v) { g = v; write('s'); return v; } byte setb(byte v) { gb = v; return v; } int poke(int v) { GA[0] = v; return v; }
empty @is_you(int a, int b) { write(setg(a) ?? g); write(g); write(' '); g = b; write(setg(a) ?? g + 0); write(g); write(' '); write((setb(a is byte) ?? gb) is int); write(gb is int); write(' ');
  write(poke(a) ?? GA[0]); write(GA[0]); write(' '); int l = b; l = setg(l + 1) ?? g; write(l); write(g); }''', [[a, b] for a in (5, 9, 0) for b in (5, 9, 1)]),
    # preempt blocks inside loops of (recursive) defeat functions, the defeat raised inside the function itself
    ('preempt_in_loop_of_defeat_fn', '''int x = 0;
empty !scan(int n, int bad) { for (int i = 1; i <= n; i += 1) { preempt { write(i); x = i; } if (i == bad) { !is_defeat(); } } write('e'); }
empty !wh(int n, int bad) { int i = 0; while (i < n) { i += 1; preempt { write('w'); continue; } !truth_is_defeat(i == bad); write('k'); } }
empty !nest(int n, int bad) { for (int i = 0; i < n; i += 1) { for (int j = 0; j < 2; j += 1) { preempt { write('p'); break; } !truth_is_defeat(i * 2 + j == bad); write('q'); } } }
empty @is_you(int n, int bad) {
  try { write('b'); !scan(n, bad); write('n'); } %(kind)s { write('h'); } write(x); write(' ');
  try { write('B'); !wh(n, bad); write('N'); } %(kind)s { write('H'); } write(' ');
  try { write('c'); !nest(n, bad); write('m'); } %(kind)s { write('G'); } write('>');
}''', [[n, bad] for n in (0, 2, 3) for bad in (0, 1, 2, 3, 9)]),
    # library routines with internal branches (sign of write(int), write(bool), string loops) inside a try that later defeats
    ('library_calls_then_defeat', '''empty @is_you(int a, int b) {
  try { write(a); write(' '); write(0 - 7); writeln(a < b); write("str"); byte[] q = ['q', 'r']; write(q); write(a is byte); !truth_is_defeat(b == 1); write('n'); } %(kind)s { write('h'); }
  try { write(0 - a); write(b > 0); write(""); writeln(); !truth_is_defeat(a < 0); write('m'); } %(kind)s { write('H'); write(a); }
  write('>');
}''', [[a, b] for a in (-5, 0, 12345, -32768) for b in (0, 1)]),
    # a try body that certainly ends in defeat IF it gets there: a fault or an endless loop on the way wins over the defeat
    ('certain_defeat_not_reached', '''int g = 0;
empty !boom(int d) { write('x'); write(10 / d); !is_defeat(); }
empty @is_you(int a, int b) {
  try { write('t'); write(100 / a); write('q'); !is_defeat(); } %(kind)s { write('h'); }
  try { write('T'); if (b == 1) { all_is_win(); } !is_defeat(); } %(kind)s { write('H'); }
  try { write('U'); !boom(b); } %(kind)s { write('G'); }
  try { write('V'); int[] arr = [1, 2]; write(arr[b - 3]); !is_defeat(); } %(kind)s { write('J'); }
  try { write('W'); while (b == 3) { g = 0; } !is_defeat(); } %(kind)s { write('K'); }
  write('>');
}''', [[a, b] for a in (1, 0) for b in (2, 0, 1, 3, 5)]),
]

SCOPE_TEMPLATES = [
    ('loop_inside_try', '''int x = 0;
empty !f() { !truth_is_defeat(x == 1); }
empty @is_you(int a, int b) {
  try { write('t'); for (int i = 0; i < 3; i += 1) { if (i == a) { break; } if (i == b) { continue; } write(i); } x = 1; !f(); write('n'); } %(kind)s { write('h'); }
  try { write('T'); int k = 0; while (k < 2) { k += 1; if (k == a) { continue; } write(k); } !is_defeat(); } %(kind)s { write('H'); }
  try { write('U'); for (int j = 0; j < 2; j += 1) { int[] t = [j, j]; if (j == b) { break; } write(t[1]); } !truth_is_defeat(a > b); write('m'); } %(kind)s { write('G'); }
  write('>');
}''', [[a, b] for a in (-1, 0, 1, 2) for b in (-1, 0, 1)]),
    ('defeat_deep_with_live_arrays', '''empty !deep(int d, int i) { int[] pad = [d, d, d]; byte q[d + 1]; q[0] = 'q'; if (d > 0) { !deep(d - 1, i); } !truth_is_defeat(i %% 2 == 0); write(pad[0]); }
empty @is_you(int n) { int[] keep = [7, 8]; for (int i = 0; i < n; i += 1) { try { write('t'); !deep(2, i); write('n'); } %(kind)s { write('h'); } int[] after = [i, i + 1]; write(after[1]); } write(keep[1]); write('>'); }''',
     [[0], [1], [2], [3], [5]]),
    ('two_stop_tries_one_function', '''int x = 0;
empty !f(int d) { int[] pad = [d]; if (d > 0) { !f(d - 1); } !truth_is_defeat(x == 1); write(pad[0]); }
empty @inner(int a) { try { x = a; !f(1); write('i'); } stop { write('I'); } }
empty @is_you(int a, int b) {
  int keep = 7; int[] arr = [1, 2, 9];
  if (a > 5) { try { x = 1; !f(0); } stop { write('0'); } }
  try { x = a; !f(2); write('n'); } stop { write('h'); write(keep); }
  @inner(1); @inner(0);
  try { x = b; !f(1); write('m'); } stop { write('H'); write(keep); write(arr[2]); }
  write(keep); write(arr[2]); write('>');
}''', [[a, b] for a in (0, 1, 9) for b in (0, 1)]),
]
TEMPLATES += SCOPE_TEMPLATES


def template_family(seed, tier, only=None):
    items = []
    for name, tmpl, argss in (only or TEMPLATES):
        kinds = ['undo', 'stop'] if '%(kind)s' in tmpl else ['-']
        for kind in kinds:
            src = tmpl % {'kind': kind} if kind != '-' else tmpl
            for a in argss:
                items.append(runner.Item(('ttt', name, kind, tuple(a)), src, [str(v) for v in a], s=160,
                                         meta={'family': 'tt_' + name, 'classifier': {'tt': name}}))
    return items


# ------------------------------------------------------------------------------------------------ random time travel
class TTGen:
    def __init__(self, seed):
        self.r = random.Random(seed)
        self.n = 0

    def ch(self):
        self.n += 1
        return 'abcdeijklmnopqtuvwyz'[self.n % 20]

    def cond(self):
        r = self.r
        return r.choice(['x == 0', 'x != 0', 'x > 1', 'a == x', 'a > 0', 'x < a'])

    def stmt(self, d, in_try, in_loop, in_fn):
        r = self.r
        c = r.random()
        if c < 0.22:
            return "write('%s');" % self.ch()
        if c < 0.36:
            return r.choice(['x = 1;', 'x += 1;', 'x = a;', 'x = 0;', 'x = x * 2;'])
        if in_try and c < 0.46:
            return r.choice(['!is_defeat();', '!truth_is_defeat(%s);' % self.cond(), '!truth_is_defeat(%s);' % self.cond()])
        if in_try and c < 0.56:
            return r.choice(['!f();', '!g();', '!r(1);', '!r(2);'])
        if in_try and d > 0 and c < 0.68:
            return 'preempt { %s }' % self.block(d - 1, in_try, in_loop, in_fn, 2)
        if d > 0 and c < 0.80:
            s = 'if (%s) { %s }' % (self.cond(), self.block(d - 1, in_try, in_loop, in_fn, 2))
            if r.random() < 0.5:
                s += ' else { %s }' % self.block(d - 1, in_try, in_loop, in_fn, 2)
            return s
        if in_loop and c < 0.86:
            return 'if (%s) { %s; }' % (self.cond(), r.choice(['break', 'continue']))
        if d > 0 and c < 0.89:
            self.n += 1
            v = 'l%d' % self.n
            return 'for (int %s = 0; %s < 2; %s += 1) { %s }' % (v, v, v, self.block(d - 1, in_try, True, in_fn, 2))
        if in_fn and c < 0.92:
            return 'if (%s) { return; }' % self.cond()
        if (not in_try) and d > 0 and c < 0.97:
            kind = r.choice(['undo', 'stop'])
            return 'try { %s } %s { %s }' % (self.block(d - 1, True, in_loop, in_fn, 3), kind,
                                             self.block(d - 1, False, in_loop, in_fn, 2))
        return "write('%s');" % self.ch()

    def block(self, d, in_try, in_loop, in_fn, n):
        return ' '.join(self.stmt(d, in_try, in_loop, in_fn) for _ in range(self.r.randrange(1, n + 1)))

    def program(self):
        r = self.r
        body = []
        for _ in range(r.randrange(2, 5)):
            c = r.random()
            if c < 0.25:
                self.n += 1
                body.append('for (int i%d = 0; i%d < 2; i%d += 1) { %s }' % (self.n, self.n, self.n, self.block(2, False, True, False, 3)))
            else:
                body.append(self.stmt(2, False, False, False))
        helper = 'empty @h(int a) { %s }\n' % self.block(2, False, False, True, 3)
        use = ' @h(a);' if r.random() < 0.5 else ''
        return PRELUDE + helper + "empty @is_you(int a, int x0) { x = x0; %s%s write('>'); write(x); }" % (' '.join(body), use)


def random_tt(seed, n):
    items = []
    for i in range(n):
        g = TTGen(seed * 7919 + i)
        src = g.program()
        for a, x0 in [(0, 0), (1, 0), (2, 1)]:
            items.append(runner.Item(('ttr', seed, i, a, x0), src, [str(a), str(x0)], s=200,
                                     meta={'family': 'tt_random#%d' % (seed * 7919 + i), 'classifier': {'tt': 'random'}}))
    return items


# ------------------------------------------------------------------------------------------------ C08 scope exits
class ScopeGen:
    """arrays (literal, dynamic with varying length, passed, aliased) at every depth; exits by every route"""
    def __init__(self, seed):
        self.r = random.Random(seed)
        self.n = 0

    def name(self):
        self.n += 1
        return 'a%d' % self.n

    def alloc(self, live):
        r = self.r
        nm = self.name()
        c = r.random()
        el = r.choice(['int', 'byte', 'bool'])
        val = {'int': 'i + %d' % r.randrange(9), 'byte': "'%s'" % r.choice('abc'), 'bool': '(i > 0)'}[el]
        if c < 0.4:
            k = r.choice([1, 2, 3])
            s = '%s[] %s = [%s];' % (el, nm, ', '.join(val for _ in range(k)))
        elif c < 0.8:
            s = '%s %s[i + %d]; for (int z = 0; z < %s.length; z += 1) { %s[z] = %s; }' % (el, nm, r.choice([1, 2]), nm, nm, val)
        else:
            if live:
                src = r.choice(live)
                s = '%s[] %s = %s;' % (src[1], nm, src[0])
                el = src[1]
            else:
                s = '%s[] %s = [%s];' % (el, nm, val)
        live.append((nm, el))
        return s

    def show(self, live):
        if not live:
            return "write('-');"
        nm, el = self.r.choice(live)
        if el == 'byte':
            return 'write(%s);' % nm
        return 'write(%s[0]); write(%s.length);' % (nm, nm)

    def body(self, d, live, in_try, in_fn):
        r = self.r
        out = []
        mine = list(live)
        for _ in range(r.randrange(1, 4)):
            c = r.random()
            if c < 0.35:
                out.append(self.alloc(mine))
            elif c < 0.5:
                out.append(self.show(mine))
            elif c < 0.62:
                out.append('if (i == k) { %s break; }' % self.show(mine))
            elif c < 0.74:
                out.append('if (i == k + 1) { %s continue; }' % self.show(mine))
            elif c < 0.80 and in_fn:
                out.append('if (i == k + 2) { return; }')
            elif c < 0.88 and d > 0:
                out.append('{ %s }' % self.body(d - 1, mine, in_try, in_fn))
            elif c < 0.96 and d > 0 and not in_try:
                kind = r.choice(['stop', 'undo'])
                out.append('try { %s !truth_is_defeat(i == k); %s } %s { %s }' % (
                    self.body(d - 1, mine, True, in_fn), self.show(mine), kind, self.show(list(live))))
            else:
                ints = [nm for nm, el in mine if el == 'int']
                out.append('use(%s);' % (r.choice(ints) if ints else '[i]'))
        out.append(self.show(mine))
        return ' '.join(out)

    def program(self):
        live = []
        pre = self.alloc(live).replace('i +', '1 +').replace('(i > 0)', 'true')
        loop = self.body(2, list(live), False, True)
        return ('''empty use(const int[] p) { write(p.length); int[] t = [p.length, 2]; write(t[1]); }
empty @run(int n, int k) { %s for (int i = 0; i < n; i += 1) { %s } %s int[] fresh = [9, 9, 9]; write(fresh[2]); %s }
empty @is_you(int n, int k) { @run(n, k); write('|'); @run(1, k); }''' % (pre, loop, self.show(live), self.show(live)))


def scope_family(seed, n, iters=(0, 1, 2, 3)):
    items = []
    for i in range(n):
        g = ScopeGen(seed * 104729 + i)
        src = g.program()
        for it in iters:
            for k in (0, 1, -5):
                items.append(runner.Item(('scope', seed, i, it, k), src, [str(it), str(k)], s=300,
                                         meta={'family': 'scope#%d' % (seed * 104729 + i), 'classifier': {'scope': 'random'}}))
    return items


FOOTPRINT = [
    ('continue_in_try', '''empty !f(int i) { !truth_is_defeat(i %% 2 == 1); }
empty @is_you(int n) { for (int i = 0; i < n; i += 1) { int[] a = [i, i]; byte b[3]; b[0] = 'x'; try { int[] c = [1, 2, 3]; !f(i); if (i %% 3 == 0) { continue; } write(c[2]); } %(kind)s { write('h'); } write(a[1]); } write('>'); }'''),
    ('break_nested', '''empty @is_you(int n) { for (int j = 0; j < n; j += 1) { int[] o = [j]; for (int i = 0; i < 3; i += 1) { int v[i + 1]; v[0] = i; if (i == 1) { break; } write(v[0]); } write(o[0]); } write('>'); }'''),
    ('call_in_loop', '''int sum(const int[] p) { int s = 0; for (int i = 0; i < p.length; i += 1) { s += p[i]; } int[] t = [s, s]; return t[1]; }
empty @is_you(int n) { for (int i = 0; i < n; i += 1) { write(sum([i, i + 1, i + 2])); write(','); } write('>'); }'''),
    ('while_alloc', '''empty @is_you(int n) { int i = 0; while (i < n) { i += 1; bool m[i %% 3 + 1]; m[0] = true; string[] s = ["a", "b"]; if (i %% 2 == 0) { continue; } write(s[1]); write(m[0]); } write('>'); }'''),
    ('temporaries', '''int f(int x) { return x + 1; } int first(const int[] p) { return p[0]; } empty eat(const int[] p, const byte[] q) { write(p.length + q.length); }
empty @is_you(int n) { for (int i = 0; i < n; i += 1) { [f(i), f(i + 1), 3]; first([i, f(i)]); eat([i, i, i], [(i is byte), 'x']); [i][0]; write([f(i), 2].length); if ([i, i] is bool) { write('t'); } ["a", "bc"][i %% 2]; write(first([f(i)]) + [1, f(i)][1]); } write('>'); }'''),
    ('stop_unwinds', '''empty !deep(int d, int i) { int[] pad = [d, d, d]; if (d > 0) { !deep(d - 1, i); } !truth_is_defeat(i %% 2 == 0); write(pad[0]); }
empty @is_you(int n) { for (int i = 0; i < n; i += 1) { int[] a = [i]; try { int[] b = [1, 2]; !deep(2, i); write(b[1]); } stop { write('h'); } write(a[0]); } write('>'); }'''),
]


def footprint_family():
    """C08 behavioural clause: the stack that suffices for one iteration suffices for 2, 5 and 20."""
    items = []
    for name, tmpl in FOOTPRINT:
        kinds = ['undo', 'stop'] if '%(kind)s' in tmpl else ['-']
        for kind in kinds:
            src = tmpl % {'kind': kind} if kind != '-' else tmpl.replace('%%', '%')
            m = families.min_stack(src, ['1'])
            if m is None:
                continue
            for n in (1, 2, 5, 20):
                items.append(runner.Item(('foot', name, kind, n), src, [str(n)], s=m,
                                         meta={'family': 'footprint_' + name, 'classifier': {'scope': 'footprint_' + name}}))
    return items


# ------------------------------------------------------------------------------------------------ C04 stack sweep
SWEEP = [
    ('arrays', '''int gsum = 0;
int total(const int[] p) { int s = 0; for (int i = 0; i < p.length; i += 1) { s += p[i]; } return s; }
empty @is_you(int n) { int[] a = [1, 2, 3]; byte b[n]; for (int i = 0; i < n; i += 1) { b[i] = 'a'; } bool[] c = [true, false, true];
  write(total(a)); write(total([n, total([1, n]), 3])); write(b); write(c[2]); string[] s = ["x", "yy"]; write(s[1]); write(a[2]); }''', [[0], [1], [3], [5]]),
    ('library', '''empty @is_you(int v) { byte[] keep = ['A', 'B', 'C', 'D']; int k = 7; write(v); write(' '); writeln(v > 0); write("str"); write(keep); writeln(keep is bool); write(k); }''',
     [[0], [7], [-7], [12345], [-32768]]),
    ('recursion', '''int depth(int n) { int[] pad = [n, n]; if (n <= 0) { return 0; } return depth(n - 1) + pad[1]; }
empty @is_you(int n) { write(depth(n)); }''', [[0], [1], [3]]),
    ('recursion_no_locals', '''int depth(int n) { if (n <= 0) { return 0; } return depth(n - 1) + 1; }
int twice(int n) { return depth(n) + depth(n - 1); }
empty @is_you(int n) { int[] guard = [7, 8]; write(twice(n)); write(guard[0]); write(guard[1]); }''', [[0], [1], [4], [9]]),
    ('nested_literal_calls', '''int id(int v) { int[] t = [v, v, v]; return t[2]; }
empty @is_you(int n) { int[] a = [id(n), id(n + 1), [id(2), 4][1]]; write(a[0]); write(a[1]); write(a[2]); bool[] f = [n > 0, id(n) > 1, true, false, true, false, true, false, n == 3]; write(f[8]); }''', [[0], [3]]),
    # finding F11: values of an array literal that need temporaries / calls while the literal already occupies the array stack
    ('literal_value_temporaries', '''int sum3(const int[] p) { return p[0] + p[1] * 2 + p[2]; }
int len(const byte[] p) { return p.length * 100 + p[1]; } int cnt(const bool[] p) { int c = 0; for (int i = 0; i < p.length; i += 1) { c += p[i] is int; } return c; }
int id(int v) { return v; }
empty @is_you(int n) { int[] keep = [5, 6];
  write(sum3([n, (n + 1) * ((n + 2) * ((n + 3) * ((n + 4) * (n + 5)))), 7])); write(' ');
  write(len(['a', ((n + 1) * ((n + 2) * ((n + 3) * (n + 4)))) is byte, 'c'])); write(' ');
  write(cnt([true, (n + 1) * ((n + 2) * (n + 3)) > id(n), false, true, false, false, false, false, id(n) == (n + 0) * (1 + (n - n))])); write(' ');
  write(sum3([id(n), sum3([n, id(id(n) + 1), 2]), 3])); write(keep[0]); write(keep[1]); }''', [[1], [3]]),
    ('byte_deepest', '''empty put(byte c) { write(c); }
bool odd(int x, bool flip) { return (x %% 2 == 1) != flip; }
empty @is_you(int n, int v) { bool b[n]; for (int i = 0; i < n; i += 1) { b[i] = false; } b[v] = true; for (int j = 0; j < n; j += 1) { write(b[j] is int); } put('!'); write(odd(v, false)); }''',
     [[16, 15], [8, 0], [1, 0], [9, 8]]),
    ('byte_deepest_inline', '''empty @is_you(int n, int v) { bool b[n]; for (int i = 0; i < n; i += 1) { b[i] = false; } b[v] = true;
  for (int j = 0; j < n; j += 1) { if (b[j]) { write('1'); } else { write('0'); } } }''', [[16, 15], [8, 7], [9, 0], [17, 16], [24, 3], [1, 0]]),
    ('byte_local_deepest', '''empty @is_you(int n, byte c) { byte pad[n]; for (int i = 0; i < n; i += 1) { pad[i] = c; } { int k = n; byte last = c; last += 1; write(last); write(pad); if (k > 1) { write(pad[1]); } } }''',
     [[1, 65], [2, 65], [3, 66], [4, 67]]),
    ('indices', '''empty @is_you(int i, int n) { int[] a = [1, 2, 3]; write('a'); bool b[n]; write('b'); if (n > 0) { b[0] = true; } write(a[i]); a[i] += 1; write(a[i]); }''',
     [[0, 2], [2, 0], [3, 1], [-1, 1], [0, -1], [0, -8], [32767, 1], [0, 32767]]),
]


def sweep_family(tier):
    items = []
    for name, src, argss in SWEEP:
        src = src.replace('%%', '%')
        for a in argss:
            sa = [str(x) for x in a]
            m = families.min_stack(src, sa, hi=300)
            if m is None:
                sizes = [5, 20, 300]
            else:
                lo = max(1, m - (6 if tier == 'quick' else 12))
                sizes = sorted(set(list(range(lo, m + 3)) + [m + 10, 300]))
            for s in sizes:
                items.append(runner.Item(('sweep', name, tuple(a), s), src, sa, s=s,
                                         meta={'family': 'sweep_' + name, 'min_stack': m, 'allow_exhausted': 'prefix',
                                               'classifier': {'sweep': name}}))
    return items


# ------------------------------------------------------------------------------------------------ C16 dynamic templates
EXIT_TEMPLATES = [
    ('loop_return_continue', '''int find(const int[] a) { int i = -1; while (true) { i += 1; if (a[i] < 10) { continue; } return a[i]; } }
int findf(const int[] a) { for (int i = 0; ; i += 1) { if (a[i] < 10) { continue; } if (a[i] > 100) { break; } return a[i]; } return 0 - 1; }
int both(const int[] a) { int i = 0; while (i < a.length) { i += 1; if (a[i - 1] == 0) { continue; } if (a[i - 1] < 0) { break; } return a[i - 1]; } return 0; }
empty @is_you(const int[] a) { write(find(a)); write(','); write(findf(a)); write(','); write(both(a)); }''',
     [['12'], ['3', '12'], ['3', '4', '500', '12'], ['0', '0', '-1', '50'], ['1', '2', '3', '77']]),
    ('defeat_only_paths', '''int !risky(int x) { !truth_is_defeat(x > 5); return x * 2; }
int @guard(int x) { try { int y = !risky(x); return y + 1; } undo { write('u'); } return 0 - 1; }
int @guard2(int x) { try { return !risky(x) + !risky(x + 3); } stop { write('s'); } return 0 - 2; }
empty @last(int x) { try { write(!risky(x)); return; } undo { write('U'); } }
empty @is_you(int x) { write(@guard(x)); write(','); write(@guard2(x)); write(','); @last(x); write('.'); }''',
     [['0'], ['3'], ['6'], ['9']]),
    ('terminal_name_overloads', '''empty all_is_broken(string why) { write("E:"); write(why); }
empty all_is_win(int code) { write("W:"); write(code); }
int after(int x) { if (x > 1) { all_is_broken("big"); } else { all_is_win(x); } write('t'); return x + 1; }
empty @is_you(int x) { write(after(x)); all_is_broken("late"); write("done"); if (x == 9) { all_is_broken(); } write('!'); }''',
     [['0'], ['5'], ['9']]),
    ('terminal_name_flavours', '''int score = 0;
empty @all_is_win() { score += 100; write('b'); }
empty !all_is_broken() { !truth_is_defeat(score > 150); write('k'); }
empty !all_is_win() { write('w'); }
empty @all_is_broken() { write('B'); }
int @play(int x) { if (x > 3) { @all_is_win(); write('a'); } return score + x; }
empty @celebrate() { write('c'); @all_is_win(); }
empty !walk() { write('v'); !all_is_win(); }
empty @is_you(int x) { write(@play(x)); if (x == 2 or x == 9) { @celebrate(); @all_is_broken(); write('d'); }
  try { !all_is_broken(); !walk(); write('n'); } %(kind)s { write('u'); } write('e'); if (x == 7) { all_is_win(); } write('!'); }''',
     [['1'], ['2'], ['5'], ['7'], ['9']]),
    ('helper_ending_in_terminal', '''empty expect(bool c, string what) { if (c) { return; } write("FAIL "); write(what); all_is_broken(); }
empty finish(int x) { write('f'); if (x < 5) { return; } write("done"); all_is_win(); }
int checked(int x) { expect(x >= 0, "neg"); write('c'); return x * 2; }
empty last_call(int x) { write('l'); expect(x != 7, "seven"); }
empty @is_you(int x) { expect(x != 3, "three"); write('a'); write(checked(x)); last_call(x); write('b'); finish(x); write('e'); expect(x == 1, "not one"); write('z'); }''',
     [['1'], ['3'], ['-2'], ['7'], ['9'], ['2']]),
    ('preempt_break_out_of_endless_loop', '''int x = 0;
empty !f() { !truth_is_defeat(x == 1); }
int !spin(int a) { int n = 0; while (true) { n += 1; preempt { write('p'); break; } if (n > 2) { x = a; !f(); return n; } } write('o'); return 0 - n; }
empty @is_you(int a) { try { write(!spin(a)); write('n'); } %(kind)s { write('h'); } int k = 0; while (true) { k += 1; if (k == 2) { break; } } write(k); write('>'); }
empty intruder() { write("INTRUDER"); }''', [['0'], ['1']]),
    ('nested_terminal', '''int pick(int x) { if (x == 0) { return 1; } else { if (x == 1) { all_is_win(); } else { while (true) { if (x == 2) { return 3; } x -= 1; } } } }
int pick2(int x) { for (;;) { if (x > 3) { all_is_broken(); } if (x == 3) { break; } x += 1; } return x; }
empty @is_you(int x) { write(pick2(x)); write(pick(x)); write('>'); }''', [['0'], ['1'], ['2'], ['5'], ['3']]),
    ('try_in_loop_exits', '''int x = 0;
empty !f() { !truth_is_defeat(x == 1); }
int @scan(const int[] a) { for (int i = 0; i < a.length; i += 1) { try { x = a[i]; !f(); if (a[i] == 7) { return i; } if (a[i] == 8) { break; } continue; } %(kind)s { write('h'); } write('.'); } return 0 - 1; }
empty @is_you(const int[] a) { write(@scan(a)); }''', [['2', '7'], ['1', '8', '7'], ['1', '1'], ['3', '4']]),
]


def exit_templates():
    items = []
    for name, tmpl, argss in EXIT_TEMPLATES:
        kinds = ['undo', 'stop'] if '%(kind)s' in tmpl else ['-']
        for kind in kinds:
            src = tmpl % {'kind': kind} if kind != '-' else tmpl
            for a in argss:
                items.append(runner.Item(('exit', name, kind, tuple(a)), src, [str(v) for v in a], s=160,
                                         meta={'family': 'exit_' + name, 'classifier': {'half': 'dynamic', 'tt': name}}))
    return items
