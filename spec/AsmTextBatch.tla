---------------------------- MODULE AsmTextBatch ----------------------------
(* Stand-in for the generated module of recorded (emitted text, bytes) pairs;      *)
(* hv/asmtext.py writes the real one into a scratch directory next to a copy of    *)
(* AsmText.tla.                                                                     *)
EXTENDS Integers
Pairs == << >>
=============================================================================
