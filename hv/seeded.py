"""Seeded changes (realistic breakages written by independent agents): import, confirm, evaluate.

    python -m hv.seeded import <worktree>/mutants/<name> <PROP>      -> /verif/seeded/<PROP>_<name>/
    python -m hv.seeded eval <id> [--checks C01,C03] [--tier quick]   -> applies the patch to a scratch worktree of
                                                                         /repo, runs tests + demo + checks there
Nothing is ever applied to /repo itself."""
import argparse, json, os, shutil, subprocess, sys, time
from . import common

SEEDED = os.path.join(common.VERIF, 'seeded')
TESTS = ['/venv/bin/python', '-m', 'pytest', '-q', '-p', 'no:cacheprovider', '--timeout=900',
         '--continue-on-collection-errors', 'tests']


def sh(cmd, cwd=None, env=None, timeout=3600):
    p = subprocess.run(cmd, cwd=cwd, env=env, stdout=subprocess.PIPE, stderr=subprocess.STDOUT, timeout=timeout)
    return p.returncode, p.stdout.decode('utf-8', 'replace')


def do_import(src, prop):
    name = os.path.basename(src.rstrip('/'))
    mid = name if name.startswith(prop + '_') else '%s_%s' % (prop, name)
    dst = os.path.join(SEEDED, mid)
    os.makedirs(dst, exist_ok=True)
    for f in os.listdir(src):
        if f.endswith('.pyc') or f == '__pycache__':
            continue
        s = os.path.join(src, f)
        if os.path.isfile(s):
            shutil.copy(s, os.path.join(dst, f))
    # helper modules next to the mutants (e.g. minivm.py) that demos import
    for f in os.listdir(os.path.dirname(src.rstrip('/'))):
        s = os.path.join(os.path.dirname(src.rstrip('/')), f)
        if os.path.isfile(s) and f.endswith('.py'):
            shutil.copy(s, os.path.join(dst, f))
    # helper packages next to the mutants (directories starting with "_", e.g. a small VM the demos import)
    par = os.path.dirname(src.rstrip('/'))
    for f in os.listdir(par):
        if f.startswith('_') and os.path.isdir(os.path.join(par, f)) and f != '__pycache__':
            shutil.copytree(os.path.join(par, f), os.path.join(dst, f), dirs_exist_ok=True,
                            ignore=shutil.ignore_patterns('__pycache__', '*.pyc'))
    if os.path.exists(os.path.join(dst, 'meta.json')):
        print('kept existing meta for', mid)
        return mid
    meta = {'id': mid, 'property': prop, 'origin': 'independent sub-agent given only the property text and a scratch worktree',
            'needs_to_manifest': '', 'confirmed': {}, 'detected_by': {}}
    rd = os.path.join(dst, 'README.md')
    if os.path.exists(rd):
        meta['needs_to_manifest'] = open(rd).read()[:1500]
    with open(os.path.join(dst, 'meta.json'), 'w') as f:
        json.dump(meta, f, indent=1)
    print('imported', mid)
    return mid


def worktree(mid, apply=True):
    wt = os.path.join(os.environ.get('HV_TMP', '/tmp'), 'mutwt_%s_%d' % (mid, os.getpid()))
    sh(['git', '-C', common.REPO, 'worktree', 'remove', '--force', wt])
    rc, out = sh(['git', '-C', common.REPO, 'worktree', 'add', '--detach', wt, 'HEAD'])
    if rc:
        raise common.Machinery('worktree: ' + out)
    if apply:
        rc, out = sh(['git', '-C', wt, 'apply', os.path.join(SEEDED, mid, 'patch.diff')])
        if rc:
            sh(['git', '-C', common.REPO, 'worktree', 'remove', '--force', wt])
            raise common.Machinery('patch does not apply: ' + out)
    return wt


def drop(wt):
    sh(['git', '-C', common.REPO, 'worktree', 'remove', '--force', wt])
    shutil.rmtree(wt, ignore_errors=True)


def run_demo(mid, wt):
    d = os.path.join(SEEDED, mid)
    demo = os.path.join(d, 'demo.py')
    if not os.path.exists(demo):
        return None, 'no demo.py'
    # demos were written to live in <wt>/mutants/<name>/demo.py
    name = mid.split('_', 1)[1]
    tgt = os.path.join(wt, 'mutants', name)
    os.makedirs(tgt, exist_ok=True)
    for f in os.listdir(d):
        if os.path.isfile(os.path.join(d, f)):
            shutil.copy(os.path.join(d, f), os.path.join(tgt, f))
            if f.endswith('.py') and f not in ('demo.py',):
                shutil.copy(os.path.join(d, f), os.path.join(wt, 'mutants', f))
    for f in os.listdir(d):
        if f.startswith('_') and os.path.isdir(os.path.join(d, f)):
            shutil.copytree(os.path.join(d, f), os.path.join(wt, 'mutants', f), dirs_exist_ok=True)
    env = dict(os.environ, PYTHONPATH=wt, PYTHONDONTWRITEBYTECODE='1')
    rc, out = sh(['/venv/bin/python', os.path.join('mutants', name, 'demo.py')], cwd=wt, env=env, timeout=600)
    return rc, out[-1500:]


def evaluate(mid, checks, tier='quick', keep=False):
    meta_path = os.path.join(SEEDED, mid, 'meta.json')
    meta = json.load(open(meta_path))
    res = {'when': time.strftime('%Y-%m-%d %H:%M:%S'), 'tier': tier}
    # unmodified tree: demo passes
    wt0 = worktree(mid, apply=False)
    try:
        rc0, out0 = run_demo(mid, wt0)
    finally:
        drop(wt0)
    wt = worktree(mid, apply=True)
    try:
        rc, out = sh(TESTS, cwd=wt, env=dict(os.environ, PYTHONPATH=wt, PYTHONDONTWRITEBYTECODE='1'))
        tests_ok = '45 passed' in out
        rc1, out1 = run_demo(mid, wt)
        res['tests_45_pass_with_change'] = tests_ok
        res['demo_exit_unmodified'] = rc0
        res['demo_exit_with_change'] = rc1
        meta['confirmed'] = {'tests_45_pass_with_change': tests_ok, 'demo_exit_unmodified': rc0,
                             'demo_exit_with_change': rc1,
                             'ran': 'git worktree of /repo HEAD + git apply patch.diff; pytest tests; mutants/<name>/demo.py with and without the patch'}
        env = dict(os.environ, HV_REPO=wt, PYTHONDONTWRITEBYTECODE='1', HV_EVID=os.path.join(wt, '.hv_evidence'),
                   HV_REPLAY=os.path.join(wt, '.hv_replay'))
        for c in checks:
            t = time.time()
            rcc, outc = sh(['/venv/bin/python', '-m', 'hv.check', c, '--tier', tier], cwd=common.VERIF, env=env, timeout=7200)
            viol = [l for l in outc.splitlines() if l.startswith('VIOLATION')]
            meta['detected_by'][c + ':' + tier] = {'exit': rcc, 'violation_lines': len(viol), 'first': viol[:2],
                                                    'wall_s': round(time.time() - t, 1),
                                                    'tail': outc[-300:] if rcc not in (0, 1) else ''}
            print('%s %s %s exit=%d violations=%d %.0fs' % (mid, c, tier, rcc, len(viol), time.time() - t), flush=True)
    finally:
        if not keep:
            drop(wt)
    with open(meta_path, 'w') as f:
        json.dump(meta, f, indent=1)
    # the evidence file of the check now describes the mutated tree: the caller re-runs the check on /repo
    return meta


def main():
    ap = argparse.ArgumentParser()
    ap.add_argument('cmd', choices=['import', 'eval'])
    ap.add_argument('a')
    ap.add_argument('b', nargs='?')
    ap.add_argument('--checks', default=None)
    ap.add_argument('--tier', default='quick')
    a = ap.parse_args()
    if a.cmd == 'import':
        do_import(a.a, a.b)
    else:
        mid = a.a
        meta = json.load(open(os.path.join(SEEDED, mid, 'meta.json')))
        checks = a.checks.split(',') if a.checks else [meta['property']]
        evaluate(mid, checks, a.tier)


if __name__ == '__main__':
    main()
