----------------------------- MODULE DriverSoup -----------------------------
(***************************************************************************)
(* Case generator for property C10 (token soups): TLC enumerates EVERY     *)
(* sequence of at most FullLen tokens over an alphabet of NTok tokens, and *)
(* a deterministic 1-in-SampleMod sample of the sequences of length        *)
(* FullLen + 1 (when Extra = 1).  A sequence is a tuple of token indices;  *)
(* hv/driver_soup.py maps indices to token texts and places each sequence  *)
(* into the skeleton holes (global scope, function body, expression,       *)
(* defeat-function body).  The alphabet is built from the lexer's token    *)
(* classes and the grammar's punctuation (README "Syntax"): type keywords, *)
(* the three identifier flavours, every bracket, separators, assignment    *)
(* and augmented assignment, a binary operator, `??`, `is`, the three      *)
(* literal kinds, the time-travel keywords, `return` and `.`.              *)
(***************************************************************************)
EXTENDS Naturals, Sequences, TLC

CONSTANTS NTok, FullLen, Extra, SampleMod, SampleRes

VARIABLE seq

Init == seq = <<>>
Next == /\ Len(seq) < FullLen + Extra
        /\ \E t \in 1..NTok : seq' = Append(seq, t)

Weight(j) == CASE j = 1 -> 1 [] j = 2 -> 7 [] j = 3 -> 53 [] j = 4 -> 379 [] j = 5 -> 2671 [] OTHER -> 18713
RECURSIVE Mix(_, _)
Mix(s, j) == IF j > Len(s) THEN 0 ELSE s[j] * Weight(j) + Mix(s, j + 1)

Chosen == Len(seq) <= FullLen \/ Mix(seq, 1) % SampleMod = SampleRes

(* "invariant" used only for its side effect: one line per enumerated case *)
Emit == Chosen => PrintT(<<"SP", seq>>)
=============================================================================
