"""Shared plumbing for every check: paths, evidence files, known findings, verdict printing.

Exit codes (DESIGN 4.6): 0 held, 1 VIOLATION, 2 machinery failure (never 1 for a machinery problem).
"""
import json, os, sys, time, tempfile, shutil, hashlib, traceback

VERIF = os.path.dirname(os.path.dirname(os.path.abspath(__file__)))
REPO = os.environ.get('HV_REPO', '/repo')
SPEC = os.path.join(VERIF, 'spec')
EVID = os.environ.get('HV_EVID', os.path.join(VERIF, 'evidence'))      # (self-tests / seeded runs redirect these)
REPLAY = os.environ.get('HV_REPLAY', os.path.join(VERIF, 'replay'))
NPROC = min(16, os.cpu_count() or 1)


def seed_from_env(default=20260922):
    try:
        return int(os.environ.get('VERIF_SEED', default))
    except ValueError:
        return default


def use_repo():
    """Make `import hidc` resolve to the working tree under test (REPO), never a cached copy."""
    sys.dont_write_bytecode = True
    os.environ['PYTHONDONTWRITEBYTECODE'] = '1'
    if REPO in sys.path:
        sys.path.remove(REPO)
    sys.path.insert(0, REPO)
    for m in [m for m in sys.modules if m == 'hidc' or m.startswith('hidc.')]:
        del sys.modules[m]


class Machinery(Exception):
    """The checking machinery itself failed (TLC crash, compiler import failure, vacuous run)."""


def scratch(prefix='hv_'):
    return tempfile.mkdtemp(prefix=prefix, dir=os.environ.get('HV_TMP', '/tmp'))


def rm(path):
    shutil.rmtree(path, ignore_errors=True)


def load_known():
    with open(os.path.join(VERIF, 'known_findings.json')) as f:
        d = json.load(f)
    return d.get('known', []), d.get('fixed', [])


class Violation:
    """One violating case. `classifier` is a dict of stable attributes used to match known findings;
    `detail` is free-form and goes into the replay file."""
    def __init__(self, prop, what, classifier=None, detail=None):
        self.prop = prop
        self.what = what
        self.classifier = classifier or {}
        self.detail = detail or {}

    def matches(self, entry):
        if entry.get('property') != self.prop:
            return False
        m = entry.get('match', {})
        if not m:
            return False
        for k, v in m.items():
            have = self.classifier.get(k)
            if isinstance(v, list):
                if have not in v:
                    return False
            elif isinstance(v, dict) and 'contains' in v:
                if not (isinstance(have, str) and v['contains'] in have):
                    return False
            elif have != v:
                return False
        return True


def write_replay(v, idx):
    os.makedirs(REPLAY, exist_ok=True)
    key = hashlib.sha1(json.dumps([v.what, v.classifier], sort_keys=True, default=str).encode()).hexdigest()[:10]
    path = os.path.join(REPLAY, '%s_%s.json' % (v.prop, key))
    with open(path, 'w') as f:
        json.dump({'property': v.prop, 'what': v.what, 'classifier': v.classifier, 'detail': v.detail},
                  f, indent=1, default=str)
    return path


def finish(prop, tier, seed, level, coverage, violations, t0, assumptions=(), max_print=12):
    """Write evidence, print verdict lines, return exit code."""
    known, _fixed = load_known()
    new, old = [], {}
    for v in violations:
        hit = next((e for e in known if v.matches(e)), None)
        if hit is None:
            new.append(v)
        else:
            old.setdefault(hit['id'], (hit, []))[1].append(v)
    for fid, (entry, vs) in sorted(old.items()):
        print('KNOWN-FINDING: property=%s %s [%s] (%d case(s) this run, e.g. %s)' % (
            prop, entry.get('what', ''), fid, len(vs), vs[0].what))
    coverage = dict(coverage)
    if not isinstance(coverage.get('exhaustive', False), bool):
        # a description of which families were enumerated completely; the run as a whole also samples
        coverage['exhaustive_part'] = str(coverage['exhaustive'])
        coverage['exhaustive'] = False
    coverage.setdefault('known_finding_cases', sum(len(vs) for _, vs in old.values()))
    ev = {'property_id': prop, 'tier': tier, 'seed': seed, 'level': level, 'coverage': coverage,
          'assumptions': list(assumptions), 'wall_s': round(time.time() - t0, 2), 'violations': len(new)}
    os.makedirs(EVID, exist_ok=True)
    with open(os.path.join(EVID, prop + '.json'), 'w') as f:
        json.dump(ev, f, indent=1, default=str)
    seen = set()
    for i, v in enumerate(new):
        path = write_replay(v, i)
        if path in seen:
            continue
        seen.add(path)
        if len(seen) <= max_print:
            print('VIOLATION property=%s replay=%s  # %s' % (prop, path, v.what))
    if len(seen) > max_print:
        print('(%d further violations written under %s)' % (len(seen) - max_print, REPLAY))
    if new:
        return 1
    print('OK property=%s tier=%s seed=%d wall=%.1fs %s' % (
        prop, tier, seed, time.time() - t0,
        ' '.join('%s=%s' % (k, coverage[k]) for k in ('states', 'transitions', 'traces_validated_against_impl',
                                                       'evaluations', 'programs') if k in coverage)))
    return 0


def main_wrapper(fn):
    """Run a check's main; machinery problems exit 2, never 1."""
    try:
        rc = fn()
    except Machinery as e:
        print('MACHINERY-FAILURE: %s' % e)
        sys.exit(2)
    except SystemExit:
        raise
    except BaseException:
        traceback.print_exc()
        print('MACHINERY-FAILURE: unexpected exception in the checking machinery')
        sys.exit(2)
    sys.exit(rc)
