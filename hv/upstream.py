"""The upstream code-generation tests (tests/test_codegen.py; never collected in this sandbox because the
Sphinx emulator is absent) as (a) an engine self-check of the verification VM - their expected outputs were
produced by the real emulator - and (b) a corpus of programs for the machine-level checks."""
import json, os, subprocess, sys
from . import common


def run_shim(record_to=None, repo=None, timeout=900):
    repo = repo or common.REPO
    env = dict(os.environ)
    env['PYTHONPATH'] = os.pathsep.join([os.path.join(common.VERIF, 'hv', 'shim'), common.VERIF, repo])
    env['PYTHONDONTWRITEBYTECODE'] = '1'
    if record_to:
        env['HV_UPSTREAM_OUT'] = record_to
    cmd = [sys.executable, '-m', 'pytest', 'tests/test_codegen.py', '-q', '-p', 'no:cacheprovider',
           '-p', 'hv.upstream_plugin', '-x' if False else '-q']
    p = subprocess.run(cmd, cwd=repo, env=env, stdout=subprocess.PIPE, stderr=subprocess.STDOUT, timeout=timeout)
    return p.returncode, p.stdout.decode('utf-8', 'replace')


def corpus():
    path = os.path.join(common.VERIF, 'corpus', 'upstream.jsonl')
    with open(path) as f:
        return [json.loads(l) for l in f if l.strip()]


if __name__ == '__main__':
    out = os.path.join(common.VERIF, 'corpus', 'upstream.jsonl')
    rc, txt = run_shim(record_to=out)
    print(txt[-1500:])
    print('rc', rc, 'records', sum(1 for _ in open(out)))
