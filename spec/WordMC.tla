------------------------------ MODULE WordMC ------------------------------
(* Model check of Word.tla: the limb implementation against TLC integer arithmetic where the values  *)
(* fit (W = 1 exhaustively, boundary grids at W = 2, 3), and algebraic identities where they do not   *)
(* (W = 4, 8).  Each initial state is one operand pair; every invariant is evaluated on every pair.   *)
EXTENDS Word, TLC
CONSTANT Grid          \* set of words to pair up
VARIABLES a, b, phase
\* two-level fan-out so that TLC's workers share the pairs (initial states are computed sequentially)
Init == a = Zero /\ b = Zero /\ phase = 0
Next == \/ phase = 0 /\ a' \in Grid /\ b' = b /\ phase' = 1
        \/ phase = 1 /\ b' \in Grid /\ a' = a /\ phase' = 2
Spec == Init /\ [][Next]_<<a, b, phase>>
Ready == phase = 2

Wrap(n) == FromInt(n)
x == ToInt(a)
y == ToInt(b)
Small == W <= 3

AddOK == Ready => (Small => Add(a, b) = Wrap(x + y))
SubOK == Ready => (Small => Sub(a, b) = Wrap(x - y))
NegOK == Ready => (Small => Neg(a) = Wrap(0 - x))
MulOK == Ready => (W <= 2 => Mul(a, b) = Wrap(x * y))
CmpOK == Ready => (Small => /\ SLt(a, b) = (x < y) /\ SLe(a, b) = (x <= y)
                  /\ ULt(a, b) = (ToNat(a) < ToNat(b)) /\ ULe(a, b) = (ToNat(a) <= ToNat(b)))
DivOK == Ready => ((Small /\ ~IsZero(b)) =>
            /\ DivModLimbs(a, b)[1] = Wrap(x \div y)
            /\ DivModLimbs(a, b)[2] = Wrap(IntFloorMod(x, y))
            /\ DivFloor(a, b) = DivModLimbs(a, b)[1] /\ ModFloor(a, b) = DivModLimbs(a, b)[2])
RECURSIVE IntDigits(_)
IntDigits(n) == IF n < 10 THEN <<48 + n>> ELSE IntDigits(n \div 10) \o <<48 + (n % 10)>>
DecOK == Ready => (Small => Decimal(a) = (IF x < 0 THEN <<45>> \o IntDigits(0 - x) ELSE IntDigits(x))
)
\* identities that hold at every W
DivIdent == Ready => (~IsZero(b) =>
   LET q == DivFloor(a, b)  r == ModFloor(a, b) IN
   /\ Add(Mul(q, b), r) = a                                   \* a = q*b + r  (mod 2^Bits)
   /\ (IsZero(r) \/ IsNeg(r) = IsNeg(b))                      \* remainder has the sign of the divisor
   /\ ULt(Abs(r), Abs(b)))
LimbOK == Ready => (/\ Add(a, b) = AddL(a, b) /\ Sub(a, b) = SubL(a, b) /\ Neg(a) = NegL(a) /\ Mul(a, b) = MulL(a, b)
           /\ ULt(a, b) = ULtL(a, b))
SmallDivOK == Ready => (~IsZero(b) => UDivModAny(Abs(a), Abs(b)) = UDivMod(Abs(a), Abs(b)))
MulOvfOK == Ready => (W <= 2 => MulOverflows(a, b) = (x * y < 0 - (Pow256(W) \div 2) \/ x * y >= Pow256(W) \div 2))
NegIdent == Ready => (Neg(Neg(a)) = a /\ Add(a, Neg(a)) = Zero /\ Sub(a, b) = Add(a, Neg(b)))
MulIdent == Ready => (/\ Mul(a, b) = Mul(b, a) /\ Mul(a, One) = a /\ Mul(a, Zero) = Zero
            /\ Mul(a, Add(b, One)) = Add(Mul(a, b), a))
BitIdent == Ready => (/\ BXor(BAnd(a, b), BOr(a, b)) = BXor(a, b) /\ BAnd(a, BNot(a)) = Zero /\ BOr(a, BNot(a)) = Ones
            /\ Add(BAnd(a, b), BOr(a, b)) = Add(a, b))
\* 2^n as a word, closed form (a doubling recursion would be re-evaluated 2^n times by TLC)
TwoPow(n) == [i \in 1..W |-> IF i = (n \div 8) + 1 THEN Pow2(n % 8) ELSE 0]
ShiftIdent == Ready => (\A n \in ({0, 1, 3, 7, 8, 9, Bits - 1, Bits} \cap (0..Bits)) :
   /\ Asl(a, FromInt(n)) = (IF n = Bits THEN Zero ELSE Mul(a, TwoPow(n)))
   /\ Asr(a, FromInt(n)) = (IF n = Bits THEN (IF IsNeg(a) THEN Ones ELSE Zero)
                            ELSE IF n = Bits - 1 THEN (IF IsNeg(a) THEN Ones ELSE Zero)
                            ELSE DivFloor(a, TwoPow(n))))
RECURSIVE ParseDigits(_, _)
ParseDigits(ds, acc) == IF ds = <<>> THEN acc
                        ELSE ParseDigits(Tail(ds), Add(Mul(acc, FromInt(10)), FromInt(Head(ds) - 48)))
DecRound == Ready => (LET d == Decimal(a) IN
   /\ (IF d[1] = 45 THEN Neg(ParseDigits(Tail(d), Zero)) ELSE ParseDigits(d, Zero)) = a
   /\ (d[1] = 45) = IsNeg(a)
   /\ (Len(d) > (IF d[1] = 45 THEN 2 ELSE 1) => d[IF d[1] = 45 THEN 2 ELSE 1] # 48))      \* no padding
OvfOK == Ready => (Small => /\ AddOverflows(a, b) = (x + y < 0 - (Mod \div 2) \/ x + y >= Mod \div 2)
                  /\ SubOverflows(a, b) = (x - y < 0 - (Mod \div 2) \/ x - y >= Mod \div 2))
=============================================================================
