\* C07: family "expr", tier "thorough" (see Types.tla sections 5-8 for what is enumerated)
CONSTANTS
    Tier = "thorough"
    Family = "expr"
SPECIFICATION Spec
INVARIANT TypeOK
