"""Case families for the run-time properties (DESIGN section 5).  Each function returns runner.Item lists;
the oracle is always HiDSem/SphinxRT evaluated by TLC (hv.rt.run)."""
import glob, os, random
from . import common, gen, runner, upstream, hidc_api, svm, sasm

NO_TT = dict(timetravel=False)


def generated(seed, n, feat=None, w=2, s=300, inputs=3, family='gen', unchecked=False, start=0):
    items = []
    for i in range(start, start + n):
        ps = seed * 100003 + i
        src, grid = gen.generate(ps, feat, w=w)
        for j, a in enumerate(grid[:inputs]):
            items.append(runner.Item((family, ps, j, w, s, unchecked), src, a, w=w, s=s, unchecked=unchecked,
                                     meta={'family': '%s#%d' % (family, ps)}))
    return items


EXAMPLE_ARGS = {
    'hello': [[]], 'decimal': None, 'ouroboros': [[]],
    'max': [['3', '1', '4'], ['1'], ['5', '9', '2', '9'], ['-5', '-9']],
    'factor': [['12'], ['7'], ['1']],
    'mergesort': [['3', '1', '2'], ['2', '1'], []],
    'optional_max': [['1', '2'], [], ['9', '3', '9']],
    'sat': [[]],
}


def examples(s=120, names=None, w=2, unchecked=False):
    items = []
    for f in sorted(glob.glob(os.path.join(common.REPO, 'examples', '*.hid'))):
        name = os.path.basename(f)[:-4]
        if names and name not in names:
            continue
        argss = EXAMPLE_ARGS.get(name)
        if not argss:
            continue
        src = open(f).read()
        for a in argss:
            items.append(runner.Item(('ex', name, tuple(a), w, s, unchecked), src, a, w=w, s=s, unchecked=unchecked,
                                     meta={'family': 'example:' + name}))
    return items


def upstream_corpus(only_w=2, skip_tests=()):
    items = []
    for i, r in enumerate(upstream.corpus()):
        if r['w'] != only_w:
            continue
        if any(t in r['test'] for t in skip_tests):
            continue
        items.append(runner.Item(('up', i), r['source'], r['args'], w=r['w'], s=r['s'], unchecked=r['unchecked'],
                                 opt=r['options'], meta={'family': 'upstream:' + r['test'].split('::')[-1]}))
    return items


def min_stack(src, args, w=2, lo=1, hi=400, unchecked=False):
    """least stack size (words) at which the compiled program completes without the stack_overflow flag,
    found with the accelerator VM (selection only)."""
    def ok(s):
        try:
            lines = hidc_api.compile_src(src, w=w, s=s, unchecked=unchecked)
            vm = svm.VM(sasm.Program(lines, args), max_steps=100000, full_cycle=False).run()
        except Exception:
            return False
        return vm.status == 'cycle' and 'stack_overflow' not in vm.flags()
    if not ok(hi):
        return None
    while lo < hi:
        mid = (lo + hi) // 2
        if ok(mid):
            hi = mid
        else:
            lo = mid + 1
    return lo
