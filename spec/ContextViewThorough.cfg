\* C06: deeper paths (9 frames) deduplicated by context state (VIEW); one representative path per merged state
CONSTANTS
    MaxDepth = 9
    Emit = TRUE
INIT Init
NEXT Next
VIEW DedupView
INVARIANTS TypeOK FlagsMatchPath EmitLeaf
