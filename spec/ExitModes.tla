----------------------------- MODULE ExitModes -----------------------------
(***************************************************************************)
(* Static half of C16 "control never runs off the end of a function".      *)
(*                                                                         *)
(* A function body SHAPE is a statement list over the kinds below; every   *)
(* condition is an UNKNOWN boolean.  One character per kind (the text of a *)
(* shape is the concatenation, bodies in braces):                          *)
(*   p  plain statement (x = 1;)          r  return v;                     *)
(*   b  break;                            c  continue;                     *)
(*   d  !is_defeat();                     h  another defeat call !h(..);   *)
(*   w  all_is_win(); / all_is_broken();  (both terminal: same class)      *)
(*   i{S}     if (c) {S}                  e{S}{S}  if (c) {S} else {S}     *)
(*   l{S}     while (c) {S} / for (x;c;s) {S}                              *)
(*   L{S}     while (true) {S} / for (;;) {S}                              *)
(*   P{S}     preempt {S}                 t{S}{S}  try {S} undo|stop {S}   *)
(*   {S}      a nested block statement                                     *)
(* Members of one class (w; l; L; t; a body that is a single control       *)
(* statement written with or without braces) have the same control flow    *)
(* and the same documented rule; the renderer (hv/exitmodes.py) alternates *)
(* between them, so each spelling is exercised, without multiplying the    *)
(* shapes ("deduplicated").                                                *)
(*                                                                         *)
(* GROUND TRUTH, rules G1..G11: the nondeterministic control flow explored *)
(* as a state machine.  A configuration is a program point (the path of    *)
(* the statement about to run - its ancestors are the loop / try stack) or *)
(* one of the final configurations end (fell off the end of the function   *)
(* body), ret, def (defeat left the function), term (terminal state).      *)
(*  G1 plain -> next statement.            G2 return -> ret.               *)
(*  G3 break -> after the innermost loop; continue -> that loop's test.    *)
(*  G4 while (c)/for(x;c;s): body or after the loop (unknown c);           *)
(*     while (true)/for(;;): body only - leaves only by break/return/...   *)
(*     End of a loop body -> the loop's test again.                        *)
(*  G5 if: either branch (unknown c); without else: body or after.         *)
(*  G6 !is_defeat(): inside a try body control goes to the handler (stop:  *)
(*     README "A taste of defeat"; undo: the handler runs instead of the   *)
(*     try block, README "Time travel" - the same control transfer, only   *)
(*     the effects of the try block differ); elsewhere (defeat function)   *)
(*     the activation ends by defeat: def.                                 *)
(*  G7 another defeat call: like G6, or returns normally (unknown).        *)
(*  G8 all_is_win()/all_is_broken(): term (README standard library).       *)
(*  G9 preempt {S}: S or skip (README: run iff not running it would lead   *)
(*     to defeat - an unknown of the future, so both; this over-           *)
(*     approximates reachability, which can only make the checks below     *)
(*     harder for the compiler to pass, never easier).                     *)
(*  G10 try {B} h {H}: enter B; end of B or of H -> after the try.         *)
(*  G11 block / statement list: statements in order; end of list -> after  *)
(*     the owner.                                                          *)
(* CanComplete(shape) == end is reachable.  Reachable(shape) == the set of *)
(* statements some run can reach.                                          *)
(*                                                                         *)
(* THE COMPILER'S DOCUMENTED RULE (hidc/ast/blocks.py, program.py), next   *)
(* to the ground truth: exit-mode sets over N(one) B(reak) L(oop) D(efeat) *)
(* R(eturn):                                                               *)
(*  K1 CodeBlock.evaluate: mode starts {N}; statements are processed while *)
(*     N is in mode and no `continue` was seen; return/break/!is_defeat/   *)
(*     terminal call replace N by R/B/D/L; another defeat call adds D; a   *)
(*     block statement replaces N by its modes; continue sets the flag.    *)
(*  K2 LoopBlock: literal-true condition and no B in the body modes:       *)
(*     replace N by L; otherwise replace B by N (N always included).       *)
(*  K3 IfBlock: union of both branches (missing else = {N}).               *)
(*  K4 PreemptBlock: body modes plus N.   K5 TryBlock: body modes with D   *)
(*     replaced by the handler's modes (handler modes always included).    *)
(*  K6 FuncDeclaration: a value-returning function is rejected ("Missing   *)
(*     return") iff N is in the body's modes.                              *)
(* TLC checks RuleSound on every shape: K accepts => ~CanComplete.         *)
(*                                                                         *)
(* WHAT THE CHECK COMPARES (hv/exitmodes.py):                              *)
(*  V1 hidc accepts `int f(..) { shape }`  =>  CanComplete = FALSE.        *)
(*  V2 every statement hidc drops as unreachable is not in Reachable.      *)
(*  information only: over-rejections (hidc rejects, CanComplete FALSE),   *)
(*  and disagreements between hidc and K (accept bit).                     *)
(*                                                                         *)
(* LEGAL CONTEXTS (README "Summary of what's allowed"): try only in a you  *)
(* function and not inside a try body; d, h, P inside a try body or        *)
(* anywhere in a defeat function; b, c only inside a loop of the shape.    *)
(* The function flavour printed with the shape is the one that makes it    *)
(* legal: y (has try), d (d/h/P outside try), p (plain) otherwise.         *)
(*                                                                         *)
(* NORMAL FORMS (sound dedup, all decided while the shape is built):       *)
(*  N1 `p` only directly after a statement other than `p` (a plain         *)
(*     statement changes neither the control flow nor K; it is kept where  *)
(*     it can be dead code).                                               *)
(*  N2 after r, b, c, d, w a list continues with at most one `p` (whatever *)
(*     follows is dead and is dropped by K1 without being looked at).      *)
(*                                                                         *)
(* dontcare: none.  (Over-rejection is outside the property.)              *)
(***************************************************************************)
EXTENDS Naturals, Sequences, FiniteSets, TLC

CONSTANTS MaxNodes,   \* bound on the number of statement nodes (bodies' braces are free)
          Leaves,     \* subset of {"p","r","b","c","d","h","w"}
          Ctl1,       \* subset of {"i","l","L","P"}
          Ctl2,       \* subset of {"e","t"}
          Blocks,     \* BOOLEAN: nested block statements allowed
          Emit        \* BOOLEAN: print the cases

VARIABLES toks,   \* the shape so far, as text
          stk,    \* stack of open statement lists, innermost last (see Frame)
          n,      \* statement nodes used
          fl      \* [try |-> a try was used, dout |-> d/h/P used outside a try body]

vars == <<toks, stk, n, fl>>

Loops == {"l", "L"}
ExitLeaves == {"r", "b", "c", "d", "w"}

(* Frame: an open statement list.
     k     owner: "root", "{" (block statement) or a control kind
     id    position in toks of the owner's first character
     bid   position of this list's opening brace (0 for the root)
     part  1 or 2: which body of the owner
     first the finished first body (a node) when part = 2
     c     statements of this list so far (nodes)
     it    this list is inside a try body
     lp    this list is inside a loop of the shape
     dead  0 open / 1 after an exit leaf: only one `p` may follow / 2 only `}` may follow   (N2)
   Node: [k, id, c] - c = children: the statements of a block, the body blocks of a control statement. *)

Init == /\ toks = ""
        /\ stk = << [k |-> "root", id |-> 0, bid |-> 0, part |-> 1, first |-> <<>>, c |-> <<>>,
                     it |-> FALSE, lp |-> FALSE, dead |-> 0] >>
        /\ n = 0
        /\ fl = [try |-> FALSE, dout |-> FALSE]

Top == stk[Len(stk)]
Rest == SubSeq(stk, 1, Len(stk) - 1)
Pos == Len(toks) + 1                       \* position of the next character

Legal(k) ==                                \* README "Summary of what's allowed in different blocks"
    CASE k = "t" -> ~Top.it /\ ~fl.dout
      [] k \in {"d", "h", "P"} -> Top.it \/ ~fl.try
      [] k \in {"b", "c"} -> Top.lp
      [] OTHER -> TRUE
NewFl(k) ==
    CASE k = "t" -> [fl EXCEPT !.try = TRUE]
      [] k \in {"d", "h", "P"} -> (IF Top.it THEN fl ELSE [fl EXCEPT !.dout = TRUE])
      [] OTHER -> fl

AddLeaf(k) ==
    /\ n < MaxNodes
    /\ IF k = "p" THEN /\ Top.dead \in {0, 1}
                       /\ Len(Top.c) > 0 /\ Top.c[Len(Top.c)].k # "p"                     \* N1
                  ELSE Top.dead = 0
    /\ Legal(k)
    /\ fl' = NewFl(k)
    /\ toks' = toks \o k
    /\ n' = n + 1
    /\ stk' = Append(Rest, [Top EXCEPT !.c = Append(@, [k |-> k, id |-> Pos, c |-> <<>>]),
                                       !.dead = IF k = "p" THEN (IF @ = 1 THEN 2 ELSE 0)
                                                ELSE IF k \in ExitLeaves THEN 1 ELSE 0])

(* a control statement (or a block statement, k = "{") opens its first body *)
Open(k) ==
    /\ n < MaxNodes
    /\ Top.dead = 0
    /\ Legal(k)
    /\ fl' = NewFl(k)
    /\ toks' = IF k = "{" THEN toks \o "{" ELSE toks \o k \o "{"
    /\ n' = n + 1
    /\ stk' = Append(stk, [k |-> k, id |-> Pos, bid |-> IF k = "{" THEN Pos ELSE Pos + 1, part |-> 1,
                           first |-> <<>>, c |-> <<>>,
                           it |-> Top.it \/ k = "t", lp |-> Top.lp \/ k \in Loops, dead |-> 0])

Body(f) == [k |-> "{", id |-> f.bid, c |-> f.c]

(* `}`: the first body of e / t is followed by the second one; otherwise the statement is complete *)
Close ==
    /\ Len(stk) > 1
    /\ UNCHANGED <<n, fl>>
    /\ IF Top.k \in {"e", "t"} /\ Top.part = 1
       THEN /\ toks' = toks \o "}{"
            /\ stk' = Append(Rest, [Top EXCEPT !.part = 2, !.first = Body(Top), !.c = <<>>, !.dead = 0,
                                               !.bid = Pos + 1,
                                               !.it = Rest[Len(Rest)].it])     \* a handler is not a try body
       ELSE LET node == IF Top.k = "{" THEN [k |-> "{", id |-> Top.id, c |-> Top.c]
                        ELSE IF Top.part = 2 THEN [k |-> Top.k, id |-> Top.id, c |-> <<Top.first, Body(Top)>>]
                        ELSE [k |-> Top.k, id |-> Top.id, c |-> <<Body(Top)>>]
                par == Rest[Len(Rest)]
            IN /\ toks' = toks \o "}"
               /\ stk' = Append(SubSeq(Rest, 1, Len(Rest) - 1), [par EXCEPT !.c = Append(@, node), !.dead = 0])

Next == \/ \E k \in Leaves : AddLeaf(k)
        \/ \E k \in Ctl1 \cup Ctl2 \cup (IF Blocks THEN {"{"} ELSE {}) : Open(k)
        \/ Close

Spec == Init /\ [][Next]_vars

-----------------------------------------------------------------------------
(* GROUND TRUTH: the control-flow machine of a finished shape (root = block node of the function body) *)

At(p) == [t |-> "at", p |-> p]
End == [t |-> "end", p |-> <<>>]
Ret == [t |-> "ret", p |-> <<>>]
Def == [t |-> "def", p |-> <<>>]
Term == [t |-> "term", p |-> <<>>]

RECURSIVE NodeAt(_, _)
NodeAt(node, p) == IF p = <<>> THEN node ELSE NodeAt(node.c[Head(p)], Tail(p))

Front(p) == SubSeq(p, 1, Len(p) - 1)

RECURSIVE After(_, _)
After(root, p) ==                                             \* configuration after the statement at p completes
    IF p = <<>> THEN End
    ELSE LET par == Front(p)
             i == p[Len(p)]
             pn == NodeAt(root, par)
         IN CASE pn.k = "{" -> (IF i < Len(pn.c) THEN At(Append(par, i + 1)) ELSE After(root, par))     \* G11
              [] pn.k \in Loops -> At(par)                                                               \* G4
              [] OTHER -> After(root, par)                                                               \* G5 G9 G10

RECURSIVE LoopOf(_, _)
LoopOf(root, p) ==                                            \* path of the innermost loop around p
    LET par == Front(p) IN IF NodeAt(root, par).k \in Loops THEN par ELSE LoopOf(root, par)

RECURSIVE DefeatFrom(_, _)
DefeatFrom(root, p) ==                                        \* G6: where a defeat raised at p takes control
    IF p = <<>> THEN Def
    ELSE LET par == Front(p)
         IN IF NodeAt(root, par).k = "t" /\ p[Len(p)] = 1 THEN At(Append(par, 2)) ELSE DefeatFrom(root, par)

Succ(root, cf) ==
    IF cf.t # "at" THEN {}
    ELSE LET p == cf.p
             nd == NodeAt(root, p)
             k == nd.k
         IN CASE k = "p" -> {After(root, p)}                                                             \* G1
              [] k = "r" -> {Ret}                                                                        \* G2
              [] k = "b" -> {After(root, LoopOf(root, p))}                                               \* G3
              [] k = "c" -> {At(LoopOf(root, p))}
              [] k = "d" -> {DefeatFrom(root, p)}                                                        \* G6
              [] k = "h" -> {DefeatFrom(root, p), After(root, p)}                                        \* G7
              [] k = "w" -> {Term}                                                                       \* G8
              [] k = "i" -> {At(Append(p, 1)), After(root, p)}                                           \* G5
              [] k = "e" -> {At(Append(p, 1)), At(Append(p, 2))}
              [] k = "l" -> {At(Append(p, 1)), After(root, p)}                                           \* G4
              [] k = "L" -> {At(Append(p, 1))}
              [] k = "P" -> {At(Append(p, 1)), After(root, p)}                                           \* G9
              [] k = "t" -> {At(Append(p, 1))}                                                           \* G10
              [] k = "{" -> (IF nd.c = <<>> THEN {After(root, p)} ELSE {At(Append(p, 1))})               \* G11

RECURSIVE Closure(_, _, _)
Closure(root, seen, frontier) ==
    IF frontier = {} THEN seen
    ELSE LET new == (UNION {Succ(root, cf) : cf \in frontier}) \ seen
         IN Closure(root, seen \cup new, new)

Reach(root) == Closure(root, {At(<<>>)}, {At(<<>>)})
CanCompleteIn(reach) == End \in reach
ReachableIds(root, reach) == {NodeAt(root, cf.p).id : cf \in {x \in reach : x.t = "at"}} \ {0}

-----------------------------------------------------------------------------
(* THE DOCUMENTED RULE K *)
Repl(mode, new) == (mode \ {"N"}) \cup new

RECURSIVE Modes(_), BlkModes(_, _, _, _)
BlkModes(c, i, mode, cont) ==                                                                            \* K1
    IF i > Len(c) \/ "N" \notin mode \/ cont THEN mode
    ELSE LET k == c[i].k
         IN CASE k = "p" -> BlkModes(c, i + 1, mode, cont)
              [] k = "r" -> BlkModes(c, i + 1, Repl(mode, {"R"}), cont)
              [] k = "b" -> BlkModes(c, i + 1, Repl(mode, {"B"}), cont)
              [] k = "d" -> BlkModes(c, i + 1, Repl(mode, {"D"}), cont)
              [] k = "w" -> BlkModes(c, i + 1, Repl(mode, {"L"}), cont)
              [] k = "h" -> BlkModes(c, i + 1, mode \cup {"D"}, cont)
              [] k = "c" -> BlkModes(c, i + 1, mode, TRUE)
              [] OTHER -> BlkModes(c, i + 1, Repl(mode, Modes(c[i])), cont)
Modes(nd) ==
    CASE nd.k = "{" -> BlkModes(nd.c, 1, {"N"}, FALSE)
      [] nd.k = "l" -> ((Modes(nd.c[1]) \ {"B"}) \cup {"N"})                                             \* K2
      [] nd.k = "L" -> (LET m == Modes(nd.c[1]) IN IF "B" \notin m THEN Repl(m, {"L"}) ELSE (m \ {"B"}) \cup {"N"})
      [] nd.k = "i" -> (Modes(nd.c[1]) \cup {"N"})                                                       \* K3
      [] nd.k = "e" -> (Modes(nd.c[1]) \cup Modes(nd.c[2]))
      [] nd.k = "P" -> (Modes(nd.c[1]) \cup {"N"})                                                       \* K4
      [] nd.k = "t" -> ((Modes(nd.c[1]) \ {"D"}) \cup Modes(nd.c[2]))                                    \* K5
RuleAccepts(root) == "N" \notin Modes(root)                                                              \* K6

-----------------------------------------------------------------------------
(* Every state whose only open list is the function body is a finished shape (and a prefix of longer ones).
   TLC evaluates an invariant once on every new state: the case is printed there, and K is checked
   against the ground truth. *)
Root == [k |-> "{", id |-> 0, c |-> stk[1].c]
Flavour == IF fl.try THEN "y" ELSE IF fl.dout THEN "d" ELSE "p"

CaseInv ==
    Len(stk) = 1 =>
        LET reach == Reach(Root)
            can == CanCompleteIn(reach)
            rule == RuleAccepts(Root)
        IN /\ (Emit => PrintT(<<"EM", toks, Flavour, can, rule, ReachableIds(Root, reach)>>))
           /\ (rule => ~can)                                                              \* RuleSound
=============================================================================
