"""Tracker replay (serves C04): spec/Tracker.tla -> real `hidc.codegen.tracker.Tracker`.

TLC enumerates every add/update/push_level/pop_level sequence up to a length bound and prints, for each, the
value every guard must be finalised to ("max of its own size and of every update after it, within its level";
VLA-style guards carry the generator's `.map(max - cur)`).  This module only decodes a case, drives the real
class of the working tree through it and tests equality of every finalised `DynamicValue._data`.

    cd /verif && /venv/bin/python -m hv.tracker_replay --tier quick
    run(tier, seed) -> dict   (violations, states, transitions, cases, samples, ...) for hv/checks/c04.py
"""
import argparse, json, multiprocessing, os, re, sys, time
from . import common, tlc, hidc_api

PROP = 'C04'

# (MaxLen, MaxSize, Look).  Measured (16 workers, busy machine): (6,3) 73 519 states / 588 152 cases, TLC ~25 s;
#   (7,3) 692 131 states / 5.5 M cases, TLC ~80 s;  (8,2) 1 294 704 states / 7.8 M cases, TLC ~125 s;
#   [(8,3) would be 6.6 M states / 52 M cases, ~25 min: not run - length 8 is covered over sizes 0..2]
# Look = 1: the states are all histories shorter than MaxLen, so MeaningInv (the declarative meaning of a guard)
# is model-checked on every proper prefix of every case (Look > 1 trades that for fewer states).
TIERS = {
    'quick': [(6, 3, 1)],
    'thorough': [(7, 3, 1), (8, 2, 1)],
}
OPS_TEXT = {0: 'add(0)', 1: 'add(1)', 2: 'add(2)', 3: 'add(3)', 4: 'update(0)', 5: 'update(1)', 6: 'update(2)',
            7: 'update(3)', 8: 'push_level()', 9: 'pop_level()'}
BLOCK_RE = re.compile(r'<<\s*"TR",([\d,\s]*)>>')


def ops_text(code):
    return ' '.join(OPS_TEXT[int(ch)] for ch in str(code)[1:])


# ---------------------------------------------------------------------------------------------- TLC side
def tlc_cases(maxlen, maxsize, look, timeout):
    """-> (list of block strings "c1, e1, c2, e2 ...", Result)."""
    d = common.scratch('hv_trk_')
    try:
        with open(os.path.join(d, 'TrackerMC.tla'), 'w') as f:
            f.write('---- MODULE TrackerMC ----\nEXTENDS Tracker\n====\n')
        first = list(range(0, maxsize + 1)) + [4 + v for v in range(0, maxsize + 1)] + [8]
        with open(os.path.join(d, 'TrackerMC.cfg'), 'w') as f:
            f.write('SPECIFICATION Spec\nCONSTANTS\n MaxLen = %d\n MaxSize = %d\n Look = %d\n FirstOps = {%s}\n'
                    ' Emit = TRUE\nINVARIANTS EmitInv MeaningInv StructInv\n'
                    % (maxlen, maxsize, look, ', '.join(map(str, first))))
        r = tlc.run(d, 'TrackerMC', timeout=timeout, tag='-none-')
    finally:
        common.rm(d)
    if not r.ok:
        raise common.Machinery('TLC on Tracker.tla (MaxLen=%d MaxSize=%d) failed: rc=%s timeout=%s errors=%s violated=%s'
                               % (maxlen, maxsize, r.rc, r.timed_out, r.errors[:3], r.violated))
    blocks = BLOCK_RE.findall(r.out)
    if len(blocks) != r.distinct:
        raise common.Machinery('Tracker.tla: %d states but %d printed blocks (interleaved output?)'
                               % (r.distinct, len(blocks)))
    return blocks, r


# ------------------------------------------------------------------------------------------- python side
_Tracker = None


def _init_worker():
    global _Tracker
    hidc_api.load()
    from hidc.codegen.tracker import Tracker
    _Tracker = Tracker


def replay_case(code, exp):
    """Drive the real Tracker through the case; -> None if every guard agrees, else a description."""
    ops = [ord(ch) - 48 for ch in str(code)[1:]]
    want = [ord(ch) - 48 for ch in str(exp)[1:]]
    t = _Tracker()
    guards = []
    depth = 1
    try:
        for o in ops:
            if o < 4:
                gv = t.add(o)
                if len(guards) % 2 == 1:            # 2nd, 4th ... guard: VLA style (generator.py R3)
                    gv.map(lambda m, c=o: m - c)
                guards.append(gv)
            elif o < 8:
                t.update(o - 4)
            elif o == 8:
                t.push_level()
                depth += 1
            else:
                t.pop_level()
                depth -= 1
        for _ in range(depth):                      # closing pops: open levels, then the root level
            t.pop_level()
        got = [(g._data if g._finalized else None) for g in guards]
    except Exception as e:                          # the real class blew up on a legal sequence
        return {'kind': 'crash', 'got': '%s: %s' % (type(e).__name__, e), 'want': want}
    if len(got) != len(want):
        raise common.Machinery('case %s: %d guards created, spec lists %d' % (code, len(got), len(want)))
    if got != want:
        i = next(k for k in range(len(got)) if got[k] != want[k])
        return {'kind': 'wrong-guard', 'guard': i + 1, 'got': got, 'want': want}
    return None


def _work(args):
    blocks, skip_len, skip_size, corrupt = args
    n = guards = skipped = 0
    opcount = [0] * 10
    bad = []
    for b in blocks:
        nums = b.replace(',', ' ').split()
        for i in range(0, len(nums), 2):
            code, exp = nums[i], nums[i + 1]
            if skip_len and len(code) - 1 <= skip_len and all(int(ch) in (8, 9) or (int(ch) & 3) <= skip_size
                                                               for ch in code[1:]):
                skipped += 1                        # already covered by an earlier configuration
                continue
            if corrupt is not None and code == corrupt:
                exp = exp[:-1] + str((int(exp[-1]) + 1) % 10)
            res = replay_case(code, exp)
            n += 1
            guards += len(exp) - 1
            for ch in code[1:]:
                opcount[ord(ch) - 48] += 1
            if res is not None and len(bad) < 50:
                res['code'] = code
                bad.append(res)
            elif res is not None:
                bad.append({'code': code, 'kind': res['kind']})
    return n, guards, skipped, opcount, bad


def run(tier, seed, cache=None, corrupt=None, configs=None):
    """cache: path of a json file holding the TLC output of an earlier identical run (self-test only: the TLC
    side does not depend on the tree under test).  corrupt: case code whose expected value is falsified."""
    t0 = time.time()
    hidc_api.load()
    configs = configs or TIERS[tier]
    out = {'violations': [], 'states': 0, 'transitions': 0, 'cases': 0, 'guards_compared': 0, 'samples': [],
           'configs': [], 'tlc_wall_s': 0.0, 'skipped_duplicates': 0}
    opcount = [0] * 10
    cached = None
    if cache and os.path.exists(cache):
        with open(cache) as f:
            cached = json.load(f)
    tosave = []
    prev = (0, 0)
    bad_all = []
    for ci, (maxlen, maxsize, look) in enumerate(configs):
        if cached is not None:
            ent = cached[ci]
            blocks, st, tr, wall = ent['blocks'], ent['states'], ent['transitions'], 0.0
        else:
            blocks, r = tlc_cases(maxlen, maxsize, look, timeout=1500 if tier == 'thorough' else 400)
            st, tr, wall = r.distinct, r.generated, r.wall
            if cache:
                tosave.append({'blocks': blocks, 'states': st, 'transitions': tr})
        out['states'] += st
        out['transitions'] += tr
        out['tlc_wall_s'] += wall
        chunk = max(1, len(blocks) // (common.NPROC * 8))
        jobs = [(blocks[i:i + chunk], prev[0], prev[1], corrupt) for i in range(0, len(blocks), chunk)]
        n_cfg = 0
        with multiprocessing.Pool(common.NPROC, initializer=_init_worker) as pool:
            for n, guards, skipped, oc, bad in pool.imap_unordered(_work, jobs):
                n_cfg += n
                out['guards_compared'] += guards
                out['skipped_duplicates'] += skipped
                for k in range(10):
                    opcount[k] += oc[k]
                bad_all.extend(bad)
        out['cases'] += n_cfg
        out['configs'].append({'MaxLen': maxlen, 'MaxSize': maxsize, 'Look': look, 'states': st, 'cases': n_cfg,
                               'tlc_wall_s': round(wall, 1)})
        if blocks:
            for b in (blocks[len(blocks) // 3], blocks[-1]):
                nums = b.replace(',', ' ').split()
                if nums:
                    out['samples'].append({'ops': ops_text(nums[-2]), 'expected_guard_values': [int(c) for c in nums[-1][1:]]})
        prev = (maxlen, maxsize)
    if cache and cached is None:
        with open(cache, 'w') as f:
            json.dump(tosave, f)
    out['tlc_wall_s'] = round(out['tlc_wall_s'], 1)
    out['op_counts'] = {'add': sum(opcount[0:4]), 'update': sum(opcount[4:8]), 'push_level': opcount[8],
                        'pop_level': opcount[9]}
    if out['cases'] == 0 or out['guards_compared'] == 0:
        raise common.Machinery('Tracker replay compared nothing')
    if min(out['op_counts'].values()) == 0:
        raise common.Machinery('a Tracker.tla action never occurs in the cases: %s' % out['op_counts'])
    bad_all.sort(key=lambda b: (len(b['code']), b['code']))
    out['mismatching_cases'] = len(bad_all)
    for b in bad_all[:25]:                          # shortest first; one replay file each
        code = b['code']
        what = 'Tracker %s after [%s]: got %s, specified %s' % (
            'raised' if b['kind'] == 'crash' else 'finalises guard #%d wrongly' % b.get('guard', 0),
            ops_text(code), b.get('got'), b.get('want'))
        out['violations'].append(common.Violation(
            PROP, what, {'component': 'tracker', 'kind': b['kind'], 'ops': ops_text(code)},
            {'case_code': code, 'ops': ops_text(code), 'got': b.get('got'), 'specified': b.get('want'),
             'note': 'even-numbered guards carry .map(max - cur) like the VLA guard', 'total_mismatching_cases': len(bad_all)}))
    out['traces_validated_against_impl'] = out['cases']
    out['exhaustive'] = 'every operation sequence of each configuration (length bound x sizes), see configs'
    out['wall_s'] = round(time.time() - t0, 1)
    return out


def main():
    ap = argparse.ArgumentParser()
    ap.add_argument('--tier', default='quick', choices=list(TIERS))
    ap.add_argument('--seed', type=int, default=None)
    ap.add_argument('--cache', default=None, help='(self-test) reuse/save the TLC output')
    ap.add_argument('--corrupt', default=None, help='(self-test) falsify the expected value of this case code')
    ap.add_argument('--json', action='store_true')
    a = ap.parse_args()
    seed = a.seed if a.seed is not None else common.seed_from_env()
    res = run(a.tier, seed, cache=a.cache, corrupt=a.corrupt)
    vs = res.pop('violations')
    if a.json:
        print(json.dumps(dict(res, violations=[{'what': v.what, 'classifier': v.classifier} for v in vs])))
    else:
        for v in vs[:10]:
            print('VIOLATION property=%s  # %s' % (PROP, v.what))
        print('%s tracker-replay tier=%s states=%d cases=%d guards=%d mismatching=%d tlc=%.1fs wall=%.1fs' % (
            'VIOLATIONS' if vs else 'OK', a.tier, res['states'], res['cases'], res['guards_compared'],
            res['mismatching_cases'], res['tlc_wall_s'], res['wall_s']))
    return 1 if vs else 0


if __name__ == '__main__':
    common.main_wrapper(main)
