"""EntrySig: the documented rules for the entry point `@is_you` (spec/EntrySig.tla) against the real compiler.

TLC enumerates every signature of up to MaxParams parameters over the twelve parameter types, four return types and
zero / one / two entry points, and prints the documented verdict of each; this module renders each case to a program,
runs the WHOLE compiler on it (the rules live in CodeGen.__post_init__) and compares accept / reject.  Accepted
programs are also assembled with an argument vector of the declared shape.

    res = entry_sig.run(tier)   ->  {'cases', 'accepted', 'rejected', 'dontcare', 'violations': [...], 'states'}
"""
import os
from . import common, tlc, hidc_api, sasm


def render(sig, ret, n):
    params = ', '.join('%s p%d' % (t, i + 1) for i, t in enumerate(sig))
    body = {'empty': '', 'int': ' return 1;', 'bool': ' return true;', 'string': ' return "s";'}[ret]
    name = '@is_you' if n >= 1 else '@not_you'
    src = '%s %s(%s) {%s }\n' % (ret, name, params, body)
    if n == 2:
        src += 'empty @is_you(int q1, int q2, int q3, int q4) { }\n'
    return src


def argv(sig):
    out = []
    for t in sig:
        el = t.replace('const ', '').replace('[]', '')
        one = {'int': '7', 'byte': '65', 'string': 'xy', 'bool': '1'}[el]
        out += [one, one] if t.endswith('[]') else [one]
    return out


def run(tier='quick', seed=0):
    d = common.scratch('hv_entry_')
    try:
        with open(os.path.join(common.SPEC, 'EntrySig.tla')) as f:
            open(os.path.join(d, 'EntrySig.tla'), 'w').write(f.read())
        with open(os.path.join(d, 'EntrySig.cfg'), 'w') as f:
            f.write(open(os.path.join(common.SPEC, 'EntrySig.cfg')).read().replace('MaxParams = 2', 'MaxParams = %d' % (2 if tier == 'quick' else 3)))
        r = tlc.run(d, 'EntrySig', timeout=900, workers=4)
        if not r.ok:
            raise common.Machinery('TLC failed on EntrySig: %s %s' % (r.errors[:3], r.violated[:3]))
        cases = [p for p in r.prints if len(p) >= 7 and p[1] == 'E']
        if not cases:
            raise common.Machinery('EntrySig printed no case')
    finally:
        common.rm(d)
    res = {'cases': len(cases), 'accepted': 0, 'rejected': 0, 'dontcare': 0, 'violations': [], 'states': r.distinct,
           'rules': {}}
    for _, _, sig, ret, n, verdict, why in cases:
        sig = list(sig)
        src = render(sig, ret, n)
        res['rules'][why] = res['rules'].get(why, 0) + 1
        try:
            lines = hidc_api.compile_src(src)
            got = 'accept'
        except hidc_api.Rejected as e:
            got, lines = 'reject', None
        except hidc_api.Crashed as e:
            res['violations'].append({'kind': 'entry_signature_crash', 'rule': why, 'source': src, 'want': verdict, 'got': 'crash: %s' % str(e)[:200]})
            continue
        if verdict == 'dontcare':
            res['dontcare'] += 1
        elif got != verdict:
            res['violations'].append({'kind': 'entry_signature_' + ('accepted' if got == 'accept' else 'rejected'), 'rule': why,
                                      'source': src, 'want': verdict, 'got': got})
            continue
        else:
            res[{'accept': 'accepted', 'reject': 'rejected'}[verdict]] += 1
        if got == 'accept':
            try:
                sasm.Program(lines, argv(sig))
            except sasm.AsmError as e:
                res['violations'].append({'kind': 'entry_signature_not_assemblable', 'rule': why, 'source': src, 'want': 'assembly the assembler accepts',
                                          'got': str(e)[:200]})
    return res


if __name__ == '__main__':
    import json, sys
    out = run(sys.argv[1] if len(sys.argv) > 1 else 'quick')
    print(json.dumps({k: v for k, v in out.items() if k != 'violations'}, indent=1))
    for v in out['violations'][:20]:
        print(v)
