"""C08 Every scope exit releases exactly what the scope allocated.  Decided by the SphinxRT monitors LoopFootprint,
ReturnBalanced, TryBalanced and ElemInExtent (evaluated by TLC in every state), by Agree (an array released early
or a leaked footprint changes what later prints), and by the behavioural clause: the stack that suffices for one
iteration suffices for 2, 5 and 20."""
import time
from hv import rt, fam_tt, families

PROP = 'C08'


def main(tier, seed):
    t0 = time.time()
    quick = tier == 'quick'
    items = fam_tt.scope_family(seed, 22 if quick else 250)
    items += fam_tt.footprint_family()
    items += fam_tt.template_family(seed, tier, only=fam_tt.SCOPE_TEMPLATES)
    items += fam_tt.template_family(seed, tier)[::4 if quick else 1]
    items += families.generated(seed + 8, 30 if quick else 600, feat={'tt': 0.7}, inputs=2, family='gentt8')     # arrays inside tries, handlers, defeat functions
    items += families.upstream_corpus(skip_tests=('stack_overflow', 'early_stack'))[:0 if quick else 100]
    return rt.standard(PROP, tier, seed, items,
                       'random programs with arrays (literal, dynamic with loop-varying length, passed, aliased) at every depth of '
                       'nested blocks/loops/tries left by fall-through, break, continue, return and defeat caught by stop, followed '
                       'by fresh allocations and prints of older arrays; fixed footprint programs at the minimum stack of one '
                       'iteration run for 1, 2, 5 and 20 iterations', t0, presize_limit=4000)
