SPECIFICATION Spec
INVARIANTS TypeOK SpanExact ReaderAgrees
PROPERTIES CursorForward Terminates
CHECK_DEADLOCK TRUE
