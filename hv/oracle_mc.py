"""Design-level model check: Sphinx.tla's operational Turing jump == the declarative least fixed point of
SphinxOracle.tla, on every program of <= n instructions over a reduced ISA, from every initial memory."""
import itertools, os, sys
from . import common, tlc, export, sasm


def programs(n):
    out = []
    for L in range(1, n + 1):
        alpha = ['halt'] + ['j %d' % t for t in range(L + 1)] + ['hne [m1], 0', 'hne [m2], 0',
                                                              'xor [m1], [m1], 1', 'xor [m2], [m2], 1', 'yield 7']
        for prog in itertools.product(alpha, repeat=L):
            if not any(p.startswith('j') for p in prog):
                continue
            out.append(list(prog) + ['halt'])
    return out


def run(n=3, timeout=1500, mutate=None):
    d = common.scratch('oracle_')
    try:
        progs = programs(n)
        entries = []
        for body in progs:
            inits = []
            code = None
            for a, b in ((0, 0), (0, 1), (1, 0), (1, 1)):
                lines = ['%format word 1', '%section state', 'm1: .byte %d' % a, 'm2: .byte %d' % b, '%section code'] + body
                p = sasm.Program(lines, [])
                code = export.code_records(p)
                inits.append('[m |-> <<%d, %d>>, c |-> <<>>, tags |-> <<>>, hcase |-> 0]' % (a, b))
            entries.append('[code |-> <<%s>>, rt |-> [ap |-> 0 - 1], inits |-> <<%s>>]' % (
                ', '.join(tlc.tla(r) for r in code), ', '.join(inits)))
        with open(os.path.join(d, 'BatchData.tla'), 'w') as f:
            f.write('---- MODULE BatchData ----\nEXTENDS SphinxCode, HiDIR\nMCProgs == <<\n%s\n>>\nMCSources == <<>>\nMCCases == <<>>\n====\n'
                    % ',\n'.join(entries))
        spec = open(os.path.join(common.SPEC, 'SphinxOracle.tla')).read()
        if mutate:
            spec = mutate(spec)
        with open(os.path.join(d, 'OracleMC.tla'), 'w') as f:
            f.write('---- MODULE OracleMC ----\nEXTENDS SphinxOracle\n====\n')
        if mutate:
            with open(os.path.join(d, 'SphinxOracle.tla'), 'w') as f:
                f.write(spec)
        with open(os.path.join(d, 'OracleMC.cfg'), 'w') as f:
            f.write('SPECIFICATION OSpec\nCONSTANTS W = 1\nINVARIANT OracleAgree\nINVARIANT NoMachineFault\n')
        r = tlc.run(d, 'OracleMC', timeout=timeout)
        return r, len(progs)
    finally:
        common.rm(d)


if __name__ == '__main__':
    n = int(sys.argv[1]) if len(sys.argv) > 1 else 3
    r, k = run(n)
    print('programs=%d runs=%d distinct=%d ok=%s wall=%.1f %s' % (k, 4 * k, r.distinct, r.ok, r.wall, (r.errors + r.violated)[:3]))
    if not r.ok:
        print(r.out[-2500:])
        sys.exit(1)
