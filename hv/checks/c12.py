"""C12  Lexing is exact and independent of layout.

Direction code -> spec (trace validation).  Python generates the inputs (hv/lexer_families.py), runs the real
`hidc.lexer.lex` on each and writes what it did (hv/lexer_record.py); TLC re-lexes every input with the machine
of spec/Lexer.tla and compares kinds, values, spans and the error/no-error outcome (spec/LexerTrace.tla).
Python contains no oracle: a violation is a `<<"HV", i, "MISMATCH", ...>>` line printed by TLC.

Families: (a) exhaustive strings over a 22-character alphabet (length <= 3 quick, <= 4 thorough) plus seeded
longer strings, all ASCII singles/pairs; (b) integer literals: base x separator placement x <= 5 digits, values
around 2^7 .. 2^128; (c) all 256 \\xHH, every escape, raw characters and \\u{..} at the UTF-8 boundaries in
strings and characters; (d) every keyword with every prefix/suffix, every pair of symbols; (e) layout: token
sequences of /repo/examples/*.hid and generated ones re-rendered with seeded whitespace, line breaks and
comments between tokens - same kinds and values required (TLA+: SameAsBase), spans re-validated; instruction
streams of the examples before/after re-layout (TLA+: InstructionStreamsEqual on digests).

Three kinds of TLC run per check: the trace check on all cases (several batches in the thorough tier); the same
on a small sample of every family with LexerData!CaseLogActions = TRUE, which prints every step so that the
actions of the machine can be counted (an action never taken is a machinery failure); and spec/Lexer.cfg
(TypeOK, SpanExact, ReaderAgrees, CursorForward, Terminates) on the machine itself.  The number of judged cases is
measured as TLC's generated - distinct states (each verdict state has exactly one successor, itself) and must
equal the number of cases written.

  /venv/bin/python -m hv.check C12 --tier quick
  /venv/bin/python -m hv.checks.c12 --selftest
"""
import hashlib, os, random, re, sys, time
from .. import common, tlc, hidc_api
from .. import lexer_record as R
from .. import lexer_families as F

PROP = 'C12'
ACTIONS = ['SkipLinebreak', 'SkipToToken', 'SkipToMurky', 'AtEnd', 'ReadSymbol', 'ReadIdentOrKeyword',
           'ReadInt', 'ReadString', 'ReadChar', 'NoReader']
BLOCK = 256                # LexerTrace!BlockSize
MAX_REPORTED = 60          # violations turned into replay files per run ...
PER_CLASS = 4              # ... and per classifier (the evidence holds the full count)

SIZES = {
    # exhaustive length, random strings, fragment strings, layout renderings per example / per generated
    # sequence, generated sequences, instruction-stream renderings per example
    'selftest': dict(exh=2, rnd=900, frag=600, ex_render=1, gen_seqs=30, gen_render=2, instr=1, pairs=False,
                     examples=3),                # the reduced size hv.checks.c12_selftest runs per mutant
    'quick':    dict(exh=3, rnd=4500, frag=3000, ex_render=2, gen_seqs=120, gen_render=3, instr=1, pairs=False),
    'thorough': dict(exh=4, rnd=45000, frag=30000, ex_render=6, gen_seqs=1200, gen_render=4, instr=3, pairs=True,
                     exh5_sample=240000),        # seeded sample of the 5,153,632 strings of length 5
}


def show(src, limit=80):
    r = repr(src)
    return r if len(r) <= limit else r[:limit - 3] + '...'


# ------------------------------------------------------------------------------------------------ cases
def instruction_digest(src):
    """digest of the instruction stream (comment lines carry source positions and are dropped)"""
    try:
        lines = hidc_api.compile_src(src)
    except hidc_api.Rejected as e:
        return 'rejected:' + type(e.err).__name__
    except hidc_api.Crashed as e:
        return 'crashed:' + type(e.err).__name__
    h = hashlib.sha256()
    n = 0
    for ln in lines:
        if isinstance(ln, str):
            ln = ln.encode('utf-8')
        ln = ln.strip()
        if not ln or ln.startswith(b';'):
            continue
        h.update(ln + b'\n')
        n += 1
    return '%d:%s' % (n, h.hexdigest()[:32])


def build(tier, seed, only=None):
    """-> (main batch, [extra batches], digest pairs, family counts)"""
    z = SIZES[tier]
    rng = random.Random(seed)
    main = R.Batch()
    extra = []
    counts = {}

    def want(f):
        return only is None or f in only

    def add(batch, family, src, base=0):
        counts[family] = counts.get(family, 0) + 1
        return batch.add(family, src, R.record(src), base)

    if want('exhaustive'):
        for s in F.exhaustive(min(z['exh'], 3)):
            add(main, 'exhaustive', s)
        if z['exh'] >= 4:                         # 234,256 strings: batches of their own, without coverage
            cur = None
            for i, tup in enumerate(F.itertools.product(F.ALPHA, repeat=4)):
                if i % 80000 == 0:
                    cur = R.Batch()
                    extra.append(cur)
                add(cur, 'exhaustive', ''.join(tup))
        if z.get('exh5_sample'):
            seen = set()
            while len(seen) < z['exh5_sample']:
                seen.add(''.join(rng.choice(F.ALPHA) for _ in range(5)))
            for i, s5 in enumerate(sorted(seen)):
                if i % 80000 == 0:
                    cur = R.Batch()
                    extra.append(cur)
                add(cur, 'length5', s5)
    if want('random'):
        for s in F.random_strings(rng, z['rnd'], 4, 9):
            add(main, 'random', s)
        for s in F.random_strings(rng, z['rnd'] // 3, 4, 6, F.ALPHA):
            add(main, 'random', s)
        for s in F.fragment_strings(rng, z['frag']):
            add(main, 'random', s)
        for s in F.ascii_pairs(z['pairs']):
            add(main, 'ascii', s)
    if want('ints'):
        for s in F.int_literals(rng, tier == 'thorough'):
            add(main, 'ints', s)
    if want('escapes'):
        for s in F.escapes(rng, tier == 'thorough'):
            add(main, 'escapes', s)
    if want('words'):
        for s in F.words(rng, tier == 'thorough'):
            add(main, 'words', s)

    if want('file'):
        # the command-line path: a real file read by SourceCode.from_file.  Exotic separators (form feed, vertical
        # tab, U+2028/2029, NEL, FS..RS) are ordinary characters there; CRLF / CR are line ends.
        seps = ['\x0c', '\x0b', '\u2028', '\u2029', '\x85', '\x1c', '\x1e', '\r\n', '\r', '\n', '\t', '\t\t', ' \t ', '\xa0']
        pieces = []
        for sp in seps:
            pieces += ['x = "a%sb";\ny' % sp, "c = '%s';\nz" % sp, 'p // q%sr\ns' % sp, 'a%sb' % sp if sp in ('\x0c', '\x0b', '\r\n', '\r', '\n') else 'a //%s\nb' % sp,
                       '"u%s' % sp, 'k\n%s\nm' % sp, 'e%s' % sp]
        # tabs and wide characters in front of tokens (columns of later tokens), inside literals (their bytes), through a file
        pieces += ['\tint\tx\t=\t1;\t// c\n\t\ty', 'a\t"\t"\tb', "w('\t')\tz", '"é\t世"\tq = 1\t;', '\t\t\tx\n\ty\t\n', 'if\t(\tx\t<=\t1\t)\t{\t}']
        for src in pieces + [p + '\n' for p in pieces[:20]]:
            counts['file'] = counts.get('file', 0) + 1
            main.add('file', R.file_lines_text(src), R.record_file(src))

    digests = []
    if want('layout'):
        groups = []
        examples = sorted(F.example_sources(), key=lambda e: len(e[1]))[:z.get('examples')]
        for name, src in examples:
            base = add(main, 'layout', src)
            texts, glued = F.split_tokens(src, main.meta[base - 1][3])
            if texts is None or main.meta[base - 1][2] != 0:
                continue                           # the trace check reports the bad spans / the error itself
            groups.append((name, src, base, texts, glued, z['ex_render'], True))
        for k, (texts, glued) in enumerate(F.token_sequences(rng, z['gen_seqs'])):
            src = F.render(rng, texts, glued, 'spaces')
            base = add(main, 'layout', src)
            groups.append(('gen%d' % k, src, base, texts, glued, z['gen_render'], False))
        for name, src, base, texts, glued, nrender, is_example in groups:
            styles = list(F.STYLES) if is_example else [rng.choice(F.STYLES)]
            for st in styles:
                add(main, 'layout', F.render(rng, texts, glued, st), base)
            for _ in range(nrender):
                add(main, 'layout', F.render(rng, texts, glued), base)
            if is_example:
                d0 = instruction_digest(src)
                for j in range(z['instr']):
                    alt = F.render(rng, texts, glued, 'random' if j else 'comments')
                    digests.append(('%s#%d' % (name, j), d0, instruction_digest(alt)))
                    alt2 = F.render(rng, texts, glued)
                    digests.append(('%s#r%d' % (name, j), d0, instruction_digest(alt2)))
    return main, extra, digests, counts


# ------------------------------------------------------------------------------------------------ TLC
def run_trace(batch, digests, log_actions, timeout, corrupt=None, workers=None, heap='6g'):
    """-> dict(result=tlc.Result, mismatches=[(case, what, ntok, spec, rec)], dontcare=set, ...)"""
    d = common.scratch('c12_')
    try:
        if corrupt:
            corrupt(batch)
        batch.write(d, digests, log_actions=log_actions)
        r = tlc.run(d, 'C12Run', deadlock=True, timeout=timeout, workers=workers, heap=heap)
    finally:
        common.rm(d)
    n = len(batch.cases)
    if r.timed_out:
        raise common.Machinery('TLC timed out after %ds on %d cases' % (timeout, n))
    if not r.ok:
        raise common.Machinery('TLC did not complete: %s\n%s' % (r.errors[:3] or r.violated, r.out[-1500:]))
    m = re.search(r'Finished computing initial states: (\d+) distinct state', r.out)
    if not m or int(m.group(1)) != (n + BLOCK - 1) // BLOCK:
        raise common.Machinery('TLC saw %s initial blocks, %d cases were written' % (m and m.group(1), n))
    mism, ndig, instr = [], None, []
    for p in r.prints:
        if len(p) >= 4 and p[2] == 'DIGESTS':
            ndig = p[3]
        elif len(p) >= 7 and p[1] == 0 and p[2] == 'MISMATCH' and p[3] == 'instructions':
            instr.append(p)
        elif len(p) >= 7 and p[2] == 'MISMATCH':
            mism.append((p[1], p[3], p[4], p[5], p[6]))
    if ndig != len(digests):
        raise common.Machinery('TLC evaluated %s digest pairs, %d were written' % (ndig, len(digests)))
    dc = set(int(x) for x in re.findall(r'<<"HD", (\d+)>>', r.out))
    # every verdict state has exactly one successor, itself; all other successors are new states
    # (inputs are disjoint chains and the cursor only moves forward): generated - distinct = verdicts
    if r.generated - r.distinct != n:
        raise common.Machinery('verdicts reached: %d of %d cases' % (r.generated - r.distinct, n))
    actions = {}
    if log_actions:
        for a in re.findall(r'<<"HA", "(\w+)">>', r.out):
            actions[a] = actions.get(a, 0) + 1
    missing = [a for a in ACTIONS if not actions.get(a)] if log_actions else []
    return dict(result=r, mismatches=mism, dontcare=dc, instr=instr, missing=missing, n=n, actions=actions)


def run_machine_check(batch, timeout, workers=None):
    """spec/Lexer.cfg on the machine itself over the same inputs (recordings unused)."""
    d = common.scratch('c12mc_')
    try:
        batch.write(d, (), root='C12MC', extends='Lexer', cfg='Lexer.cfg')
        r = tlc.run(d, 'C12MC', deadlock=True, timeout=timeout, workers=workers, heap='3g')
    finally:
        common.rm(d)
    if r.timed_out:
        raise common.Machinery('TLC (Lexer.cfg) timed out')
    return r


def violation_of(batch, case, what, ntok, spec, rec):
    family, src, end, toks, exc, base = batch.meta[case - 1]
    cls = {'family': family, 'mismatch': what, 'recorded_end': end}
    if exc:
        cls['exception'] = exc
    if what == 'token' and isinstance(spec, list) and isinstance(rec, list) and len(spec) == 6 and len(rec) == 6:
        cls['differs'] = ','.join(n for n, a, b in zip(('kind', 'value', 'sl', 'sc', 'el', 'ec'), spec, rec) if a != b)
    text = '%s: input %s: %s at token %s: spec %s, lexer %s' % (family, show(src), what, ntok, spec, rec)
    if exc:
        text += ' (%s escaped the lexer)' % exc
    return common.Violation(PROP, text, cls, {
        'source': src, 'code_points': [ord(c) for c in src], 'recorded_end': end, 'exception': exc,
        'recorded_tokens': toks, 'layout_base': batch.meta[base - 1][1] if base else None,
        'token_no': ntok, 'spec_says': spec, 'lexer_says': rec})


# ------------------------------------------------------------------------------------------------ entry points
def coverage_sample(batch, seed, per_family=220, max_len=400):
    """a small batch with cases of every family, run with CaseLogActions = TRUE to count how often each
    action of the machine is taken (one printed line per step: only sensible on a small batch)"""
    rng = random.Random(seed + 1)
    by = {}
    for i, m in enumerate(batch.meta):
        if len(m[1]) <= max_len and not m[5]:
            by.setdefault(m[0], []).append(i)
    small = R.Batch()
    for fam in sorted(by):
        for i in sorted(rng.sample(by[fam], min(per_family, len(by[fam])))):
            m = batch.meta[i]
            small.add(m[0], m[1], (m[2], m[3], m[4]))
    return small


def main(tier, seed, only=None, corrupt=None):
    import threading
    t0 = time.time()
    hidc_api.load()
    batch, extra, digests, counts = build(tier, seed, only)
    if not batch.cases:
        raise common.Machinery('no cases')
    t_rec = time.time() - t0
    tmo = 400 if tier == 'quick' else 1500

    # three independent TLC runs side by side: the trace check, the action-coverage sample, the machine check
    side = {}

    def bg(name, fn):
        def go():
            try:
                side[name] = ('ok', fn())
            except BaseException as e:           # re-raised in the main thread
                side[name] = ('exc', e)
        th = threading.Thread(target=go)
        th.start()
        return th

    threads = []
    small = coverage_sample(batch, seed)
    threads.append(bg('cov', lambda: run_trace(small, (), True, timeout=tmo, workers=4, heap='2g')))
    if only is None:
        exh = R.Batch()                          # inputs for the machine's own properties (spec/Lexer.cfg)
        for m in batch.meta:
            if (m[0] == 'exhaustive' and (tier != 'quick' or len(m[1]) <= 2)) or m[0] in ('ints', 'escapes'):
                exh.add(m[0], m[1], (m[2], m[3], m[4]))
        threads.append(bg('mc', lambda: run_machine_check(exh, timeout=tmo, workers=6)))
    res = run_trace(batch, digests, False, timeout=tmo, corrupt=corrupt)
    for th in threads:
        th.join()
    for name, (st, val) in side.items():
        if st == 'exc':
            raise val
    cov_run = side['cov'][1]
    mc = side['mc'][1] if 'mc' in side else None

    runs = [(batch, res)]
    for b in extra:
        runs.append((b, run_trace(b, (), False, timeout=tmo)))

    violations = []
    per_class = {}
    states = trans = ncases = ndc = 0
    wall = 0.0
    for b, rr in runs:
        states += rr['result'].distinct
        trans += rr['result'].generated
        wall += rr['result'].wall
        ncases += rr['n']
        ndc += len(rr['dontcare'])
        for (case, what, ntok, spec, rec) in sorted(rr['mismatches'], key=lambda m: m[0]):
            v = violation_of(b, case, what, ntok, spec, rec)
            k = repr(sorted(v.classifier.items()))
            per_class[k] = per_class.get(k, 0) + 1
            if per_class[k] <= PER_CLASS and len(violations) < MAX_REPORTED:
                violations.append(v)
        for p in rr['instr']:
            violations.append(common.Violation(PROP, 'instruction stream of %s changes with the layout' % p[5],
                                               {'family': 'instructions', 'program': str(p[5]).split('#')[0]},
                                               {'before': p[6], 'after': p[7]}))
    nmism = sum(len(rr['mismatches']) for _, rr in runs)
    if cov_run['missing'] and only is None:
        raise common.Machinery('spec actions never taken: %s' % cov_run['missing'])
    compared = ncases - ndc
    if compared <= 0:
        raise common.Machinery('no case was compared')

    if mc is not None:
        if not mc.ok:
            if mc.violated:
                violations.append(common.Violation(
                    PROP, 'the Lexer machine violates its own property %s' % mc.violated,
                    {'family': 'machine', 'violated': ','.join(mc.violated)}, {'tlc': mc.out[-3000:]}))
            else:
                raise common.Machinery('TLC (Lexer.cfg) failed: %s\n%s' % (mc.errors[:3], mc.out[-1500:]))
        states += mc.distinct
        trans += mc.generated
    states += cov_run['result'].distinct
    trans += cov_run['result'].generated

    rng = random.Random(seed)
    samples = []
    for fam in sorted(counts):
        idx = [i for i, m in enumerate(batch.meta) if m[0] == fam]
        for i in rng.sample(idx, min(3, len(idx))):
            m = batch.meta[i]
            samples.append({'family': fam, 'source': show(m[1], 120), 'end': m[2], 'tokens': len(m[3]),
                            'dontcare': (i + 1) in res['dontcare']})
    cov = {
        'states': states, 'transitions': trans,
        'traces_validated_against_impl': compared,
        'cases': ncases, 'dontcare_cases': ndc, 'mismatching_cases': nmism,
        'mismatch_classes': per_class,
        'families': counts,
        'exhaustive': 'all %d-character-alphabet strings of length <= %d' % (len(F.ALPHA), SIZES[tier]['exh']),
        'alphabet': show(F.ALPHA),
        'instruction_stream_pairs': len(digests),
        'distinct_token_values': len(batch.vals),
        'rule': 'spec/Lexer.tla L1-L13, dontcare D1-D2; spec/LexerTrace.tla Judge, SameAsBase, '
                'InstructionStreamsEqual; spec/Lexer.cfg TypeOK SpanExact ReaderAgrees CursorForward Terminates',
        'actions_in_coverage_sample': {a: cov_run['actions'].get(a, 0) for a in ACTIONS},
        'coverage_sample_cases': cov_run['n'],
        'machine_check': None if mc is None else {'states': mc.distinct, 'ok': mc.ok, 'wall_s': round(mc.wall, 1)},
        'record_wall_s': round(t_rec, 1), 'tlc_wall_s': round(wall, 1), 'tlc_runs': len(runs) + len(side),
        'samples': samples,
    }
    assumptions = ['Python str code points = the characters of the source (SourceCode.from_string)',
                   'tokens are read through the public token classes and Lexeme.span',
                   'D1: non-ASCII and 1C-1F outside literals/comments are dontcare; D2: raw surrogates are dontcare']
    return common.finish(PROP, tier, seed, 'model_checking', cov, violations, t0, assumptions)


def replay(path):
    import json
    with open(path) as f:
        d = json.load(f)
    src = d['detail']['source']
    hidc_api.load()
    b = R.Batch()
    b.add('replay', src, R.record(src))
    rr = run_trace(b, (), False, timeout=120, workers=2, heap='1g')
    print('input   %r' % src)
    print('lexer   end=%d tokens=%s exception=%s' % (b.meta[0][2], b.meta[0][3], b.meta[0][4]))
    for m in rr['mismatches']:
        print('MISMATCH %s at token %s: spec %s, lexer %s' % (m[1], m[2], m[3], m[4]))
    if 1 in rr['dontcare']:
        print('dontcare')
    if rr['mismatches']:
        print('VIOLATION property=%s replay=%s' % (PROP, path))
        return 1
    print('OK (no mismatch)')
    return 0


if __name__ == '__main__':
    if '--selftest' in sys.argv:
        from . import c12_selftest
        common.main_wrapper(c12_selftest.main)
    else:
        tier = 'thorough' if '--thorough' in sys.argv else 'quick'
        common.main_wrapper(lambda: main(tier, common.seed_from_env()))
