"""C06  Flavour and context rules are enforced on every program.

Direction spec -> code (replay).  spec/Context.tla is the oracle: TLC enumerates every nesting path
(exhaustively to a depth bound, then deeper paths deduplicated by context state with a VIEW, then random
walks with `tlc -simulate`) and prints, per state, the path and the verdict of every construct that can be
written there.  Python renders each (path, construct) to a complete program (hv/ctx_render.py), runs the
real `hidc.parser.parse` on it and compares accept/reject with TLC's verdict in both directions:

  accept   -> the parser must accept            (else: "legal placement rejected")
  reject   -> the parser must raise ParserError (else: "illegal placement accepted")
  dontcare -> anything but a non-ParserError exception
  any      -> an exception that is not a CompilerError is a crash and always a violation

    cd /verif && /venv/bin/python -m hv.check C06 --tier quick
    cd /verif && /venv/bin/python -m hv.checks.c06 --selftest
"""
import json, multiprocessing, os, re, shutil, subprocess, sys, time

from .. import common, ctx_render, ctx_tlc

PROP = 'C06'

TIERS = {
    #            exhaustive cfg     VIEW-deduplicated cfg    random walks (traces, seeds)
    'quick':    ('ContextQuick',    'ContextViewQuick',      400, 1),
    'thorough': ('ContextThorough', 'ContextViewThorough',   2500, 3),
}
SIM_CFG = 'ContextSim'
SIM_DEPTH = 10          # TLC -depth: initial state + root + 8 frames

ASSUMPTIONS = (
    'programs are parsed only (hidc.parser.parse); typechecking is C07',
    'a placement is one construct at the end of one nesting path inside an otherwise neutral program; '
    'interactions between sibling statements are not part of this property',
    'README silent, evident intent followed: the loop flag survives into try bodies, handlers and preempt '
    'bodies (S1); arguments of you-/defeat-calls keep the caller\'s rules (S2); the length of a global array '
    'initialiser is a global initialiser (S3)',
    'dontcare: a `??` nested (via parentheses/argument/index/element) inside an operand of a legal `??` and '
    'everything below it (D1)',
)

# ---------------------------------------------------------------------------------------------------------
# workers: render + parse
_parse = None


def _init_worker():
    global _parse
    from .. import hidc_api
    hidc_api.load()
    from hidc.lexer import SourceCode
    from hidc.parser import parse
    from hidc.errors import ParserError, CompilerError

    def run(src):
        try:
            parse(SourceCode.from_string(src))
            return 'A', ''
        except ParserError as e:
            return 'R', ''
        except CompilerError as e:          # a lexer error would mean the renderer wrote nonsense
            return 'X', '%s: %s' % (type(e).__name__, e)
        except RecursionError as e:
            return 'C', 'RecursionError'
        except Exception as e:
            return 'C', '%s: %s' % (type(e).__name__, e)
    _parse = run


def _work(args):
    seed, chunk = args
    codes = []
    notes = {}
    for i, (path, k) in enumerate(chunk):
        code, note = _parse(ctx_render.render(path, k, seed))
        codes.append(code)
        if note:
            notes[i] = note
    return ''.join(codes), notes


def observe(leaves, seed, procs=None):
    """leaves: list of (path, construct).  -> list of (code, note); code in A/R/X/C."""
    procs = procs or common.NPROC
    size = max(50, min(2000, len(leaves) // (procs * 8) + 1))
    chunks = [leaves[i:i + size] for i in range(0, len(leaves), size)]
    out = []
    ctx = multiprocessing.get_context('fork')
    with ctx.Pool(procs, initializer=_init_worker) as pool:
        for codes, notes in pool.imap(_work, [(seed, ch) for ch in chunks]):
            out.extend((c, notes.get(i, '')) for i, c in enumerate(codes))
    if len(out) != len(leaves):
        raise common.Machinery('parsed %d of %d cases' % (len(out), len(leaves)))
    return out


# ---------------------------------------------------------------------------------------------------------
def judge(expected, code):
    """Equality test between TLC's verdict and the observed behaviour.  -> None or the kind of violation."""
    if code == 'C':
        return 'crash'
    if expected == 'accept' and code != 'A':
        return 'legal-placement-rejected'
    if expected == 'reject' and code == 'A':
        return 'illegal-placement-accepted'
    return None


def _out_dirs():
    """The self-test redirects evidence/replay files so that it never overwrites those of a real run."""
    d = os.environ.get('HV_C06_OUT')
    if d:
        common.EVID = os.path.join(d, 'evidence')
        common.REPLAY = os.path.join(d, 'replay')


def main(tier, seed):
    t0 = time.time()
    _out_dirs()
    full_cfg, view_cfg, sim_traces, sim_runs = TIERS[tier]
    order = ctx_tlc.construct_order()
    frames_all = ctx_tlc.frame_kinds()

    # ---- TLC: the cases and their verdicts
    runs = {}
    runs['exhaustive'] = ctx_tlc.enumerate_states(full_cfg, order, coverage=True, timeout=600)
    runs['view'] = ctx_tlc.enumerate_states(view_cfg, order, timeout=300)
    for i in range(sim_runs):
        runs['simulate%d' % i] = ctx_tlc.enumerate_states(
            SIM_CFG, order, simulate='num=%d' % sim_traces, depth=SIM_DEPTH, seed=(seed + i) % (2 ** 31), timeout=300)
    tlc_wall = sum(e.wall for e in runs.values())

    leaves, expected, origin = [], [], []
    seen = set()
    per_mode = {}
    for mode, e in runs.items():
        n_new = 0
        for path, verd in e.states:
            if path in seen:
                continue
            seen.add(path)
            for k, v in zip(order, verd):
                if v == 'na':
                    continue
                leaves.append((path, k))
                expected.append(v)
                origin.append(mode)
                n_new += 1
        per_mode[mode] = {'tlc_states_generated': e.generated, 'tlc_distinct_states': e.distinct,
                          'paths_printed': len(e.states), 'new_cases': n_new, 'tlc_wall_s': round(e.wall, 2)}
    if not leaves:
        raise common.Machinery('no case came out of TLC')

    # every action of the spec must have been taken, every frame and construct exercised, every verdict present
    cov = runs['exhaustive'].coverage
    never = [a for a, n in cov.items() if a.startswith('Enter') and n == 0]
    if len([a for a in cov if a.startswith('Enter')]) < 13 or never:
        raise common.Machinery('spec actions never taken / coverage unreadable: %s %s' % (never, sorted(cov)))
    frames_seen = {f for p in seen for f in p}
    if frames_all - frames_seen:
        raise common.Machinery('frames never exercised: %s' % sorted(frames_all - frames_seen))
    by_verdict = {v: 0 for v in ('accept', 'reject', 'dontcare')}
    by_construct = {k: {'accept': 0, 'reject': 0, 'dontcare': 0} for k in order}
    for (path, k), v in zip(leaves, expected):
        by_verdict[v] += 1
        by_construct[k][v] += 1
    if not all(by_verdict.values()):
        raise common.Machinery('a verdict class is empty: %s' % by_verdict)
    lone = [k for k in order if k != 'lit' and k != 'return' and not (by_construct[k]['accept'] and by_construct[k]['reject'])]
    if lone:
        raise common.Machinery('constructs never seen both legal and illegal: %s' % lone)

    # self-test hook (b): corrupt one recorded field -- flip the expected verdict of one legal case
    corrupt = os.environ.get('HV_C06_CORRUPT')
    if corrupt:
        idx = [i for i, v in enumerate(expected) if v == 'accept' and leaves[i][1] != 'lit']
        j = idx[(int(corrupt) * 7919) % len(idx)]
        expected[j] = 'reject'
        print('selftest: corrupted expected verdict of case %r' % (leaves[j],))

    # ---- the real parser
    t1 = time.time()
    obs = observe(leaves, seed)
    parse_wall = time.time() - t1

    # ---- compare
    violations, groups = [], {}
    n_viol = 0
    render_errors = []
    observed_counts = {'A': 0, 'R': 0, 'X': 0, 'C': 0}
    for (path, k), v, (code, note), mode in zip(leaves, expected, obs, origin):
        observed_counts[code] += 1
        if code == 'X':
            render_errors.append((path, k, note))
            continue
        kind = judge(v, code)
        if kind is None:
            continue
        n_viol += 1
        key = (kind, k, path[0], path[-1])
        if key in groups:
            groups[key]['count'] += 1
            continue
        groups[key] = g = {'count': 1}
        if len(groups) > 60:
            continue
        src = ctx_render.render(path, k, seed)
        what = '%s: %s at %s (spec says %s, parser %s)' % (
            kind, k, '/'.join(path), v, {'A': 'accepted', 'R': 'rejected', 'C': 'crashed: ' + note}[code])
        g['v'] = common.Violation(PROP, what,
                                  classifier={'kind': kind, 'construct': k, 'root': path[0], 'innermost': path[-1],
                                              'path': '/'.join(path)},
                                  detail={'path': list(path), 'construct': k, 'expected': v, 'observed': code,
                                          'note': note, 'source': src, 'seed': seed, 'found_by': mode})
    for key, g in groups.items():
        if 'v' in g:
            g['v'].detail['cases_in_group'] = g['count']
            violations.append(g['v'])
    if render_errors:
        # a non-parser CompilerError (lexer) on our own text: the renderer is broken, not the compiler
        raise common.Machinery('renderer produced text the lexer refuses: %r' % (render_errors[:3],))

    samples = []
    step = max(1, len(leaves) // 6)
    for i in range(0, len(leaves), step):
        path, k = leaves[i]
        samples.append({'path': '/'.join(path), 'construct': k, 'expected': expected[i],
                        'parser': {'A': 'accepted', 'R': 'rejected'}.get(obs[i][0], obs[i][0]),
                        'source': ctx_render.render(path, k, seed)})
    coverage = {
        'states': sum(e.distinct for e in runs.values()),
        'transitions': sum(e.generated for e in runs.values()),
        'traces_validated_against_impl': len(leaves),
        'samples': samples[:6],
        'exhaustive': 'every path of %s frames below the root (cfg %s); deeper: VIEW-deduplicated (cfg %s) and '
                      '%d x %d random walks to 8 frames' % (
                          {'quick': 3, 'thorough': 4}[tier], full_cfg, view_cfg, sim_runs, sim_traces),
        'paths': len(seen),
        'max_path_frames_below_root': max(len(p) for p in seen) - 1,
        'cases_per_verdict': by_verdict,
        'cases_per_construct': by_construct,
        'parser_outcomes': {'accepted': observed_counts['A'], 'rejected': observed_counts['R'],
                            'crashed': observed_counts['C']},
        'per_mode': per_mode,
        'tlc_action_coverage': {a: n for a, n in sorted(cov.items())},
        'frames_exercised': len(frames_seen),
        'tlc_wall_s': round(tlc_wall, 2),
        'parse_wall_s': round(parse_wall, 2),
        'violating_cases': n_viol,
        'violation_groups': len(groups),
        'repo': common.REPO,
    }
    return common.finish(PROP, tier, seed, 'model_checking', coverage, violations, t0, ASSUMPTIONS)


# ---------------------------------------------------------------------------------------------------------
def replay(path):
    """Re-run one stored case: TLC recomputes the verdict of the stored path, the current tree parses the
    stored source."""
    with open(path) as f:
        d = json.load(f)['detail']
    verdict = ctx_tlc.verdicts_of([(tuple(d['path']), d['construct'])])[0]
    _init_worker()
    code, note = _parse(d['source'])
    kind = judge(verdict, code)
    print(d['source'])
    print('path=%s construct=%s  TLC verdict=%s  parser=%s %s' % (
        '/'.join(d['path']), d['construct'], verdict, {'A': 'accepted', 'R': 'rejected'}.get(code, code), note))
    if verdict in ('na', 'illegal'):
        raise common.Machinery('stored path is not a case of the spec any more (%s)' % verdict)
    if kind:
        print('VIOLATION property=%s replay=%s  # %s' % (PROP, path, kind))
        return 1
    print('OK property=%s (replayed case now agrees with the spec)' % PROP)
    return 0


# ---------------------------------------------------------------------------------------------------------
# self-test: the binding must see realistic defects and stay silent on the unmodified tree
MUTANTS = [
    ('try-body-keeps-you',
     'body = await expect(ps_block((ctx & ~BlockContext.YOU) | BlockContext.TRY))',
     'body = await expect(ps_block(ctx | BlockContext.TRY))'),
    ('continue-allowed-outside-loop',
     """    elif tok := await Exact(StmtToken.CONTINUE):
        if BlockContext.LOOP not in ctx:
            raise ParserError('continue outside of loop', tok.span)
""",
     """    elif tok := await Exact(StmtToken.CONTINUE):
"""),
    ('handler-parsed-in-try-context',
     """        body = await expect(ps_block((ctx & ~BlockContext.YOU) | BlockContext.TRY))
        handler_blocks""",
     """        ctx = (ctx & ~BlockContext.YOU) | BlockContext.TRY
        body = await expect(ps_block(ctx))
        handler_blocks"""),
    ('speculation-operands-keep-context',
     'new_ctx = (ctx & ~BlockContext.YOU) | BlockContext.FUNC',
     'new_ctx = ctx'),
    ('preempt-check-removed',
     """        if BlockContext.DEFEAT not in ctx:
            raise ParserError('preempt outside of defeat context', start)
""",
     ''),
    ('global-initialiser-allows-calls',
     'ps_vdecl(BlockContext.NONE)',
     'ps_vdecl(BlockContext.FUNC)'),
    ('for-step-loses-context',
     'cont = await ps_plain_stmt(ctx, allow_decl=False)',
     'cont = await ps_plain_stmt(ctx & BlockContext.FUNC, allow_decl=False)'),
    ('loop-flag-dropped-by-try',
     'body = await expect(ps_block((ctx & ~BlockContext.YOU) | BlockContext.TRY))',
     'body = await expect(ps_block(BlockContext((ctx & ~BlockContext.YOU).value & ~BlockContext.LOOP.value)'
     ' | BlockContext.TRY))'),
]

# behaviour-preserving rewrites of the same places: the check must stay silent on them
EQUIVALENT = [
    ('equivalent-rewrites',
     [('if BlockContext.DEFEAT not in ctx:', 'if not (ctx & BlockContext.DEFEAT) == BlockContext.DEFEAT:'),
      ('new_ctx = (ctx & ~BlockContext.YOU) | BlockContext.FUNC',
       'new_ctx = BlockContext.FUNC | (ctx & (BlockContext.LOOP | BlockContext.DEFEAT | BlockContext.TRY))'),
      ('handler = handler_blocks[lxm.token](lxm.span.start, await expect(ps_block(ctx)))',
       'outer = ctx | BlockContext.YOU\n'
       '        handler = handler_blocks[lxm.token](lxm.span.start, await expect(ps_block(outer)))')]),
]


def _run_check(repo, out, extra_env=None):
    env = dict(os.environ, HV_REPO=repo, HV_C06_OUT=out, PYTHONDONTWRITEBYTECODE='1')
    env.pop('HV_C06_CORRUPT', None)
    env.update(extra_env or {})
    p = subprocess.run([sys.executable, '-m', 'hv.check', PROP, '--tier', 'quick'], cwd=common.VERIF, env=env,
                       stdout=subprocess.PIPE, stderr=subprocess.STDOUT, timeout=900)
    return p.returncode, p.stdout.decode('utf-8', 'replace')


def _upstream_tests(repo):
    p = subprocess.run([sys.executable, '-m', 'pytest', '-q', '-x', '-p', 'no:cacheprovider',
                        'tests/test_lexer.py', 'tests/test_parser.py', 'tests/test_typecheck.py'],
                       cwd=repo, stdout=subprocess.PIPE, stderr=subprocess.STDOUT, timeout=600,
                       env=dict(os.environ, PYTHONDONTWRITEBYTECODE='1'))
    return p.returncode == 0


def selftest():
    t0 = time.time()
    base = common.scratch('c06self_')
    failures = []
    try:
        src_repo = common.REPO

        def fresh(name):
            d = os.path.join(base, name)
            os.makedirs(d)
            shutil.copytree(os.path.join(src_repo, 'hidc'), os.path.join(d, 'hidc'),
                            ignore=shutil.ignore_patterns('__pycache__'))
            shutil.copytree(os.path.join(src_repo, 'tests'), os.path.join(d, 'tests'),
                            ignore=shutil.ignore_patterns('__pycache__'))
            return d

        # (c) the unmodified copy: silence
        clean = fresh('clean')
        rc, out = _run_check(clean, os.path.join(base, 'out_clean'))
        ok = rc == 0 and 'VIOLATION' not in out
        print('selftest unmodified copy: rc=%d %s' % (rc, 'silent OK' if ok else 'NOT SILENT'))
        if not ok:
            failures.append('unmodified')
            print(out[-2000:])

        # (b) one corrupted recorded field (an expected verdict flipped after TLC printed it)
        rc, out = _run_check(clean, os.path.join(base, 'out_corrupt'), {'HV_C06_CORRUPT': '1'})
        ok = rc == 1 and 'VIOLATION property=%s' % PROP in out
        print('selftest corrupted verdict: rc=%d %s' % (rc, 'rejected OK' if ok else 'NOT DETECTED'))
        if not ok:
            failures.append('corrupt')
            print(out[-2000:])

        # (c') equivalent variants: silence
        for name, edits in EQUIVALENT:
            d = fresh('e_' + name)
            g = os.path.join(d, 'hidc', 'parser', 'grammar.py')
            with open(g) as f:
                text = f.read()
            if any(text.count(old) != 1 for old, _ in edits):
                print('selftest variant %s: pattern not found exactly once (grammar.py changed) -- skipped' % name)
                failures.append('pattern:' + name)
                continue
            for old, new in edits:
                text = text.replace(old, new)
            with open(g, 'w') as f:
                f.write(text)
            rc, out = _run_check(d, os.path.join(base, 'out_' + name))
            ok = rc == 0 and 'VIOLATION' not in out
            print('selftest variant %-35s rc=%d %s' % (name, rc, 'silent OK' if ok else 'FALSE ALARM'))
            if not ok:
                failures.append(name)
                print(out[-2000:])

        # (a) mutants of grammar.py
        for name, old, new in MUTANTS:
            d = fresh('m_' + name)
            g = os.path.join(d, 'hidc', 'parser', 'grammar.py')
            with open(g) as f:
                text = f.read()
            if text.count(old) != 1:
                print('selftest mutant %s: pattern not found exactly once (grammar.py changed) -- skipped' % name)
                failures.append('pattern:' + name)
                continue
            with open(g, 'w') as f:
                f.write(text.replace(old, new))
            upstream = _upstream_tests(d)
            rc, out = _run_check(d, os.path.join(base, 'out_' + name))
            m = re.search(r'VIOLATION property=C06 [^\n]*', out)
            ok = rc == 1 and m is not None
            nviol = len(re.findall(r'^VIOLATION ', out, re.M))
            print('selftest mutant %-36s rc=%d %s (%d groups printed; upstream parser tests %s)%s' % (
                name, rc, 'DETECTED' if ok else 'MISSED', nviol, 'still pass' if upstream else 'fail',
                '\n    e.g. ' + m.group(0).split('# ')[-1] if m else ''))
            if not ok:
                failures.append(name)
                print(out[-1500:])
    finally:
        common.rm(base)
    print('selftest %s in %.1fs' % ('FAILED: %s' % failures if failures else 'passed', time.time() - t0))
    return 1 if failures else 0


if __name__ == '__main__':
    if '--selftest' in sys.argv:
        common.main_wrapper(selftest)
    else:
        import argparse
        ap = argparse.ArgumentParser()
        ap.add_argument('--tier', default='quick', choices=list(TIERS))
        ap.add_argument('--seed', type=int, default=None)
        ap.add_argument('--replay', default=None)
        a = ap.parse_args()
        if a.replay:
            common.main_wrapper(lambda: replay(a.replay))
        else:
            common.main_wrapper(lambda: main(a.tier, a.seed if a.seed is not None else common.seed_from_env()))
