---------------------------- MODULE SphinxOracle ----------------------------
(* What the Turing jump MEANS, stated declaratively, and the model check that the operational machine   *)
(* of Sphinx.tla (tentative non-jump + backtracking + cycle detection) computes exactly that.           *)
(*                                                                                                      *)
(* Declarative reading: Halts is the LEAST predicate on machine states (pc, mem) closed under            *)
(*    - a (firing) halt instruction halts;                                                              *)
(*    - an ordinary instruction halts iff its successor state halts;                                     *)
(*    - `j X` halts iff BOTH the non-jump successor halts (so the jump is taken) and the jump target      *)
(*      halts.                                                                                          *)
(* `j X` goes to X iff Halts(non-jump successor).  Taking the least fixed point is what makes a state    *)
(* that can only "halt by assuming it halts" (L: j X; j L; halt) run forever.                            *)
(*                                                                                                      *)
(* The check runs Sphinx.tla's own Step on EVERY program of at most N instructions over a reduced ISA   *)
(* (halt, j k, hne [m],0, xor [m],[m],1, yield 7; two one-byte memory cells, W = 1) from every initial   *)
(* memory, and requires status and committed output to equal the declarative run.  The programs are     *)
(* assembled by the same assembler/exporter as real compiler output (hv/oracle_mc.py).                   *)
EXTENDS Sphinx, FiniteSets

VARIABLE m0                    \* the initial memory of this behaviour (history)
ovars == <<mvars, m0>>

Code == P.code
N == Len(Code)
Mems == {<<x, y>> : x \in {0, 1}, y \in {0, 1}}

\* one-step semantics of the non-jump instructions of the reduced ISA
FiresAt(c, m) == \/ Code[c + 1].op = "halt"
                 \/ (Code[c + 1].op = "hne" /\ m[Code[c + 1].a.v + 1] # 0)
NextMem(c, m) == IF Code[c + 1].op = "xor" THEN [m EXCEPT ![Code[c + 1].a.v + 1] = 1 - @] ELSE m

OStates == (0..(N - 1)) \X Mems
RECURSIVE Lfp(_)
Lfp(H) ==
   LET H2 == H \cup { s \in OStates :
                  LET c == s[1]  m == s[2] IN
                  \/ FiresAt(c, m)
                  \/ /\ Code[c + 1].op = "j"
                     /\ <<c + 1, m>> \in H /\ <<Code[c + 1].a.v, m>> \in H
                  \/ /\ Code[c + 1].op \notin {"j", "halt"} /\ ~FiresAt(c, m)
                     /\ <<c + 1, NextMem(c, m)>> \in H }
   IN IF H2 = H THEN H ELSE Lfp(H2)
Halts == Lfp({})

\* the run with every jump resolved by the oracle; a repeated (pc, mem) at a jump means "forever"
RECURSIVE DRun(_, _, _, _, _)
DRun(H, c, m, o, seen) ==
   IF FiresAt(c, m) THEN [st |-> "halted", out |-> o]
   ELSE LET i == Code[c + 1] IN
        IF i.op = "j" THEN
             IF <<c, m>> \in seen THEN [st |-> "forever", out |-> o]
             ELSE IF <<c + 1, m>> \in H THEN DRun(H, i.a.v, m, o, seen \cup {<<c, m>>})
                  ELSE DRun(H, c + 1, m, o, seen \cup {<<c, m>>})
        ELSE DRun(H, c + 1, NextMem(c, m), IF i.op = "yield" THEN Append(o, i.a.w[1]) ELSE o, seen)

Yields == [k \in 1..Len(out) |-> out[k].v[1]]
OInit == MInit /\ m0 = mem
ONext == Step /\ UNCHANGED m0
OSpec == OInit /\ [][ONext]_ovars
\* A run that goes on forever is recognised at the first repeated state, which the two formulations meet at
\* different instructions of the loop: the finite prefixes they report must then be prefixes of one another.
PrefixOf(s, t) == Len(s) <= Len(t) /\ SubSeq(t, 1, Len(s)) = s
OracleAgree == status # "run" =>
                  LET d == DRun(Halts, 0, m0, <<>>, {}) IN
                  /\ d.st = status
                  /\ IF status = "forever" THEN PrefixOf(d.out, Yields) \/ PrefixOf(Yields, d.out) ELSE d.out = Yields
NoMachineFault == status # "fault"
=============================================================================
