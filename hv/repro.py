"""C18 (a) reproducible builds and (d) --lint rejects or leaves the code unchanged.

    from hv import repro
    res = repro.run(tier, seed)     # {'violations': [common.Violation], 'states', 'transitions', 'cases',
                                    #  'samples', 'traces_validated_against_impl', 'processes', ...}

(a) every (source, options) of the corpus is compiled in fresh interpreter processes started with different
    PYTHONHASHSEED values (0, 1, 12345 and a seeded random one): four batch processes that compile the whole
    corpus through the API, each in a different order (so position-in-process varies as well), and for the
    shipped examples additionally one `python -m hidc` process per (example, hash seed).
(d) the same with `--lint` / Environment.empty(unreachable_error=True).
Each (source, options) becomes one recording  start(repro) digest* [lint] end  validated by TLC against
spec/Driver.tla rule R11 (all digests equal; lint rejected or same digest).  TLA+ is bookkeeping here: Python's
hash randomisation is not modelled (DESIGN C18).  Python only records digests and labels TLC's rejections.
"""
import hashlib, json, os, random, subprocess, sys, time
from concurrent.futures import ThreadPoolExecutor

from . import common
from . import driver_cases as C, driver_run as R, driver_trace as DT

PROP = 'C18'
HASHSEEDS = ['0', '1', '12345']


# ------------------------------------------------------------------------- worker (fresh process)
def _outcome(src, m, s, unchecked, lint):
    H = R.hidc()
    try:
        env = H['Environment'].empty(unreachable_error=lint)
        H['parse'](H['SourceCode'].from_string(src)).evaluate(env)
        h = hashlib.sha1()
        for line in H['CodeGen'](env, m // 8, s, unchecked).gen_lines():
            h.update(line)
            h.update(b'\n')
        return 'ok:' + h.hexdigest()[:20]
    except H['CompilerError'] as e:
        return 'rej:%s:%s' % (type(e).__name__, hashlib.sha1(repr(R._spans(e)).encode()).hexdigest()[:8])
    except Exception as e:
        return 'crash:' + type(e).__name__


def _worker(jobfile):
    with open(jobfile) as f:
        jobs = json.load(f)
    out = {}
    for key, src, m, s, unchecked, lint in jobs:
        out[key] = _outcome(src, m, s, unchecked, lint)
    json.dump({'hashseed': os.environ.get('PYTHONHASHSEED'), 'flags_hash_randomization': sys.flags.hash_randomization,
               'probe': hash('hv-repro-probe') % 1000003, 'out': out}, sys.stdout)


def _spawn_batch(jobs, hashseed, workdir, tag):
    path = os.path.join(workdir, 'jobs_%s.json' % tag)
    with open(path, 'w') as f:
        json.dump(jobs, f)
    env = dict(os.environ)
    env['PYTHONHASHSEED'] = hashseed
    env['PYTHONDONTWRITEBYTECODE'] = '1'
    env['HV_REPO'] = common.REPO
    p = subprocess.run([sys.executable, '-m', 'hv.repro', '--worker', path], cwd=common.VERIF, env=env,
                       stdout=subprocess.PIPE, stderr=subprocess.PIPE, timeout=900)
    if p.returncode != 0:
        raise common.Machinery('repro worker failed (PYTHONHASHSEED=%s): %s' % (hashseed, p.stderr.decode()[-800:]))
    return json.loads(p.stdout.decode())


def _spawn_cli(src, o, hashseed, workdir, tag):
    """one real `python -m hidc` process; -> outcome string"""
    inp = os.path.join(workdir, tag + '.hid')
    outp = os.path.join(workdir, tag + '.s')
    with open(inp, 'w', encoding='utf-8') as f:
        f.write(src)
    argv = [sys.executable, '-m', 'hidc', inp, '-o', outp]
    if dict(o)['lint']:
        argv.append('--lint')
    p = subprocess.run(argv, cwd=workdir, env=R.cli_env(hashseed), stdout=subprocess.PIPE, stderr=subprocess.PIPE,
                       timeout=300)
    try:
        if p.returncode == 0 and os.path.exists(outp):
            with open(outp, 'rb') as f:
                return 'ok:' + hashlib.sha1(f.read()).hexdigest()[:20]
        if 'Traceback' in p.stderr.decode('utf-8', 'replace'):
            return 'crash:cli'
        return 'rej:cli:%d' % p.returncode
    finally:
        for q in (inp, outp):
            if os.path.exists(q):
                os.remove(q)


MIXED = '''empty show(const int[] a) { write("ints:"); write(a.length); }
empty show(const byte[] a) { write("bytes:"); write(a); }
empty show(const bool[] a) { write("bools:"); write(a.length); }
empty fin() { write("bye"); all_is_broken(); }
empty fin(int code) { if (code > 0) { write(code); all_is_broken(); } write("ok"); }
empty @is_you(int v, byte b) {
  show([72, 'i']); show(['i', 72]); show([b, 1]); show([1, b, 2]); show([v, b]); show([true, v > 0]);
  write([72, 'i'].length); write(['a', 66][1]); write([b, 300 - 255][0] is int);
  int[] m = [b, 'c', 3]; byte[] n = ['x', 9]; write(m[1]); write(n);
  fin(v); fin();
}'''


# globals that nothing refers to (still laid out, in declaration order), next to referenced ones, of every type
UNREFERENCED = '''int unused_a = 1; byte unused_b = 'b'; bool unused_c = true; string unused_d = "dd"; int used_e = 5;
const int[] unused_f = [1, 2, 3]; byte[] unused_g = ['g', 'h']; string[] unused_h = ["h1", "h2"]; int unused_i = 9; bool[] unused_j = [true, false, true];
const string unused_k = "kk"; int used_l = 7; int zz_unused = 3; int aa_unused = 4; int mm_unused = 5;
int helper_unused(int q) { return q + unused_i; }
empty @is_you(int v) { write(used_e + used_l + v); }'''


# ------------------------------------------------------------------------- driver
def corpus(tier, seed):
    rng = random.Random(seed)
    progs = C.examples() + C.codegen_programs() + C.generated_programs(rng, 4 if tier == 'quick' else 10) \
        + C.OPTION_PROGRAMS
    # programs of the run-time families: many hash-ordered decisions hide in type inference and table building
    from . import gen as G, fam_seq, fam_tt
    progs += [('misc_' + n, src) for n, src, _ in fam_seq.MISC] + [('layout', fam_seq.LAYOUT_PROG)]
    progs += [('mixed_literals', MIXED), ('unreferenced_globals', UNREFERENCED)] + [('tt_' + n, (t % {'kind': 'stop'}) if '%(kind)s' in t else t) for n, t, _ in fam_tt.TEMPLATES]
    progs += [('gen%d' % k, G.generate(seed * 811 + k, {'faults': 0.1})[0]) for k in range(12 if tier == 'quick' else 120)]
    progs += [('ttgen%d' % k, fam_tt.TTGen(seed * 811 + k).program()) for k in range(4 if tier == 'quick' else 40)]
    keys = []
    for label, src in progs:
        keys.append((label, src, R.opts()))
    for label, src in progs[:9] + progs[-8:]:
        keys.append((label, src, R.opts(m=24, unchecked=True)))
        keys.append((label, src, R.opts(m=64, s=50)))
    return keys


def run(tier='quick', seed=0):
    t0 = time.time()
    work = common.scratch('hv_repro_')
    try:
        rng = random.Random(seed)
        seeds = HASHSEEDS + [str(rng.randrange(2, 2 ** 32 - 1))]
        if tier != 'quick':
            seeds += [str(rng.randrange(2, 2 ** 32 - 1)) for _ in range(4)]
        keys = corpus(tier, seed)
        jobs = []
        for idx, (label, src, o) in enumerate(keys):
            od = dict(o)
            jobs.append(['%d:plain' % idx, src, od['m'], od['s'], od['unchecked'], False])
            jobs.append(['%d:lint' % idx, src, od['m'], od['s'], od['unchecked'], True])
        examples = [(idx, k) for idx, k in enumerate(keys) if k[0].startswith('examples/') and k[2] == R.opts()]
        results = {}
        cli_results = {}
        with ThreadPoolExecutor(max_workers=common.NPROC) as ex:
            futs = []
            for n, hs in enumerate(seeds):
                order = list(jobs)
                random.Random(seed * 31 + n).shuffle(order)
                futs.append((hs, ex.submit(_spawn_batch, order, hs, work, 'b%d' % n)))
            cfuts = []
            for idx, (label, src, o) in examples:
                for n, hs in enumerate(seeds[:4]):
                    cfuts.append((idx, hs, False, ex.submit(_spawn_cli, src, R.opts(), hs, work, 'e%d_%d' % (idx, n))))
                cfuts.append((idx, seeds[0], True, ex.submit(_spawn_cli, src, R.opts(lint=True), seeds[0], work,
                                                             'l%d' % idx)))
            probes = set()
            for hs, f in futs:
                res = f.result()
                if res['hashseed'] != hs:
                    raise common.Machinery('worker did not run under PYTHONHASHSEED=%s' % hs)
                probes.add(res['probe'])
                results[hs] = res['out']
            for idx, hs, lint, f in cfuts:
                cli_results.setdefault((idx, lint), []).append((hs, f.result()))
        if len(probes) < 2:
            raise common.Machinery('string hashes do not differ between the worker processes')
        # recordings
        recs, meta = [], {}
        n_digests = 0
        for idx, (label, src, o) in enumerate(keys):
            evs = [R.ev('start', 'repro', 0, o, '')]
            for hs in seeds:
                evs.append(R.ev('digest', '', 0, (), results[hs]['%d:plain' % idx]))
                n_digests += 1
            api0 = results[seeds[0]]['%d:plain' % idx]
            for hs, outc in cli_results.get((idx, False), []):
                # the command line shows a rejection only as exit status 1: same outcome class as the API's
                x = api0 if (outc.startswith('rej:') and api0.startswith('rej:')) else outc
                evs.append(R.ev('digest', '', 0, (), x))
                n_digests += 1
            lint_outs = [results[hs]['%d:lint' % idx] for hs in seeds] + \
                        [outc for hs, outc in cli_results.get((idx, True), [])]
            for lo in lint_outs:
                evs.append(R.ev('lint', 'rejected' if lo.startswith('rej:') else 'ok' if lo.startswith('ok:') else 'crashed',
                                0, (), lo))
                n_digests += 1
            evs.append(R.ev('end'))
            recs.append((idx + 1, tuple(evs)))
            meta[idx + 1] = (label, src, o, evs)
            # reproducibility of the lint build itself (a): its digests among themselves
            evs2 = [R.ev('start', 'repro', 0, R.opts(**dict(o, lint=True)), '')]
            for hs in seeds:
                evs2.append(R.ev('digest', '', 0, (), results[hs]['%d:lint' % idx]))
            evs2.append(R.ev('end'))
            rid = len(keys) + idx + 1
            recs.append((rid, tuple(evs2)))
            meta[rid] = (label + ' --lint', src, R.opts(**dict(o, lint=True)), evs2)
        V = DT.validate(recs, work, timeout=600, coverage=True)
        # an accepted recording has taken Start, Digest (once per digest event), Lint (per lint event) and End
        if not V.accepted or V.coverage.get('Step', (0, 0))[1] == 0:
            raise common.Machinery('no repro recording was accepted: Digest/Lint/End never taken')
        viols = []
        for rid, reasons in sorted(V.rejected.items()):
            pos, clause, kind, _ = DT.best_reason(reasons)
            label, src, o, evs = meta[rid]
            cl = {'kind': clause, 'program': label.split(' ')[0]}
            viols.append(common.Violation(PROP, '%s: %s %s: outcomes %s' % (
                clause, label, {k: v for k, v in dict(o).items() if k in ('m', 's', 'unchecked', 'lint')},
                [e[4] for e in evs if e[0] in ('digest', 'lint')][:9]), cl,
                {'label': label, 'source': src, 'options': dict(o), 'hashseeds': seeds,
                 'events': [list(e[:2]) + [e[4]] for e in evs], 'position': pos}))
        lint_rejected = sum(1 for idx in range(len(keys)) if results[seeds[0]]['%d:lint' % idx].startswith('rej:')
                            and results[seeds[0]]['%d:plain' % idx].startswith('ok:'))
        samples = [{'program': meta[r][0], 'options': dict(meta[r][2]), 'events': [list(e[:2]) + [e[4]] for e in meta[r][3]][:8]}
                   for r in (1, len(keys) // 2, len(keys))]
        return {'violations': viols, 'states': V.states, 'transitions': V.transitions,
                'cases': len(recs), 'traces_validated_against_impl': len(recs), 'digests_compared': n_digests,
                'processes': len(seeds) + sum(len(v) for v in cli_results.values()), 'hashseeds': seeds,
                'programs': len(keys), 'lint_rejected_programs': lint_rejected,
                'accepted': len(V.accepted), 'rejected': len(V.rejected),
                'action_counts': {k: v[1] for k, v in V.coverage.items()},
                'tlc_wall_s': round(V.wall, 1), 'wall_s': round(time.time() - t0, 1), 'samples': samples}
    finally:
        common.rm(work)


def main(argv=None):
    import argparse
    ap = argparse.ArgumentParser()
    ap.add_argument('--worker', default=None)
    ap.add_argument('--tier', default='quick', choices=['quick', 'thorough'])
    ap.add_argument('--seed', type=int, default=common.seed_from_env())
    a = ap.parse_args(argv)
    if a.worker:
        _worker(a.worker)
        return 0
    res = run(a.tier, a.seed)
    for v in res['violations']:
        print('VIOLATION-CANDIDATE property=%s %s' % (PROP, v.what[:300]))
    print('repro: %d recordings (%d programs x options), %d digests from %d processes, TLC %d states / %d transitions, '
          '%d accepted, %d rejected, %d programs rejected by --lint only, wall %.1fs' % (
              res['cases'], res['programs'], res['digests_compared'], res['processes'], res['states'],
              res['transitions'], res['accepted'], res['rejected'], res['lint_rejected_programs'], res['wall_s']))
    return 1 if res['violations'] else 0


if __name__ == '__main__':
    common.main_wrapper(main)
