"""pytest plugin: while the upstream tests/test_codegen.py run on the verification VM (shim `spasm`), record
every (source, options, argument vector) they compile and run.  Output: JSON lines in $HV_UPSTREAM_OUT."""
import json, os, sys

_records = []
_last = {}


def pytest_collection_modifyitems(session, config, items):
    mod = sys.modules.get('tests.test_codegen') or sys.modules.get('test_codegen')
    if mod is None:
        return
    orig_compile = mod.compile
    orig_make = mod.make_emulator

    def compile(source, word_size=2, stack_size=500, unchecked=False, **options):
        lines = orig_compile(source, word_size=word_size, stack_size=stack_size, unchecked=unchecked, **options)
        _last[id(lines)] = {'source': source, 'w': word_size, 's': stack_size, 'unchecked': unchecked,
                            'options': options}
        _last['keep_%d' % id(lines)] = lines
        return lines

    def make_emulator(lines, args=()):
        meta = _last.get(id(lines))
        if meta is not None:
            _records.append(dict(meta, args=[a if isinstance(a, str) else a.decode('latin-1') for a in args],
                                 test=os.environ.get('PYTEST_CURRENT_TEST', '').split(' ')[0]))
        return orig_make(lines, args)

    mod.compile = compile
    mod.make_emulator = make_emulator


def pytest_sessionfinish(session, exitstatus):
    out = os.environ.get('HV_UPSTREAM_OUT')
    if out:
        with open(out, 'w') as f:
            for r in _records:
                f.write(json.dumps(r) + '\n')
