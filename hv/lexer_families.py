"""C12 helper: the input families (DESIGN section 5, C12).  Pure generators of source texts; nothing here
says what the lexer should answer.  Every random choice comes from the `rng` passed in."""
import glob, itertools, os
from . import common

# 22 characters that reach every reader boundary within 3-4 characters:
#   a b x o r  identifiers, hex digits a b, prefixes 0x 0b 0o, keyword `or`, escapes \a \b \r
#   1 0 _      digits and the separator
#   + = ! < ? /  one/two-character symbols, flavour `!`, comment `//`
#   " ' \ @    literals, escapes, flavour `@`
#   space LF   layout;  e-acute  non-ASCII;  (  a symbol that never combines
ALPHA = 'a10_xbor+=!<?/"\'\\@ \n\u00e9('
assert len(ALPHA) == 22 and len(set(ALPHA)) == 22

# for longer random strings: adds what \u{..} \xHH \n \t \f . - ; { } tab CR and upper case need
ALPHA2 = ALPHA + 'u{}fntF9.-;\t\r>%*,[]'

KEYWORDS = ['and', 'bool', 'break', 'byte', 'const', 'continue', 'else', 'empty', 'false', 'for', 'if', 'int',
            'is', 'not', 'or', 'preempt', 'return', 'stop', 'string', 'true', 'try', 'undo', 'while']
SYMBOLS = ['==', '!=', '<=', '>=', '??', '+=', '-=', '*=', '/=', '%=',
           '+', '-', '*', '/', '%', '<', '>', '=', ';', ',', '.', '(', ')', '{', '}', '[', ']']
SOLID = set('(){}[];,')          # symbols that never combine with a neighbour


def exhaustive(maxlen, alphabet=ALPHA):
    for n in range(0, maxlen + 1):
        for tup in itertools.product(alphabet, repeat=n):
            yield ''.join(tup)


def random_strings(rng, count, lo, hi, alphabet=ALPHA2):
    for _ in range(count):
        n = rng.randint(lo, hi)
        yield ''.join(rng.choice(alphabet) for _ in range(n))


FRAGMENTS = ['"', "'", '\\', '\\x', '\\u{', '}', '\\n', '\\0', '\\"', "\\'", '\\\\', '0x', '0b', '0o', '0', '1', '7',
             '8', '9', 'f', 'F', 'g', '_', '__', '1_', '_1', '//', '/', '/=', '=', '==', '!', '!=', '@', '?', '??',
             '<', '<=', '+', '+=', ' ', '\n', '\t', '\r\n', 'a', 'if', 'is', 'or', 'not', 'x', 'é', '\u0663',
             '\U0001f4a9', '(', ')', ';', '.', ',', '-', '41', 'ff', 'd800', '10ffff', '110000', 'true', '@a', '!b']


def fragment_strings(rng, count, lo=2, hi=7):
    for _ in range(count):
        yield ''.join(rng.choice(FRAGMENTS) for _ in range(rng.randint(lo, hi)))


def ascii_pairs(full):
    """all strings of length 1 (always) and 2 (thorough) over the 128 ASCII characters"""
    chars = [chr(i) for i in range(128)]
    for a in chars:
        yield a
    if full:
        for a in chars:
            for b in chars:
                yield a + b
    else:
        keys = '0x_!@=/"\'\\ \n?\x7f'
        for a in keys:
            for b in chars:
                yield a + b
                yield b + a


# ---------------------------------------------------------------------------------------------- (b) integers
BASES = [('', '0123456789', 'a'), ('0x', '0123456789abcdefABCDEF', 'g'), ('0o', '01234567', '8'),
         ('0b', '01', '2')]


def int_literals(rng, thorough):
    out = []
    for prefix, digits, bad in BASES:
        for n in range(1, 6):
            pats = [list(p) for p in itertools.product(['', '_'], repeat=n - 1)]
            for g in range(n - 1):                       # one doubled separator
                p = [''] * (n - 1)
                p[g] = '__'
                pats.append(p)
            for pat in pats:
                reps = 3 if thorough else 2
                for r in range(reps):
                    ds = [rng.choice(digits) for _ in range(n)]
                    if r == 0:
                        ds = [digits[-1] if prefix != '0x' else 'f'] * n          # the largest digit
                    body = ds[0] + ''.join(pat[i] + ds[i + 1] for i in range(n - 1))
                    out.append(prefix + body)
                    if r == 1:
                        out.append(prefix + '_' + body)                           # separator after the prefix
                        out.append(prefix + body + '_')                           # trailing separator
                        out.append(prefix + body + '_' + bad)                     # separator then a non-digit
                        k = rng.randrange(n)
                        ds2 = list(ds)
                        ds2[k] = bad                                              # a digit outside the base
                        out.append(prefix + ds2[0] + ''.join(pat[i] + ds2[i + 1] for i in range(n - 1)))
        out += [prefix, prefix + '_', prefix + bad, prefix.upper() + '1', prefix + '0' * 7 + '1',
                prefix + '1 ' + prefix + '1', prefix + '1//c', prefix + '1.', prefix + '1(', prefix + "1'a'",
                prefix + '1"s"', prefix + '1@a', prefix + '1!a', prefix + '1!=1', '-' + prefix + '1']
    # values around the powers of two that matter, in every base, with and without separators
    fmt = {'': '%d', '0x': '%x', '0o': '%o', '0b': None}
    for e in (7, 8, 15, 16, 31, 32, 63, 64, 127, 128):
        for d in (-2, -1, 0, 1, 2):
            v = (1 << e) + d
            for prefix, _, _ in BASES:
                body = bin(v)[2:] if prefix == '0b' else fmt[prefix] % v
                out.append(prefix + body)
                # seeded separators between digits
                parts = [body[0]]
                for ch in body[1:]:
                    parts.append(('_' if rng.random() < 0.4 else '') + ch)
                out.append(prefix + ''.join(parts))
                if prefix == '0x':
                    out.append(prefix + body.upper())
    out += ['1' * 100, '9' * 50 + '_' + '0' * 50, '0x' + 'f' * 64, '0b' + '1' * 200, '0o' + '7' * 70,
            '0' * 40, '0_0', '00', '007', '0x00ff', '0b0', '0o0', '1e5', '1E5', '0xe', '0b1b', '0o1o', '0x1x',
            '1_000_000', '0x_ff', '0b__1', '12 34', '12\n34', '12_\n34', '0\n x1', '0 x1', '0b 1']
    return out


# ---------------------------------------------------------------------------------------------- (c) escapes
SIMPLE = 'abfnrt0\'"\\'
BOUNDARY = [0x0, 0x1, 0x9, 0x20, 0x22, 0x27, 0x41, 0x5c, 0x7e, 0x7f, 0x80, 0x81, 0xbf, 0xc0, 0xff, 0x100, 0x7ff,
            0x800, 0x801, 0xfff, 0x1000, 0xd7ff, 0xd800, 0xd801, 0xdbff, 0xdc00, 0xdfff, 0xe000, 0xfffd, 0xfffe,
            0xffff, 0x10000, 0x10001, 0x1f4a9, 0xfffff, 0x100000, 0x10fffe, 0x10ffff, 0x110000, 0x110001,
            0x1fffff, 0x200000, 0xffffff, 0x7fffffff, 0x80000000, 0xffffffff, 0x100000000, 1 << 63, 1 << 64]


def escapes(rng, thorough):
    out = []
    for q in ('"', "'"):
        for v in range(256):                                                      # all 256 \xHH
            h = '%02x' % v
            out.append(q + '\\x' + h + q)
            out.append(q + '\\x' + (h.upper() if v % 2 else h[0].upper() + h[1]) + q)
        for c in SIMPLE:                                                          # every simple escape
            out.append(q + '\\' + c + q)
        for v in range(32, 127):                                                  # "\" + every printable
            out.append(q + '\\' + chr(v) + q)
        for v in list(range(0, 32)) + [127]:                                      # "\" + control characters
            if v != 10:
                out.append(q + '\\' + chr(v) + q)
        for v in range(0, 256):                                                   # raw characters
            if v != 10:
                out.append(q + chr(v) + q)
        for v in BOUNDARY:                                                        # \u{...} and raw
            out.append(q + '\\u{%x}' % v + q)
            out.append(q + '\\u{%X}' % v + q)
            out.append(q + '\\u{000%x}' % v + q)
            if v <= 0x10ffff and not 0xd800 <= v <= 0xdfff and v != 10:
                out.append(q + chr(v) + q)
                out.append(q + 'a' + chr(v) + 'b' + q)
        for bad in ['\\u', '\\u{', '\\u{}', '\\u{41', '\\u41', '\\u{g}', '\\u{ 41}', '\\u{41 }', '\\u{4_1}', '\\u}',
                    '\\U{41}', '\\u{-1}', '\\u{+41}', '\\u{0x41}', '\\x', '\\x4', '\\x4g', '\\xg4', '\\X41', '\\x 41',
                    '\\x4 1', '\\', '\\\\\\', '\\x\u0663\u0663', '\\x4\u0663', '\\u{\u0663}', '\\u{4\u0663}',
                    '\\x41\\x42', '\\n\\n', 'a\\', '\\u{41}\\u{42}', '\\u{0}', '\\u{00000000000000000041}',
                    '\\u{' + 'f' * 30 + '}']:
            out.append(q + bad + q)
            out.append(q + bad)
        out += [q, q + q, q + q + q, q + 'a', q + 'ab' + q, q + 'a' + q + q, q + '\n' + q, q + 'a\n' + q,
                q + ' ' + q, q + '\t' + q, q + '//' + q, q + '/' + q + '/', q + '// x' + q + ' // y',
                'a' + q + 'b' + q + 'c', q + 'a' + q + q + 'b' + q, q + 'é' + q, q + 'ü' + q, q + '\U0001f4a9' + q,
                q + 'a' + q + '1', '1' + q + 'a' + q]
    out += ['"\'"', "'\"'", '"\\\'"', "'\\\"'", '"a\'b\'c"', "'\\''", "'''", "''''", '"""', '"a""b"', "'a''b'",
            '"\\x00\\x01\\xfe\\xff"', '"\\0\\0"', '"Hello \\u{1F30E}"', '"tab\there"', '"cr\rhere"',
            '"\u00e9\u20ac\U00010348"', '"\\u{e9}\\u{20ac}\\u{10348}"', '"\ufeff"', '"\u2028"', '"\x85"']
    for _ in range(4000 if thorough else 300):                                   # arbitrary Unicode scalar values
        v = rng.choice([rng.randrange(0x80, 0x800), rng.randrange(0x800, 0x10000), rng.randrange(0x10000, 0x110000),
                        rng.randrange(0, 0x110000)])
        if 0xd800 <= v <= 0xdfff or v == 10:
            continue
        out.append('"' + chr(v) + '"')
        out.append('"\\u{%x}"' % v)
        out.append("'\\u{%x}'" % v)
    n = 3000 if thorough else 400
    items = (['\\' + c for c in SIMPLE] + ['\\x%02x' % v for v in (0, 1, 0x7f, 0x80, 0xff)] +
             ['\\u{%x}' % v for v in (0x41, 0x7f, 0x80, 0x7ff, 0x800, 0xffff, 0x10000, 0x10ffff)] +
             list('az09 _/@!?=<+(') + ['é', '\u07ff', '\u0800', '\uffff', '\U00010000', '\U0010ffff', "'", '//'])
    for _ in range(n):                                                            # seeded mixed strings
        body = ''.join(rng.choice(items) for _ in range(rng.randint(0, 8)))
        out.append('"' + body + '"')
        if rng.random() < 0.3:
            out.append('x = "' + body + '" ; y')
    return out


# ---------------------------------------------------------------------------------------------- (d) words
def words(rng, thorough):
    out = []
    for kw in KEYWORDS:
        for pre in ('', '@', '!', '@@', '!!', '!@', '@ ', '! ', '_', 'x', '1', '1 ', '@_', '!x'):
            for suf in ('', 'x', '_', '1', ' ', '(', ' x', '=', '!', '@', '.', '"s"', "'c'", '//c', '\n', '!=1',
                        '\u00e9'):
                out.append(pre + kw + suf)
        out += [kw.upper(), kw.capitalize(), kw[:-1], kw + kw, kw + ' ' + kw, kw + '\n' + kw, kw[0] + '_' + kw[1:],
                kw[:1] + ' ' + kw[1:]]
    idents = ['a', 'Z', '_', '__', '_1', 'a1', 'a_b', 'is_you', 'is_defeat', 'iff', 'ifelse', 'i', 'x9_', 'A_Z09',
              'potato42', 'forever', 'truefalse', 'o', 'b', 'x', 'b_0', 'x1F', 'e5']
    for name in idents:
        for pre in ('', '@', '!', '@!', '!=', '!= !', '! =', '?', '??', '-', '0', '0 '):
            out.append(pre + name)
        out += [name + '@' + name, name + '!' + name, name + '!=' + name, name + '.' + name, name + ' ' + name,
                name + '(' + name + ')', '@' + name + '!' + name, name + '\u00e9', '@' + name + '\u0663']
    out += ['@', '!', '@1', '!1', '@=', '!==', '@@', '!!', '@ a', '! a', '@\na', '!\na', '@"s"', "!'c'", '@(', '!(',
            '@//', '!//', '@_', '!_', '#', '$', '`', '~', '^', '&', '|', ':', '?', '? ?', '?\n?', '???', '????',
            'a ?? b', 'a?b', '\x00', '\x1c', '\x7f', '\u00a0', '\u2028', '\u3000', '\ufeff', 'a\u00a0b', 'a\x1cb',
            '\u0663', '1\u0663', '1_\u0663', '0x\u0663', 'a\u0663', '\u00e9', '\u00e9a', 'a \u00e9', '// \u00e9\na',
            '"\u00e9" a', '//', '// c', '//\n', '/ /', '/\n/', '///', '/ // /', 'a//b\nc', 'a/ /b', 'a /= b // c',
            '/=/', '//=', '/ =', '\r', '\r\n', 'a\rb', 'a\r\nb', '// c\ra', '\x0b', '\x0c', 'a\x0bb\x0cc', '\t\ta',
            ' ', '\n', '\n\n', ' \n ', '', 'a', ' a', 'a ', '\na', 'a\n', '\n a \n']
    for a in SYMBOLS:                                                             # longest match on every pair
        out.append(a)
        for b in SYMBOLS:
            out.append(a + b)
            if thorough:
                out.append(a + ' ' + b)
    small = '=<>!?+-/*%'
    for t in itertools.product(small, repeat=3):
        out.append(''.join(t))
    if thorough:
        for t in itertools.product('=<!?+/', repeat=4):
            out.append(''.join(t))
    return out


# ---------------------------------------------------------------------------------------------- (e) layout
COMMENTS = ['//', '// c', '//c', '// "x" \' \\ \u00e9 // more', '/// x', '// if (a) { b; }', '//\t', '// \\',
            '// "', "// '", '// a \r b', '//\U0001f4a9']
BLANKS = [' ', '  ', '\t', ' \t ', '\r', '\x0b', '\x0c', '      ']
BREAKS = ['\n', '\n\n', '\r\n', ' \n', '\n ', ' \n\t', '\n\n\n  ', '\r\n\r\n']


def gap(rng, must, after_slash=False):
    """a seeded piece of layout; non-empty when `must`"""
    r = rng.random()
    if r < 0.15 and not must:
        g = ''
    elif r < 0.45:
        g = rng.choice(BLANKS)
    elif r < 0.75:
        g = rng.choice(BREAKS)
    else:
        g = rng.choice(['', ' ', '\t', '  ']) + rng.choice(COMMENTS) + rng.choice(['\n', '\r\n', '\n  ', '\n\n'])
        if rng.random() < 0.3:
            g += rng.choice(COMMENTS) + '\n' + rng.choice(['', ' ', '\t'])
    if must and g == '':
        g = ' '
    if after_slash and g.startswith('/'):
        g = ' ' + g
    return g


def render(rng, texts, glued, style='random'):
    """texts = token texts; glued[i] = True when token i+1 may follow token i without layout.
    Layout goes between tokens, never inside."""
    if style == 'spaces':
        parts = []
        for i, t in enumerate(texts):
            parts.append(t)
            if i + 1 < len(texts):
                parts.append(' ')
        return ''.join(parts)
    if style == 'lines':                 # every token at column 0 of its own line, no final newline
        return '\n'.join(texts)
    if style == 'crlf':
        return '\r\n'.join(texts) + '\r\n'
    if style == 'comments':              # a comment ends every line that ends a token
        return ''.join(t + (' ' if t.endswith('/') else '') + '// ' + t + '\n' for t in texts)
    if style == 'tight':                 # no layout wherever the original had none, else one space
        parts = []
        for i, t in enumerate(texts):
            parts.append(t)
            if i + 1 < len(texts) and not glued[i]:
                parts.append(' ')
        return ''.join(parts)
    parts = [gap(rng, False) if rng.random() < 0.6 else '']
    for i, t in enumerate(texts):
        parts.append(t)
        if i + 1 < len(texts):
            parts.append(gap(rng, not glued[i], after_slash=t.endswith('/')))
    tail = rng.random()
    if tail < 0.3:
        parts.append(gap(rng, False, after_slash=bool(texts) and texts[-1].endswith('/')))
    elif tail < 0.45:
        parts.append((' ' if texts and texts[-1].endswith('/') else '') + rng.choice(COMMENTS))   # comment, no LF
    return ''.join(parts)


STYLES = ['lines', 'crlf', 'comments', 'tight']


def split_tokens(src, toks):
    """token texts and adjacency of a source, from the spans of a recording (which the trace check
    validates for this very source)"""
    lines = src.split('\n')
    texts, glued = [], []
    prev = None
    for t in toks:
        sl, sc, el, ec = t[2], t[3], t[4], t[5]
        if sl != el or not (0 <= sl < len(lines)) or not (0 <= sc < ec <= len(lines[sl])):
            return None, None
        texts.append(lines[sl][sc:ec])
        if prev is not None:
            glued.append(prev == (sl, sc))
        prev = (el, ec)
    return texts, glued


def example_sources():
    out = []
    for p in sorted(glob.glob(os.path.join(common.REPO, 'examples', '*.hid'))):
        with open(p, encoding='utf-8') as f:
            out.append((os.path.basename(p), f.read()))
    return out


VOCAB_IDENT = ['x', 'y', 'foo_1', '_', 'iff', 'Int', 'i', 'args', 'length', 'write', 'a9', 'or_', 'xor', 'b0', 'x1F', 'e5']
VOCAB_FLAV = ['@is_you', '!is_defeat', '@f', '!g2', '@_', '!truely']
VOCAB_INT = ['0', '1', '42', '1_000', '0xff', '0xFF_ff', '0o17', '0b1010', '0b1_0', '65535', '2147483648',
             '18446744073709551616', '007', '0x0', '9_9']
VOCAB_STR = ['""', '"a"', '"Hello world!"', '"// not a comment"', '"a\'b"', '"\\""', '"\\\\"', '"\\n\\t\\0"',
             '"\\xff\\x00"', '"\\u{1F30E}"', '"\u00e9\u20ac"', '"  spaced  "', '"/"', '"@!"', '"1_0"']
VOCAB_CHR = ["'a'", "'\\n'", "'\\''", "'\"'", "'/'", "'\\x7f'", "'\\xff'", "' '", "'\\\\'", "'\\u{41}'", "'0'"]


def token_sequences(rng, count, lo=3, hi=40):
    """-> list of (texts, glued): generated token sequences; two neighbours may be glued only when one
    of them is a bracket, `;` or `,`"""
    vocab = [(VOCAB_IDENT, 5), (KEYWORDS, 4), (VOCAB_FLAV, 2), (VOCAB_INT, 3), (VOCAB_STR, 2), (VOCAB_CHR, 2),
             (SYMBOLS, 8)]
    pools = [p for p, w in vocab for _ in range(w)]
    out = []
    for _ in range(count):
        n = rng.randint(lo, hi)
        texts = [rng.choice(rng.choice(pools)) for _ in range(n)]
        glued = [(texts[i] in SOLID or texts[i + 1] in SOLID) and rng.random() < 0.7 for i in range(n - 1)]
        out.append((texts, glued))
    return out
