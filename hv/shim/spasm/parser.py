"""Stand-in for the Sphinx emulator's `spasm.parser` backed by the verification assembler (hv.sasm)."""
from hv import sasm


class Parser:
    def __init__(self, args=()):
        self.args = list(args)
        self.lines = []

    def parse_lines(self, lines):
        self.lines += list(lines)

    def get_program(self):
        return sasm.Program(self.lines, self.args)
