------------------------------- MODULE Refine -------------------------------
(* Compiled code refines the source (DESIGN 2.5).  One behaviour per case: first the Sphinx machine runs   *)
(* the REAL compiler output for the case (SphinxRT, all monitors evaluated in every state), then the      *)
(* source-level machine HiDSem runs the same program on the same input; when both have finished the       *)
(* observables are compared:                                                                             *)
(*      Agree == Obs(sphinx out, sphinx status) = Obs(hid out, hid status)                                *)
(* Each behaviour reports once through PrintT (one TLC run judges the whole batch).  A behaviour cut by   *)
(* the fuel constraint, or a source run that leaves the defined envelope (status undef / toobig), is     *)
(* inconclusive - counted, never a verdict.                                                              *)
EXTENDS SphinxRT, HiDSem
CONSTANT MaxLevel
VARIABLE phase          \* "m" machine running, "h" source machine running, "done" reported
vars == <<mvars, rvars, hvars, phase>>

MDone == status # "run" \/ alarm # ""
HDone == h.st # "run"
HObs == Obs(h.out, IF h.st = "ended" THEN "ended" ELSE h.st)
MObs == Obs(out, status)
Conclusive == alarm = "" /\ h.st \in {"ended", "forever", "halted"}
Agree == MObs = HObs
\* the machine stopped with the stack_overflow error although the source semantics did not ask for it: the
\* stack was too small for this run (outside the semantic envelope; judged by C04's differential clause)
EndsInOverflow(o) == Len(o.ev) >= 2 /\ o.ev[Len(o.ev) - 1] = [k |-> "f", v |-> <<5>>] /\ o.ev[Len(o.ev)] = [k |-> "f", v |-> <<2>>]
Exhausted == EndsInOverflow(MObs)          \* (only consulted when the observables differ)
PrefixOK == LET n == Len(MObs.ev) - 2 IN n <= Len(HObs.ev) /\ SubSeq(MObs.ev, 1, n) = SubSeq(HObs.ev, 1, n)
Class == IF ~Conclusive THEN "inconclusive"
         ELSE IF Agree THEN "agree"
         ELSE IF Exhausted THEN (IF PrefixOK THEN "exhausted_prefix" ELSE "exhausted_other")
         ELSE "differ"
Verdict == [halted |-> ~NoRealHalt, fault |-> ~NoFault, alarm |-> alarm]

\* State size is what TLC pays for at every step (fingerprinting walks the whole state): while the machine runs the
\* source machine does not exist yet (its initial record holds the whole program as a continuation), and when the source
\* machine starts, the history the Sphinx machine needed for backtracking and for the monitors is dropped - only what the
\* report reads (out, status, pc, alarm) is kept.
HIdle == [st |-> "idle"]
Init == /\ RTInit /\ hcase = Progs[prog].inits[inp].hcase /\ h = HIdle /\ phase = "m"
Next == \/ phase = "m" /\ ~MDone /\ RTStep /\ UNCHANGED <<hvars, phase>>
        \/ /\ phase = "m" /\ MDone /\ phase' = "h"
           /\ h' = HInitRec(hcase) /\ UNCHANGED hcase
           /\ choices' = <<>> /\ trail' = <<>> /\ anchors' = <<>> /\ snaps' = <<>> /\ mem' = <<>>
           /\ shstack' = <<>> /\ sh' = [sh EXCEPT !.tags = <<>>, !.arrays = <<>>, !.acts = <<>>, !.marks = {}, !.trys = <<>>, !.gd = <<>>]
           /\ UNCHANGED <<prog, inp, pc, out, status, tstep, alarm>>
        \/ phase = "h" /\ ~HDone /\ HStep /\ UNCHANGED <<mvars, rvars, phase>>
        \/ /\ phase = "h" /\ HDone /\ phase' = "done"
           /\ PrintT(ToString(<<"HV", "R", prog, inp, Verdict, status, pc, TLCGet("level"), h.st,
                                Class, h.wrap,
                                IF Class = "agree" THEN <<MObs>> ELSE <<MObs, HObs>> >>))
           /\ UNCHANGED <<mvars, rvars, hvars>>
Spec == Init /\ [][Next]_vars
Fuel == TLCGet("level") <= MaxLevel
=============================================================================
