------------------------------- MODULE Driver -------------------------------
(***************************************************************************)
(* The protocol of ONE compilation by `hidc`, as a state machine over the  *)
(* events a harness can record from the real code.  Three ways of driving  *)
(* the real code produce traces of this machine (field `mode` of `start`): *)
(*                                                                         *)
(*   "api"  the harness itself calls SourceCode.from_string, parse,        *)
(*          Program.evaluate, CodeGen(...), list(gen_lines()) in-process;  *)
(*   "main" hidc.__main__.main() is called in-process with probes on the   *)
(*          names it uses (SourceCode, parse, CodeGen, open, get_info);    *)
(*          every event below is visible;                                  *)
(*   "cli"  the real command line `python -m hidc ...` in a subprocess,    *)
(*          black box: only start, stderr, stdout, exit and the post-hoc   *)
(*          facts are visible, the phase events are hidden (tau) steps;    *)
(*   "repro" bookkeeping for C18 (a)/(d): digests of repeated builds.      *)
(*                                                                         *)
(* An event is a record [k, r, n, s, x]:  k kind, r result, n a number,    *)
(* s a sequence (spans <<l1,c1,l2,c2>>, or line lengths for `read`, or the *)
(* option record for `start`), x a string (exception type / digest).       *)
(*                                                                         *)
(* RULES (source of each)                                                  *)
(*  R1  args      -m must be a non-negative multiple of 8, otherwise usage *)
(*                error, exit status 2          (__main__.main, argparse)  *)
(*  R2  read      an unreadable input (missing, a directory) is reported   *)
(*                as a usage error, exit 2      (__main__.main: OSError)   *)
(*                an undecodable input must be REPORTED: SourceCode.       *)
(*                from_file may raise ("decode_error") provided main()     *)
(*                turns it into a usage error or a diagnostic, or a fix    *)
(*                may decode leniently and compile; a traceback is never   *)
(*                legal                         (property C10)             *)
(*  R3  phases    parse -> check -> codegen (CodeGen constructor) each end *)
(*                "ok" or "error" = CompilerError all of whose spans lie   *)
(*                inside the source; "escape" (any other exception type)   *)
(*                is never legal                (property C10)             *)
(*  R4  located   span <<l1,c1,l2,c2>>: 0 <= l < number of lines,          *)
(*                0 <= c <= len(line l), start <= end.  An error without   *)
(*                spans (program-level: no entry point, word/stack size)   *)
(*                is legal: CodeGenError(..., ()) in generator.py          *)
(*  R5  render    err.get_info(source) returns             (property C10)  *)
(*  R6  output    the output file is opened only after code generation     *)
(*                succeeded; once opened every generated line is written   *)
(*                and the file closed; a CompilerError after `open` is not *)
(*                legal (it would leave a partial file with exit # 0)      *)
(*                                 (property C10: "leaves no output file") *)
(*  R7  exit      0 after success, 1 after a diagnostic (printed on        *)
(*                stderr), 2 after a usage error; never a traceback        *)
(*  R8  file      exit # 0 => this run left no output: a path that did not *)
(*                exist does not exist afterwards; DECISION: a file that   *)
(*                already existed before the run must be byte-for-byte     *)
(*                unchanged (the run did not write it; removing a stale    *)
(*                file is not demanded by the text).  exit = 0 => the file *)
(*                equals the generated lines, each newline-terminated      *)
(*                (digest equality of the two recordings)                  *)
(*  R9  asm       exit = 0 (api: gen ok) => hv.sasm accepts the text       *)
(*  R10 dump-ast  --dump-ast prints the tree, exits 0, writes no file      *)
(*                                                    (__main__.main)      *)
(*  R11 repro     all digests recorded for one (source, options) are equal *)
(*                and a --lint build is rejected or has the same digest    *)
(*                                                    (property C18 a, d)  *)
(* In "api" mode a CompilerError raised by gen_lines() itself is a legal   *)
(* diagnostic (there is no file yet); in "main"/"cli" mode it is not (R6). *)
(* DONTCARE: what the messages say; which phase reports an error; whether  *)
(* an undecodable file is rejected or leniently decoded; environment       *)
(* failures while writing (disk full) are never generated.                 *)
(***************************************************************************)
EXTENDS Integers, Sequences, TLC

VARIABLE d      \* protocol state

NoOpts == [m |-> 16, s |-> 500, unchecked |-> FALSE, lint |-> FALSE, dump |-> FALSE,
           out |-> "fresh", inp |-> "file"]

D0 == [ph |-> "init", mode |-> "none", o |-> NoOpts, lens |-> <<>>, res |-> "none",
       ngen |-> 0, exit |-> -1, file |-> "absent", fd |-> "", dig |-> ""]

Ev(k, r, n, s, x) == [k |-> k, r |-> r, n |-> n, s |-> s, x |-> x]

(* ---------------------------------------------------------------- R4 *)
Inside(l, c, lens) ==
    /\ l >= 0 /\ c >= 0
    /\ IF Len(lens) = 0 THEN l = 0 /\ c = 0
       ELSE l < Len(lens) /\ c <= lens[l + 1]

SpanOK(sp, lens) ==
    /\ Len(sp) = 4
    /\ Inside(sp[1], sp[2], lens)
    /\ Inside(sp[3], sp[4], lens)
    /\ (sp[1] < sp[3] \/ (sp[1] = sp[3] /\ sp[2] <= sp[4]))

Located(spans, lens) == \A j \in 1..Len(spans) : SpanOK(spans[j], lens)

CliLike == d.mode \in {"main", "cli"}
BadWord(o) == o.m % 8 # 0 \/ o.m < 0

(* ------------------------------------------------------------ actions *)
(* every action A(ev) is  GA(ev) /\ d' = ... ; the guards are state       *)
(* predicates so that the trace specification can tell "no legal action". *)

GStart(ev) == d.ph = "init" /\ ev.k = "start" /\ ev.r \in {"api", "main", "cli", "repro"}
Start(ev) ==
    /\ GStart(ev)
    /\ d' = [d EXCEPT !.ph = IF ev.r = "api" THEN "args_ok"
                             ELSE IF ev.r = "repro" THEN "repro" ELSE "started",
                      !.mode = ev.r, !.o = ev.s,
                      !.file = IF ev.r \in {"main", "cli"} /\ ev.s.out = "existing" THEN "old" ELSE "absent"]

GArgs(ev) == /\ d.ph = "started" /\ ev.k = "args"
             /\ ev.r = (IF BadWord(d.o) THEN "usage" ELSE "ok")                      \* R1
Args(ev) == GArgs(ev) /\ d' = [d EXCEPT !.ph = IF ev.r = "ok" THEN "args_ok" ELSE "usage_fail"]

GRead(ev) ==
    /\ d.ph = "args_ok" /\ ev.k = "read"
    /\ CASE d.o.inp = "file"        -> (ev.r = "ok")
         [] d.o.inp = "undecodable" -> (ev.r \in {"ok", "oserror", "decode_error"} /\ CliLike)   \* R2
         [] OTHER                   -> (ev.r = "oserror" /\ CliLike)
Read(ev) ==
    /\ GRead(ev)
    /\ d' = [d EXCEPT !.ph = IF ev.r = "ok" THEN "read_ok"
                             ELSE IF ev.r = "decode_error" THEN "read_failed" ELSE "usage_fail",
                      !.lens = IF ev.r = "ok" THEN ev.s ELSE <<>>]

PhaseOK(ev) == ev.r = "ok" \/ (ev.r = "error" /\ Located(ev.s, d.lens))             \* R3, R4

GParse(ev) == d.ph = "read_ok" /\ ev.k = "parse" /\ PhaseOK(ev)
Parse(ev) == GParse(ev) /\ d' = [d EXCEPT !.ph = IF ev.r = "ok" THEN "parsed" ELSE "failed"]

GCheck(ev) == d.ph = "parsed" /\ ev.k = "check" /\ PhaseOK(ev)
Check(ev) ==
    /\ GCheck(ev)
    /\ d' = [d EXCEPT !.ph = IF ev.r # "ok" THEN "failed"
                             ELSE IF CliLike /\ d.o.dump THEN "succeeded" ELSE "checked",
                      !.res = IF ev.r = "ok" /\ CliLike /\ d.o.dump THEN "ast" ELSE @]   \* R10

GCodegen(ev) == d.ph = "checked" /\ ev.k = "codegen" /\ PhaseOK(ev)
Codegen(ev) == GCodegen(ev) /\ d' = [d EXCEPT !.ph = IF ev.r = "ok" THEN "cg_ok" ELSE "failed"]

GOpen(ev) ==
    /\ d.ph = "cg_ok" /\ CliLike /\ ev.k = "open"                                     \* R6
    /\ ev.r = (IF d.o.out = "unwritable" THEN "oserror" ELSE "ok")
Open(ev) ==
    /\ GOpen(ev)
    /\ d' = [d EXCEPT !.ph = IF ev.r = "ok" THEN "opened" ELSE "usage_fail",
                      !.file = IF ev.r = "ok" THEN "open" ELSE @]

GGen(ev) ==
    /\ ev.k = "gen"
    /\ \/ d.ph = "opened" /\ ev.r = "ok" /\ ev.n > 0                                  \* R6
       \/ d.ph = "cg_ok" /\ d.mode = "api" /\ ((ev.r = "ok" /\ ev.n > 0) \/ (ev.r = "error" /\ Located(ev.s, d.lens)))
Gen(ev) ==
    /\ GGen(ev)
    /\ d' = [d EXCEPT !.ph = IF ev.r # "ok" THEN "failed"
                             ELSE IF d.mode = "api" THEN "succeeded" ELSE "gen_ok",
                      !.ngen = ev.n,
                      !.res = IF ev.r = "ok" /\ d.mode = "api" THEN "assembly" ELSE @]

GClose(ev) == d.ph = "gen_ok" /\ ev.k = "close" /\ ev.r = "ok" /\ ev.n = d.ngen       \* R6
Close(ev) == GClose(ev) /\ d' = [d EXCEPT !.ph = "succeeded", !.file = "complete", !.res = "assembly"]

GRender(ev) == d.ph = "failed" /\ ev.k = "render" /\ ev.r = "ok"                      \* R5
Render(ev) ==
    /\ GRender(ev)
    /\ d' = [d EXCEPT !.ph = IF d.mode = "api" THEN "done" ELSE "rendered", !.res = "diag"]

GStderr(ev) ==
    /\ ev.k = "stderr" /\ CliLike
    /\ \/ d.ph = "rendered" /\ ev.r = "diag"                                          \* R7
       \/ d.ph = "usage_fail" /\ ev.r = "usage"
       \/ d.ph = "read_failed" /\ ev.r \in {"usage", "diag"}                          \* R2
       \/ d.ph = "succeeded" /\ ev.r = "none"
Stderr(ev) ==
    /\ GStderr(ev)
    /\ d' = [d EXCEPT !.ph = "stderr_done",
                      !.res = IF d.ph = "usage_fail" THEN "usage"
                              ELSE IF d.ph = "read_failed" THEN (IF ev.r = "usage" THEN "usage" ELSE "diag")
                              ELSE @]

GStdout(ev) ==
    /\ d.ph = "stderr_done" /\ ev.k = "stdout"
    /\ ev.r = (IF d.res = "ast" THEN "ast"
               ELSE IF d.res = "assembly" /\ d.o.out = "default" THEN "msg" ELSE "none")
Stdout(ev) == GStdout(ev) /\ d' = [d EXCEPT !.ph = "stdout_done"]

ExitFor(res) == IF res \in {"assembly", "ast"} THEN 0 ELSE IF res = "diag" THEN 1 ELSE 2
GExit(ev) == d.ph = "stdout_done" /\ ev.k = "exit" /\ ev.n = ExitFor(d.res)           \* R7
Exit(ev) == GExit(ev) /\ d' = [d EXCEPT !.ph = "exited", !.exit = ev.n]

(* post-hoc facts ------------------------------------------------------- *)
GFile(ev) ==
    /\ d.ph = "exited" /\ ev.k = "file"
    /\ CASE d.file = "absent"   -> (ev.r = "absent")                                  \* R8
         [] d.file = "old"      -> (ev.r = "unchanged")
         [] d.file = "complete" -> (ev.r = "written" /\ ev.n = 1)
         [] OTHER               -> FALSE
File(ev) == GFile(ev) /\ d' = [d EXCEPT !.ph = "file_done", !.fd = ev.x]

GExpect(ev) ==
    /\ d.ph = "file_done" /\ ev.k = "expect"
    /\ IF d.res = "assembly" THEN ev.r = "ok" /\ ev.x = d.fd ELSE ev.r = "none"       \* R8
Expect(ev) == GExpect(ev) /\ d' = [d EXCEPT !.ph = "expect_done"]

GAsm(ev) ==
    /\ ev.k = "asm"
    /\ \/ d.ph = "expect_done" /\ ev.r = (IF d.res = "assembly" THEN "ok" ELSE "skipped")   \* R9
       \/ d.ph = "succeeded" /\ d.mode = "api" /\ ev.r = "ok"
Asm(ev) == GAsm(ev) /\ d' = [d EXCEPT !.ph = "done"]

(* C18 bookkeeping ------------------------------------------------- R11 *)
GDigest(ev) == d.ph = "repro" /\ ev.k = "digest" /\ ev.x # "" /\ (d.dig = "" \/ ev.x = d.dig)
Digest(ev) == GDigest(ev) /\ d' = [d EXCEPT !.dig = ev.x]

GLint(ev) == /\ d.ph = "repro" /\ ev.k = "lint" /\ d.dig # ""
             /\ (ev.r = "rejected" \/ (ev.r = "ok" /\ ev.x = d.dig))
Lint(ev) == GLint(ev) /\ d' = d

GEnd(ev) == d.ph = "repro" /\ ev.k = "end" /\ d.dig # ""
End(ev) == GEnd(ev) /\ d' = [d EXCEPT !.ph = "done"]

Legal(ev) ==
    \/ GStart(ev) \/ GArgs(ev) \/ GRead(ev) \/ GParse(ev) \/ GCheck(ev) \/ GCodegen(ev)
    \/ GOpen(ev) \/ GGen(ev) \/ GClose(ev) \/ GRender(ev) \/ GStderr(ev) \/ GStdout(ev)
    \/ GExit(ev) \/ GFile(ev) \/ GExpect(ev) \/ GAsm(ev) \/ GDigest(ev) \/ GLint(ev) \/ GEnd(ev)

Act(ev) ==
    \/ Start(ev) \/ Args(ev) \/ Read(ev) \/ Parse(ev) \/ Check(ev) \/ Codegen(ev)
    \/ Open(ev) \/ Gen(ev) \/ Close(ev) \/ Render(ev) \/ Stderr(ev) \/ Stdout(ev)
    \/ Exit(ev) \/ File(ev) \/ Expect(ev) \/ Asm(ev) \/ Digest(ev) \/ Lint(ev) \/ End(ev)

(* the phase events the black-box command line does not show *)
HiddenKinds == {"args", "read", "parse", "check", "codegen", "open", "gen", "close", "render"}
HiddenEvents ==
    {Ev(k, r, n, <<>>, "") : k \in HiddenKinds, r \in {"ok", "error", "oserror", "usage", "decode_error"}, n \in {0, 1}}

(* which clause of the property an illegal event breaks (diagnostic only) *)
Why(ev) ==
    CASE ev.r = "escape"                                   -> "escaped_exception"
      [] ev.k \in {"parse", "check", "codegen", "gen"} /\ ev.r = "error"
            /\ ~Located(ev.s, d.lens)                      -> "span_outside_source"
      [] ev.k = "gen" /\ ev.r = "error"                    -> "diagnostic_after_output_opened"
      [] ev.k = "render"                                   -> "diagnostic_not_rendered"
      [] ev.k = "stderr" /\ ev.r = "traceback"             -> "traceback_printed"
      [] ev.k = "stderr"                                   -> "wrong_stderr"
      [] ev.k = "stdout"                                   -> "wrong_stdout"
      [] ev.k = "exit"                                     -> "wrong_exit_status"
      [] ev.k = "file" /\ d.exit # 0                       -> "exit_nonzero_output_left"
      [] ev.k = "file"                                     -> "exit0_file_incomplete"
      [] ev.k = "expect"                                   -> "exit0_file_incomplete"
      [] ev.k = "close"                                    -> "exit0_file_incomplete"
      [] ev.k = "asm"                                      -> "exit0_not_assemblable"
      [] ev.k = "digest"                                   -> "digest_differs"
      [] ev.k = "lint"                                     -> "lint_changed_code"
      [] ev.k = "open" /\ d.ph \in {"args_ok", "read_ok", "parsed", "checked"}
                                                           -> "output_opened_before_codegen_succeeded"
      [] ev.k \in {"args", "read", "open"}                 -> "wrong_error_handling"
      [] OTHER                                             -> "protocol_order"

(* ------------------------------------------------------------------------ *)
(* The three statements of the property as state predicates.  MCDriver.tla   *)
(* checks them over every legal behaviour of a small event universe; the     *)
(* trace specification DriverTrace.tla checks that recorded behaviours of    *)
(* the real code are behaviours of this machine.                             *)
ExitNonzeroLeavesNoFile == d.exit \notin {-1, 0} => d.file \in {"absent", "old"}
ExitZeroFileComplete    == (d.exit = 0 /\ d.res = "assembly") => d.file = "complete"
OutcomeIsAssemblyOrDiagnostic ==
    d.ph = "done" /\ d.mode # "repro" => d.res \in {"assembly", "diag", "usage", "ast"}
NoPartialFileAtExit == d.exit # -1 => d.file # "open"
DumpWritesNothing == (d.exit = 0 /\ d.res = "ast") => d.file \in {"absent", "old"}
ReproHasOneDigest == (d.mode = "repro" /\ d.ph = "done") => d.dig # ""
=============================================================================
