"""Behaviour-preserving changes (written by independent agents that were asked to KEEP every property): the checks
must stay silent on them.  The counterpart of hv.seeded: a VIOLATION here is a false alarm of the machinery.

    python -m hv.benign import <worktree>/mutants/<name> [<id>]   -> /verif/benign/<id>/ (patch.diff, README.md)
    python -m hv.benign eval <id> [--checks C01,C03] [--tier quick] [--par 3]
                                                                   -> applies the patch in a scratch worktree of /repo,
                                                                      runs the 45 tests and the checks with HV_REPO there
Nothing is ever applied to /repo itself."""
import argparse, json, os, shutil, subprocess, sys, time
from concurrent.futures import ThreadPoolExecutor
from . import common
from .seeded import sh, TESTS, drop

BENIGN = os.path.join(common.VERIF, 'benign')
ALL = ['C%02d' % i for i in range(1, 19)]


def do_import(src, mid=None):
    mid = mid or os.path.basename(src.rstrip('/'))
    dst = os.path.join(BENIGN, mid)
    os.makedirs(dst, exist_ok=True)
    for f in ('patch.diff', 'README.md'):
        s = os.path.join(src, f)
        if os.path.exists(s) and os.path.abspath(s) != os.path.abspath(os.path.join(dst, f)):
            shutil.copy(s, os.path.join(dst, f))
    mp = os.path.join(dst, 'meta.json')
    if not os.path.exists(mp):
        with open(mp, 'w') as f:
            json.dump({'id': mid, 'kind': 'behaviour-preserving change (every property still holds)',
                       'origin': 'independent sub-agent given the property texts and a scratch worktree, nothing from /verif',
                       'confirmed': {}, 'checks': {}}, f, indent=1)
    print('imported', mid)
    return mid


def worktree(mid):
    wt = os.path.join(os.environ.get('HV_TMP', '/tmp'), 'benwt_%s_%d' % (mid, os.getpid()))
    sh(['git', '-C', common.REPO, 'worktree', 'remove', '--force', wt])
    rc, out = sh(['git', '-C', common.REPO, 'worktree', 'add', '--detach', wt, 'HEAD'])
    if rc:
        raise common.Machinery('worktree: ' + out)
    rc, out = sh(['git', '-C', wt, 'apply', os.path.join(BENIGN, mid, 'patch.diff')])
    if rc:
        drop(wt)
        raise common.Machinery('patch does not apply: ' + out)
    return wt


def evaluate(mid, checks, tier='quick', par=3):
    mp = os.path.join(BENIGN, mid, 'meta.json')
    meta = json.load(open(mp))
    wt = worktree(mid)
    alarms = 0
    try:
        rc, out = sh(TESTS, cwd=wt, env=dict(os.environ, PYTHONPATH=wt, PYTHONDONTWRITEBYTECODE='1'))
        meta['confirmed'] = {'tests_45_pass_with_change': '45 passed' in out,
                             'ran': 'git worktree of /repo HEAD + git apply patch.diff; pytest tests; checks with HV_REPO=<worktree>'}

        def one(c):
            env = dict(os.environ, HV_REPO=wt, PYTHONDONTWRITEBYTECODE='1',
                       HV_EVID=os.path.join(wt, '.hv_evidence'), HV_REPLAY=os.path.join(wt, '.hv_replay'),
                       HV_PAR=str(max(1, 3 // par)))
            t = time.time()
            rcc, outc = sh(['/venv/bin/python', '-m', 'hv.check', c, '--tier', tier], cwd=common.VERIF, env=env, timeout=7200)
            viol = [l for l in outc.splitlines() if l.startswith('VIOLATION')]
            r = {'exit': rcc, 'violation_lines': len(viol), 'first': viol[:3], 'wall_s': round(time.time() - t, 1),
                 'tail': outc[-400:] if rcc != 0 else ''}
            # keep the replay files of an alarm: they are what has to be analysed
            if viol:
                keep = os.path.join(BENIGN, mid, 'alarms_' + c)
                shutil.rmtree(keep, ignore_errors=True)
                rp = os.path.join(wt, '.hv_replay')
                if os.path.isdir(rp):
                    os.makedirs(keep, exist_ok=True)
                    for f in sorted(os.listdir(rp)):
                        if f.startswith(c + '_'):
                            shutil.copy(os.path.join(rp, f), keep)
            print('%s %s %s exit=%d violations=%d %.0fs' % (mid, c, tier, rcc, len(viol), time.time() - t), flush=True)
            return c, r

        with ThreadPoolExecutor(par) as ex:
            for c, r in ex.map(one, checks):
                meta['checks'][c + ':' + tier] = r
                alarms += r['exit'] != 0
    finally:
        drop(wt)
    with open(mp, 'w') as f:
        json.dump(meta, f, indent=1)
    return alarms


def main():
    ap = argparse.ArgumentParser()
    ap.add_argument('cmd', choices=['import', 'eval'])
    ap.add_argument('a')
    ap.add_argument('b', nargs='?')
    ap.add_argument('--checks', default=None)
    ap.add_argument('--tier', default='quick')
    ap.add_argument('--par', type=int, default=3)
    a = ap.parse_args()
    if a.cmd == 'import':
        do_import(a.a, a.b)
    else:
        n = evaluate(a.a, a.checks.split(',') if a.checks else ALL, a.tier, a.par)
        print('checks not silent:', n)
        sys.exit(1 if n else 0)


if __name__ == '__main__':
    main()
