"""C06: running spec/Context.tla under TLC and reading the cases it prints.

TLC is the oracle: every (path, construct, verdict) used by hv/checks/c06.py comes out of one of the
functions below.  Nothing here knows a context rule.
"""
import os, re
from . import common, tlc

MODULE = 'Context'

# printed once per state:  "<<\"HV\", <<\"fY\", \"tryB\">>, <<\"accept\", ...>>>>"
_LINE = re.compile(r'^"<<\\"HV\\", <<(.*?)>>, <<(.*?)>>>>"\s*$', re.M)
_STR = re.compile(r'\\"([A-Za-z_]+)\\"')
_COV = re.compile(r'^<(\w+) line \d+, col \d+ to line \d+, col \d+ of module Context[^>]*>: (\d+):(\d+)', re.M)

VERDICTS = ('accept', 'reject', 'dontcare', 'na')


class Enumeration:
    def __init__(self):
        self.states = []        # list of (path tuple, verdict tuple) in print order, unique paths
        self.generated = 0
        self.distinct = 0
        self.wall = 0.0
        self.coverage = {}      # action -> states found by it
        self.printed = 0        # number of HV lines (before removing duplicates)


def construct_order():
    """The order of the printed verdict vector, read from the spec text (names only, no rules)."""
    with open(os.path.join(common.SPEC, MODULE + '.tla')) as f:
        text = f.read()
    m = re.search(r'ConstructOrder\s*==\s*<<(.*?)>>', text, re.S)
    if not m:
        raise common.Machinery('ConstructOrder not found in Context.tla')
    return tuple(re.findall(r'"(\w+)"', m.group(1)))


def frame_kinds():
    """All frame names of the spec (used only to report frames that were never exercised)."""
    with open(os.path.join(common.SPEC, MODULE + '.tla')) as f:
        text = f.read()
    names = set()
    for key in ('Roots', 'PlainBlocks', 'LoopBodies', 'Handlers', 'CondFrames', 'HostFrames', 'ArgFrames',
                'WrapFrames', 'SpecFrames'):
        m = re.search(r'^%s\s*==\s*\{(.*?)\}' % key, text, re.S | re.M)
        if not m:
            raise common.Machinery('%s not found in Context.tla' % key)
        names |= set(re.findall(r'"(\w+)"', m.group(1)))
    names |= {'tryB', 'preB', 'op'}
    return names


def parse_states(out, order):
    seen = set()
    res = []
    n = 0
    for m in _LINE.finditer(out):
        n += 1
        path = tuple(_STR.findall(m.group(1)))
        if path in seen:
            continue
        verd = tuple(_STR.findall(m.group(2)))
        if len(verd) != len(order) or any(v not in VERDICTS for v in verd) or not path:
            raise common.Machinery('malformed HV line from TLC: %r' % m.group(0)[:200])
        seen.add(path)
        res.append((path, verd))
    return res, n


def enumerate_states(cfg, order, simulate=None, depth=None, seed=None, timeout=600, coverage=False):
    """Run Context.tla with spec/<cfg>.cfg; BFS (exhaustive / VIEW-deduplicated) or -simulate."""
    e = Enumeration()
    for attempt in range(3):
        r = tlc.run(common.SPEC, MODULE, cfg=cfg, workers=1, timeout=timeout, coverage=coverage,
                    simulate=simulate, depth=depth, seed=seed, heap='2g')
        e.wall += r.wall
        done = ('The number of states generated' if simulate else 'Model checking completed') in r.out
        if done or r.timed_out or r.errors or r.violated:
            break
        # the JVM went away without a verdict (killed from outside / resource pressure): run it again
        print('note: TLC ended without a result on %s (rc=%s), attempt %d' % (cfg, r.rc, attempt + 1))
    if r.timed_out:
        raise common.Machinery('TLC timed out on %s' % cfg)
    if r.errors or r.violated:
        raise common.Machinery('TLC reported an error on %s: %s %s' % (cfg, r.violated, r.errors[:3]))
    if simulate:
        m = re.search(r'The number of states generated: (\d+)', r.out)
        if not m:
            raise common.Machinery('TLC simulation did not finish on %s: %s' % (cfg, r.out[-400:]))
        e.generated = int(m.group(1))
    else:
        if 'Model checking completed' not in r.out:
            raise common.Machinery('TLC did not complete on %s: %s' % (cfg, r.out[-400:]))
        e.generated, e.distinct = r.generated, r.distinct
    e.states, e.printed = parse_states(r.out, order)
    if simulate:
        e.distinct = len(e.states)
    for m in _COV.finditer(r.out):
        e.coverage[m.group(1)] = int(m.group(2))
    if not e.states:
        raise common.Machinery('TLC printed no case on %s' % cfg)
    return e


def verdicts_of(cases, timeout=120):
    """cases: list of (path, construct).  One TLC run evaluating the spec's VerdictOfPath on each.
    -> list of verdict strings ('accept' / 'reject' / 'dontcare' / 'na' / 'illegal')."""
    d = common.scratch('c06v_')
    try:
        lines = ['---- MODULE C06Verdicts ----', 'EXTENDS Context']
        for i, (path, k) in enumerate(cases):
            lines.append('ASSUME PrintT(ToString(<<"HVR", %d, VerdictOfPath(%s, %s)>>))' % (
                i, tlc.tla(list(path)), tlc.tla(k)))
        lines.append('====')
        with open(os.path.join(d, 'C06Verdicts.tla'), 'w') as f:
            f.write('\n'.join(lines) + '\n')
        with open(os.path.join(d, 'C06Verdicts.cfg'), 'w') as f:
            f.write('CONSTANTS\n MaxDepth = 0\n Emit = FALSE\nINIT Init\nNEXT Next\n')
        r = tlc.run(d, 'C06Verdicts', workers=1, timeout=timeout, heap='2g')
        if not r.ok:
            raise common.Machinery('TLC failed on the verdict module: %s' % (r.errors[:3] or r.out[-400:]))
        got = {}
        for m in re.finditer(r'^"<<\\"HVR\\", (\d+), \\"(\w+)\\">>"', r.out, re.M):
            got[int(m.group(1))] = m.group(2)
        if len(got) != len(cases):
            raise common.Machinery('TLC answered %d of %d verdict queries' % (len(got), len(cases)))
        return [got[i] for i in range(len(cases))]
    finally:
        common.rm(d)
