------------------------------ MODULE MCDriver ------------------------------
(* Stand-alone model of Driver: all legal behaviours over a small event      *)
(* universe and option grid; TLC checks the property statements as           *)
(* invariants of the protocol itself (sanity of the specification).          *)
EXTENDS Driver

B == {TRUE, FALSE}
MCOpts == [m : {16, 12, -8}, s : {500}, unchecked : {FALSE}, lint : {FALSE}, dump : B,
           out : {"fresh", "existing", "unwritable", "default"},
           inp : {"file", "missing", "undecodable"}]
Lens == <<3, 0>>
Spans == {<<>>, << <<0, 0, 0, 3>> >>, << <<1, 0, 1, 0>>, <<0, 1, 1, 0>> >>, << <<2, 0, 2, 0>> >>, << <<0, 4, 0, 4>> >>}
(* TLC cannot build one set of events whose `s` fields have different shapes, *)
(* hence one homogeneous set per shape.                                       *)
StartEvents == {Ev("start", r, 0, o, "") : r \in {"api", "main"}, o \in MCOpts} \cup {Ev("start", "repro", 0, NoOpts, "")}
ReadEvents  == {Ev("read", r, 0, Lens, "") : r \in {"ok", "oserror", "decode_error", "escape"}}
PhaseEvents == {Ev(k, r, 0, sp, "") : k \in {"parse", "check", "codegen"}, r \in {"ok", "error", "escape"}, sp \in Spans}
PlainEvents ==
         {Ev(k, r, 0, <<>>, "") : k \in {"args", "open", "render"}, r \in {"ok", "usage", "oserror", "escape"}}
    \cup {Ev("gen", r, n, <<>>, "") : r \in {"ok", "error", "escape"}, n \in {0, 7}}
    \cup {Ev("close", "ok", n, <<>>, "") : n \in {6, 7}}
    \cup {Ev("stderr", r, 0, <<>>, "") : r \in {"none", "diag", "usage", "traceback"}}
    \cup {Ev("stdout", r, 0, <<>>, "") : r \in {"none", "msg", "ast"}}
    \cup {Ev("exit", "", n, <<>>, "") : n \in 0..2}
    \cup {Ev("file", r, n, <<>>, x) : r \in {"absent", "unchanged", "written"}, n \in {0, 1}, x \in {"h1"}}
    \cup {Ev("expect", r, 0, <<>>, x) : r \in {"ok", "none"}, x \in {"h1", "h2"}}
    \cup {Ev("asm", r, 0, <<>>, "") : r \in {"ok", "error", "skipped"}}
    \cup {Ev("digest", "", 0, <<>>, x) : x \in {"", "h1", "h2"}}
    \cup {Ev("lint", r, 0, <<>>, x) : r \in {"ok", "rejected", "crashed"}, x \in {"h1", "h2"}}
    \cup {Ev("end", "", 0, <<>>, "")}

Init == d = D0
Next == \/ \E ev \in StartEvents : Act(ev)
        \/ \E ev \in ReadEvents : Act(ev)
        \/ \E ev \in PhaseEvents : Act(ev)
        \/ \E ev \in PlainEvents : Act(ev)
=============================================================================
