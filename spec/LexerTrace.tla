---------------------------- MODULE LexerTrace ----------------------------
(***************************************************************************)
(* Trace validation for C12 (code -> spec).                                *)
(*                                                                         *)
(* hv/checks/c12.py runs the real hidc.lexer.lex on every input and writes *)
(* what it did; the Lexer machine re-lexes each input and after every step *)
(* the event it produced is compared with the recording.  One line         *)
(*    <<"HV", i, "MISMATCH", what, tokenNo, spec, recorded>>               *)
(* is printed per failing input; the input then stops.  Inputs the spec    *)
(* calls dontcare stop without a verdict (one <<"HD", i>> line each).      *)
(* With deadlock checking on, a run that completes has brought every input *)
(* to a verdict (TVerdict is the only action enabled in a final state).    *)
(* TLC computes initial states in one thread, so the initial states are    *)
(* blocks of BlockSize inputs ("idle"); TStart, taken by the workers, puts *)
(* each input of a block into the Lexer's initial state for it.            *)
(*                                                                         *)
(* The recordings (CasePacked, CaseVals, CaseDigests) and their format are *)
(* in LexerData, which Lexer EXTENDS.                                      *)
(***************************************************************************)
EXTENDS Lexer, TLC

VARIABLE verdict         \* "idle" | "run" | "ok" | "mismatch" | "dontcare"
tvars == <<inp, pos, cur, line, col, phase, ntok, out, verdict>>

-----------------------------------------------------------------------------
(* decoding a recording (layout of a case string: see LexerData) *)
OutPos(i)  == 4 + 4 * Num(i, 1, 3)       \* position of the `end` digit of case i

RecEnd(i)  == Num(i, OutPos(i), 1)
RecBase(i) == Num(i, OutPos(i) + 1, 4)
RecLen(i)  == (NDigits(i) - OutPos(i) - 4) \div 11
RecVal(i, j) == CaseVals[Num(i, OutPos(i) + 5 + 11 * (j - 1), 3)]
RecTokAt(i, p) ==                        \* the recorded token whose 11 digits start at position p
    << CaseVals[Num(i, p, 3)][1], CaseVals[Num(i, p, 3)][2],
       Num(i, p + 3, 2), Num(i, p + 5, 2), Num(i, p + 7, 2), Num(i, p + 9, 2) >>
RecTok(i, j) == Let1(OutPos(i) + 5 + 11 * (j - 1), LAMBDA p : RecTokAt(i, p))

-----------------------------------------------------------------------------
KindCode(k) == CASE k \in {"sym", "kw"} -> 1
                 [] k = "id"     -> 2
                 [] k = "you"    -> 3
                 [] k = "defeat" -> 4
                 [] k = "int"    -> 5
                 [] k = "str"    -> 6
                 [] k = "chr"    -> 7

Sat(x) == IF x > 4094 THEN 4095 ELSE x
Flat(o) == << KindCode(o.k), o.v, Sat(o.sl), Sat(o.sc), Sat(o.el), Sat(o.ec) >>

(* layout independence: same outcome, same kinds and values; spans are free *)
SameAsBase(i) ==
    \/ RecBase(i) = 0
    \/ /\ RecEnd(i) = RecEnd(RecBase(i))
       /\ RecLen(i) = RecLen(RecBase(i))
       /\ \A j \in 1..RecLen(i) : RecVal(i, j) = RecVal(RecBase(i), j)

Bad(what, spec, rec) ==
    IF PrintT(<<"HV", inp, "MISMATCH", what, ntok, spec, rec>>) THEN "mismatch" ELSE "mismatch"

DontCare == IF PrintT(<<"HD", inp>>) THEN "dontcare" ELSE "dontcare"

Finished(end) ==
    IF RecEnd(inp) # end
        THEN Bad("end", <<end>>, <<RecEnd(inp)>>)
    ELSE IF ntok # RecLen(inp)
        THEN Bad("missing-token", <<end>>, RecTok(inp, ntok + 1))
    ELSE IF ~SameAsBase(inp)
        THEN Bad("layout", <<RecBase(inp)>>, <<RecEnd(inp)>>)
    ELSE "ok"

(* verdict about the current state, given what the last step produced *)
Judge ==
    CASE out.t = "none" -> "run"
      [] out.t = "tok" ->
            (IF ntok > RecLen(inp)
                THEN Bad("extra-token", Flat(out), <<RecEnd(inp)>>)
             ELSE Let1(<< Flat(out), RecTok(inp, ntok) >>,
                       LAMBDA t : IF t[1] # t[2] THEN Bad("token", t[1], t[2]) ELSE "run"))
      [] out.t = "eof"      -> Finished(0)
      [] out.t = "error"    -> Finished(1)
      [] out.t = "dontcare" -> DontCare

BlockSize == 256
Block(first) == first..(IF first + BlockSize - 1 < NCases THEN first + BlockSize - 1 ELSE NCases)

(* an idle state stands for the block of inputs that starts at `inp` *)
TInit == /\ verdict = "idle"
         /\ inp \in {1 + BlockSize * b : b \in 0..((NCases - 1) \div BlockSize)}
         /\ pos = 0 /\ cur = << >> /\ line = 0 /\ col = 0
         /\ phase = "skip" /\ ntok = 0 /\ out = NoOut

TStart == /\ verdict = "idle"
          /\ \E i \in Block(inp) :
                /\ inp' = i
                /\ cur' = LineAfter(i, 0)
                /\ UNCHANGED <<pos, line, col, phase, ntok, out>>
                /\ InitAt(i)'                    \* the Lexer's initial state for input i
          /\ verdict' = "run"

Running == verdict = "run"
Judged  == verdict' = Judge'

(* one wrapper per Lexer action.  When LexerData!CaseLogActions is TRUE every step taken prints
   <<"HA", action>>, so that the harness can count how often each action of the machine was taken
   (TLC's own -coverage walks the data module and is unusable with it). *)
Logged(name) == CaseLogActions => PrintT(<<"HA", name>>)

TSkipLinebreak      == Running /\ SkipLinebreak /\ Judged /\ Logged("SkipLinebreak")
TSkipToToken        == Running /\ SkipToToken /\ Judged /\ Logged("SkipToToken")
TSkipToMurky        == Running /\ SkipToMurky /\ Judged /\ Logged("SkipToMurky")
TAtEnd              == Running /\ AtEnd /\ Judged /\ Logged("AtEnd")
TReadSymbol         == Running /\ ReadSymbol /\ Judged /\ Logged("ReadSymbol")
TReadIdentOrKeyword == Running /\ ReadIdentOrKeyword /\ Judged /\ Logged("ReadIdentOrKeyword")
TReadInt            == Running /\ ReadInt /\ Judged /\ Logged("ReadInt")
TReadString         == Running /\ ReadString /\ Judged /\ Logged("ReadString")
TReadChar           == Running /\ ReadChar /\ Judged /\ Logged("ReadChar")
TNoReader           == Running /\ NoReader /\ Judged /\ Logged("NoReader")

(* a verdict has been reached: nothing more is compared *)
TVerdict == verdict \notin {"idle", "run"} /\ UNCHANGED tvars

TNext == \/ TStart
         \/ TSkipLinebreak \/ TSkipToToken \/ TSkipToMurky \/ TAtEnd
         \/ TReadSymbol \/ TReadIdentOrKeyword \/ TReadInt \/ TReadString \/ TReadChar \/ TNoReader
         \/ TVerdict

TSpec == TInit /\ [][TNext]_tvars

(* sanity of the trace machine itself: a finished lexer always has a verdict *)
VerdictWhenDone == (phase = "done") => (verdict # "run")

-----------------------------------------------------------------------------
(* "... or the emitted instructions": always TRUE, prints one line per unequal pair *)
InstructionStreamsEqual(pairs) ==
    /\ PrintT(<<"HV", 0, "DIGESTS", Len(pairs)>>)
    /\ \A i \in 1..Len(pairs) :
          \/ pairs[i][2] = pairs[i][3]
          \/ PrintT(<<"HV", 0, "MISMATCH", "instructions", i, pairs[i][1], pairs[i][2], pairs[i][3]>>)

ASSUME InstructionStreamsEqual(CaseDigests)
=============================================================================
