\* C07: family "expr", tier "quick" (see Types.tla sections 5-8 for what is enumerated)
CONSTANTS
    Tier = "quick"
    Family = "expr"
SPECIFICATION Spec
INVARIANT TypeOK
