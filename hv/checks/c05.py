"""C05 Runtime faults are detected exactly, first, and terminally.  Decided by Refine.tla: HiDSem raises each
fault from the source semantics, so flags, their order, the output prefix and silence afterwards are part of Agree."""
import time
from hv import rt, fam_ops, families

PROP = 'C05'


def main(tier, seed):
    t0 = time.time()
    items = fam_ops.fault_family(seed, tier)
    items += families.generated(seed + 5, 40 if tier == 'quick' else 400, feat={'faults': 0.3}, inputs=3, family='gen_faulty')
    return rt.standard(PROP, tier, seed, items,
                       'fault sites (/, %, index read, plain/compound store, string index, dynamic length, preemptive return) x '
                       'position x element type x storage class x operand values at the boundary from both sides; plus random '
                       'programs with unguarded divisors/indices', t0)
