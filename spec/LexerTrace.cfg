\* Trace validation of hidc.lexer.lex against the Lexer machine (C12).  Every input ends in a verdict:
\* with deadlock checking on, a completed run has judged all of them.
\* (hv/checks/c12.py copies this next to a generated LexerData.tla and a root module EXTENDS LexerTrace.)
INIT TInit
NEXT TNext
INVARIANT VerdictWhenDone
CHECK_DEADLOCK TRUE
