"""Shows that the static half of C16 (hv.exitmodes) is bound to the real typechecker.

    cd /verif && /venv/bin/python -m hv.exitmodes_selftest [--pytest]

(a) the unmodified scratch copy of /repo must be silent; (b) each mutant of hidc/ast/blocks.py / program.py must
be reported; (c) one falsified CanComplete bit must be reported.  TLC runs once; its output does not depend on
the tree under test and is reused for the mutants.  With --pytest each mutant is also run through the upstream
typechecker tests (information: does the upstream suite notice it?).
"""
import json, os, shutil, subprocess, sys, time
from . import common

BLOCKS = 'hidc/ast/blocks.py'
PROGRAM = 'hidc/ast/program.py'

# name, file, old, new
MUTANTS = [
    ('LoopBlock.exit_modes forgets to re-add NONE for loops with break', BLOCKS,
     '        return mode.replace(ExitMode.BREAK, ExitMode.NONE)\n',
     '        return mode & ~ExitMode.BREAK\n'),
    ('IfBlock.exit_modes intersects (&) instead of uniting (|)', BLOCKS,
     '        return self.body.exit_modes() | self.else_block.exit_modes()\n',
     '        return self.body.exit_modes() & self.else_block.exit_modes()\n'),
    ('TryBlock.exit_modes ignores the handler', BLOCKS,
     '        return self.body.exit_modes().replace(\n            ExitMode.DEFEAT, self.handler.exit_modes()\n        )\n',
     '        return self.body.exit_modes() & ~ExitMode.DEFEAT\n'),
    ('PreemptBlock.exit_modes drops "| ExitMode.NONE"', BLOCKS,
     '        return self.body.exit_modes() | ExitMode.NONE\n',
     '        return self.body.exit_modes()\n'),
    ('the infinite-loop test ignores BREAK', BLOCKS,
     '        if ExitMode.BREAK not in mode:\n            if isinstance(self.cond, BoolValue) and self.cond.data:\n',
     '        if True:\n            if isinstance(self.cond, BoolValue) and self.cond.data:\n'),
    ('any defeat call is treated like !is_defeat() (replaces NONE)', BLOCKS,
     '                    mode |= ExitMode.DEFEAT\n',
     '                    mode = mode.replace(ExitMode.NONE, ExitMode.DEFEAT)\n'),
    ('FuncDeclaration only rejects when NONE is the only exit mode', PROGRAM,
     '        if ExitMode.NONE in exit_modes:\n            if self.ret_type != DataType.EMPTY:\n',
     '        if ExitMode.NONE in exit_modes:\n            if self.ret_type != DataType.EMPTY and exit_modes == ExitMode.NONE:\n'),
    ('CodeBlock.evaluate drops whatever follows a statement that MAY return', BLOCKS,
     '            if ExitMode.NONE not in mode or found_continue:\n',
     '            if ExitMode.NONE not in mode or ExitMode.RETURN in mode or found_continue:\n'),
]


def run_check(repo, cache, extra=()):
    env = dict(os.environ, HV_REPO=repo, PYTHONDONTWRITEBYTECODE='1')
    p = subprocess.run([sys.executable, '-m', 'hv.exitmodes', '--tier', 'quick', '--cache', cache, '--json', *extra],
                       cwd=common.VERIF, env=env, stdout=subprocess.PIPE, stderr=subprocess.STDOUT)
    out = p.stdout.decode('utf-8', 'replace')
    try:
        res = json.loads(out.strip().splitlines()[-1])
    except (ValueError, IndexError):
        raise common.Machinery('hv.exitmodes did not produce a result (rc=%s): %s' % (p.returncode, out[-1200:]))
    return p.returncode, res


def upstream(repo):
    p = subprocess.run([sys.executable, '-m', 'pytest', '-q', '-x', '-p', 'no:cacheprovider', 'tests/test_typecheck.py',
                        'tests/test_parser.py'], cwd=repo, stdout=subprocess.PIPE, stderr=subprocess.STDOUT,
                       env=dict(os.environ, PYTHONDONTWRITEBYTECODE='1'))
    return 'passes' if p.returncode == 0 else 'fails'


def main():
    t0 = time.time()
    with_pytest = '--pytest' in sys.argv
    d = common.scratch('hv_emself_')
    failures = []
    try:
        repo = os.path.join(d, 'repo')
        shutil.copytree(os.path.join(common.REPO, 'hidc'), os.path.join(repo, 'hidc'),
                        ignore=shutil.ignore_patterns('__pycache__'))
        if with_pytest:
            shutil.copytree(os.path.join(common.REPO, 'tests'), os.path.join(repo, 'tests'),
                            ignore=shutil.ignore_patterns('__pycache__'))
        cache = os.path.join(d, 'tlc_cases.json')
        rc, res = run_check(repo, cache)
        print('unmodified copy: rc=%d shapes=%d accepted=%d over_rejections=%d rule_disagreements=%d violating=%d '
              '(TLC states=%d, %.1fs)' % (rc, res['cases'], res['accepted'], res['over_rejections'],
                                          res['rule_disagreements'], res['violating_shapes'], res['states'], res['tlc_wall_s']))
        if rc != 0:
            failures.append('unmodified copy is not silent')
        only = [int(a.split('=')[1]) for a in sys.argv if a.startswith('--only=')]
        for mi, (name, rel, old, new) in enumerate(MUTANTS):
            if only and mi not in only:
                continue
            path = os.path.join(repo, rel)
            src = open(path).read()
            if src.count(old) != 1:
                raise common.Machinery('mutation site not found exactly once for %r' % name)
            open(path, 'w').write(src.replace(old, new))
            try:
                rc, res = run_check(repo, cache)
                up = upstream(repo) if with_pytest else ''
            finally:
                open(path, 'w').write(src)
            first = res['violations'][0]['what'] if res['violations'] else '-'
            print('%-7s %-78s violating=%-6d rule_disagreements=%-6d crashed=%-5d %s\n          e.g. %s' % (
                'CAUGHT' if rc == 1 else 'MISSED', name, res['violating_shapes'], res['rule_disagreements'], res['crashed'],
                ('upstream tests: ' + up) if up else '', first[:150]))
            if rc != 1:
                failures.append('mutant not detected: ' + name)
        rc, res = run_check(repo, cache, ['--corrupt', 'e{r}{r}'])
        print('%-7s falsified CanComplete of shape e{r}{r}  [%s]' % (
            'CAUGHT' if rc == 1 else 'MISSED', res['violations'][0]['what'][:120] if res['violations'] else '-'))
        if rc != 1 or res['violating_shapes'] != 1:
            failures.append('corrupted CanComplete bit not reported exactly once')
    finally:
        common.rm(d)
    print('exitmodes self-test %s in %.0fs' % ('FAILED: ' + '; '.join(failures) if failures else 'passed', time.time() - t0))
    return 1 if failures else 0


if __name__ == '__main__':
    common.main_wrapper(main)
