"""Seeded, type-directed random generator of well-typed HiD programs (text) inside the defined-behaviour
envelope (DESIGN section 6): bounded loops and recursion, dynamic arrays filled before use, indices in range
unless a fault is wanted.  The oracle is HiDSem (TLC), never this module: it only has to produce programs the
compiler accepts and that exercise many constructs; a rejected program is counted, not judged."""
import random

INT, BYTE, BOOL, STRING = 'int', 'byte', 'bool', 'string'
SCALARS = (INT, BYTE, BOOL, STRING)


class Var:
    def __init__(self, name, type_, const=False, arr=False, el=None, length=None, mutable_elems=True):
        self.name = name
        self.type = type_      # scalar type name, or 'arr'
        self.const = const
        self.arr = arr
        self.el = el
        self.length = length   # python int when statically known
        self.mutable_elems = mutable_elems


class Func:
    def __init__(self, name, ret, params, flavor=''):
        self.name = name
        self.ret = ret
        self.params = params   # list of (type text, Var)
        self.flavor = flavor


class Gen:
    def __init__(self, seed, feat=None, w=2):
        self.r = random.Random(seed)
        self.w = w
        self.feat = dict(arrays=True, strings=True, funcs=True, globals=True, loops=True, faults=0.0,
                         bools=True, bytes=True, recursion=True, depth=3, stmts=6, tt=0.0)
        if feat:
            self.feat.update(feat)
        self.n = 0
        self.funcs = []
        self.globals = []
        self.scopes = []
        self.in_loop = 0
        self.cur_ret = None    # return type of the function being generated (None: no early returns)
        self.ctx = 'plain'     # 'plain' ordinary function / `??` operand, 'you', 'try' (try body), 'defeat' (defeat function)
        self.max_int = (1 << (8 * w - 1)) - 1

    # ------------------------------------------------------------------ names / scopes
    def fresh(self, p='v'):
        self.n += 1
        return '%s%d' % (p, self.n)

    def vars(self, pred=lambda v: True):
        out = []
        seen = set()
        for sc in reversed(self.scopes):
            for v in reversed(sc):
                if v.name not in seen and pred(v):
                    out.append(v)
                seen.add(v.name)
        for v in self.globals:
            if v.name not in seen and pred(v):
                out.append(v)
            seen.add(v.name)
        return out

    def declare(self, v):
        self.scopes[-1].append(v)

    # ------------------------------------------------------------------ literals
    def int_lit(self):
        r = self.r
        c = r.random()
        if c < 0.5:
            return str(r.choice([0, 1, 2, 3, 5, 7, 8, 9, 10, 16, 100, 127, 128, 255, 256]))
        if c < 0.7:
            return str(r.randrange(0, 1000))
        if c < 0.85:
            return '(-%d)' % r.choice([1, 2, 3, 7, 128, 129, 255, 256, 1000])
        return str(r.choice([self.max_int, self.max_int - 1, 12345 % self.max_int]))

    def byte_lit(self):
        r = self.r
        if r.random() < 0.5:
            return "'%s'" % r.choice('abcxyzAZ09 ~!#')
        return str(r.choice([0, 1, 9, 10, 48, 65, 127, 128, 200, 255]))

    def str_lit(self):
        return '"%s"' % self.r.choice(['', 'a', 'hi', 'abc', 'Hello', 'x y', 'q\\n', '0123456789'])

    # ------------------------------------------------------------------ expressions
    def expr(self, t, d):
        r = self.r
        if t == INT:
            return self.int_expr(d)
        if t == BYTE:
            return self.byte_expr(d)
        if t == BOOL:
            return self.bool_expr(d)
        return self.str_expr(d)

    def pick_var(self, t):
        vs = self.vars(lambda v: not v.arr and v.type == t)
        return self.r.choice(vs).name if vs else None

    def safe_index(self, arr, d):
        """index expression guaranteed in range for an array/string variable of known positive length"""
        if arr.length:
            if self.r.random() < 0.5:
                return str(self.r.randrange(arr.length))
            return '((%s %% %d + %d) %% %d)' % (self.int_expr(d - 1), arr.length, arr.length, arr.length)
        return None

    def elem(self, el, d):
        arrs = self.vars(lambda v: v.arr and v.el == el and v.length)
        if not arrs:
            return None
        a = self.r.choice(arrs)
        if self.r.random() < self.feat['faults']:
            return '%s[%s]' % (a.name, self.int_expr(d - 1))
        return '%s[%s]' % (a.name, self.safe_index(a, d))

    def call_of(self, ret, d):
        fs = [f for f in self.funcs if f.ret == ret and f.flavor in self.flavors() and f is not getattr(self, 'cur_func', None)]
        if not fs or d <= 0:
            return None
        f = self.r.choice(fs)
        args = []
        for tt, pv in f.params:
            a = self.arg_for(pv, d - 1)
            if a is None:
                return None
            args.append(a)
        return '%s(%s)' % (f.name, ', '.join(args))

    def flavors(self):
        """flavours of user functions that may be called in the current context (README: you-functions only directly
        within you-functions and not in try bodies; defeat functions only in try bodies and defeat functions)"""
        if self.ctx == 'you':
            return ('', '@')
        if self.ctx in ('try', 'defeat'):
            return ('', '!')
        return ('',)

    def arg_for(self, pv, d):
        if pv.arr and pv.el != STRING and self.r.random() < 0.2:
            return '[%s]' % ', '.join(self.expr(pv.el, max(d - 1, 0)) for _ in range(self.r.randrange(max(pv.length or 1, 1), 4)))
        if pv.arr:
            cands = self.vars(lambda v: v.arr and v.el == pv.el and (pv.const or not v.const) and
                              (pv.length is None or (v.length or 0) >= pv.length))
            if cands:
                return self.r.choice(cands).name
            return None
        return self.expr(pv.type, d)

    def int_expr(self, d):
        r = self.r
        if d <= 0 or r.random() < 0.25:
            v = self.pick_var(INT)
            if v and r.random() < 0.7:
                return v
            return self.int_lit()
        c = r.random()
        if c < 0.40:
            op = r.choice(['+', '-', '*', '+', '-'])
            return '(%s %s %s)' % (self.int_operand(d - 1), op, self.int_operand(d - 1))
        if c < 0.50:
            op = r.choice(['/', '%'])
            if r.random() < self.feat['faults']:
                return '(%s %s %s)' % (self.int_operand(d - 1), op, self.int_operand(d - 1))
            k = r.choice([1, 2, 3, 7, 10, 16, -3, -1])
            if r.random() < 0.5:
                return '(%s %s %s)' % (self.int_operand(d - 1), op, k if k > 0 else '(%d)' % k)
            return '(%s %s ((%s %% 5 + 5) %% 5 + 1))' % (self.int_operand(d - 1), op, self.int_operand(d - 1))
        if c < 0.58:
            if r.random() < 0.25:
                return '(+%s)' % self.int_operand(d - 1)
            return '(-%s)' % self.int_operand(d - 1)
        if c < 0.66 and self.feat['bools']:
            return '(%s is int)' % self.bool_expr(d - 1)
        if c < 0.74 and self.feat['arrays']:
            e = self.elem(INT, d)
            if e:
                return e
        if c < 0.80 and self.feat['arrays']:
            arrs = self.vars(lambda v: v.arr)
            if arrs:
                return '%s.length' % r.choice(arrs).name
        if c < 0.84 and self.feat['strings']:
            if r.random() < 0.4:
                return '%s.length' % self.str_expr(d - 1)
            s = self.pick_var(STRING)
            if s:
                return '%s.length' % s
        if c < 0.94 and self.feat['funcs']:
            e = self.call_of(INT, d)
            if e:
                return e
        return self.int_operand(d - 1)

    def int_operand(self, d):
        if self.feat['bytes'] and self.r.random() < 0.2:
            return self.byte_expr(d)
        return self.int_expr(d)

    def byte_expr(self, d):
        r = self.r
        if d <= 0 or r.random() < 0.35:
            v = self.pick_var(BYTE)
            if v and r.random() < 0.7:
                return v
            return self.byte_lit()
        c = r.random()
        if c < 0.35:
            return '(%s is byte)' % self.int_expr(d - 1)
        if c < 0.45 and self.feat['bools']:
            return '(%s is byte)' % self.bool_expr(d - 1)
        if c < 0.65 and self.feat['arrays']:
            e = self.elem(BYTE, d)
            if e:
                return e
        if c < 0.80 and self.feat['strings']:
            ss = self.vars(lambda v: not v.arr and v.type == STRING and v.length)
            if ss:
                s = r.choice(ss)
                return '%s[%s]' % (s.name, self.safe_index(s, d))
        if c < 0.9 and self.feat['funcs']:
            e = self.call_of(BYTE, d)
            if e:
                return e
        v = self.pick_var(BYTE)
        return v or self.byte_lit()

    def bool_expr(self, d):
        r = self.r
        if d <= 0 or r.random() < 0.2:
            v = self.pick_var(BOOL)
            if v and r.random() < 0.6:
                return v
            return r.choice(['true', 'false'])
        c = r.random()
        if c < 0.35:
            op = r.choice(['<', '<=', '>', '>=', '==', '!='])
            return '(%s %s %s)' % (self.int_operand(d - 1), op, self.int_operand(d - 1))
        if c < 0.45:
            op = r.choice(['==', '!='])
            return '(%s %s %s)' % (self.bool_expr(d - 1), op, self.bool_expr(d - 1))
        if c < 0.65:
            op = r.choice(['and', 'or'])
            return '(%s %s %s)' % (self.truthy(d - 1), op, self.truthy(d - 1))
        if c < 0.75:
            return '(not %s)' % self.truthy(d - 1)
        if c < 0.85:
            return '(%s is bool)' % self.truthy_nonbool(d - 1)
        if c < 0.92 and self.feat['arrays']:
            e = self.elem(BOOL, d)
            if e:
                return e
        if self.feat['funcs']:
            e = self.call_of(BOOL, d)
            if e:
                return e
        return r.choice(['true', 'false'])

    def truthy_nonbool(self, d):
        r = self.r
        c = r.random()
        if c < 0.5:
            return self.int_expr(d)
        if c < 0.7 and self.feat['bytes']:
            return self.byte_expr(d)
        if c < 0.85 and self.feat['strings']:
            return self.str_expr(d)
        arrs = self.vars(lambda v: v.arr)
        if arrs and self.feat['arrays']:
            return r.choice(arrs).name
        return self.int_expr(d)

    def truthy(self, d):
        if self.r.random() < 0.7:
            return self.bool_expr(d)
        return self.truthy_nonbool(d)

    def str_expr(self, d):
        r = self.r
        v = self.pick_var(STRING)
        if v and r.random() < 0.5:
            return v
        if d > 0 and self.feat['arrays'] and r.random() < 0.3:
            e = self.elem(STRING, d)
            if e:
                return e
        if d > 0 and self.feat['funcs'] and r.random() < 0.3:
            e = self.call_of(STRING, d)
            if e:
                return e
        return self.str_lit()

    # ------------------------------------------------------------------ statements
    def write_stmt(self, d):
        r = self.r
        t = r.choice([INT, INT, INT, BYTE, BOOL, STRING] if self.feat['strings'] else [INT, INT, BYTE, BOOL])
        if t == BYTE and not self.feat['bytes']:
            t = INT
        if t == BOOL and not self.feat['bools']:
            t = INT
        fn = r.choice(['write', 'writeln'])
        if self.feat['arrays'] and r.random() < 0.1:
            arrs = self.vars(lambda v: v.arr and v.el == BYTE and v.length is not None)
            if arrs:
                return '%s(%s);' % (fn, r.choice(arrs).name)
        return '%s(%s); write(\' \');' % (fn, self.expr(t, d))

    def decl_stmt(self, d):
        r = self.r
        c = r.random()
        if self.feat['arrays'] and c < 0.3:
            return self.array_decl(d)
        t = r.choice([INT, INT, INT, BYTE, BOOL, STRING])
        if t == STRING and not self.feat['strings']:
            t = INT
        if t == BYTE and not self.feat['bytes']:
            t = INT
        if t == BOOL and not self.feat['bools']:
            t = INT
        # sometimes shadow a global
        gl = [g for g in self.globals if not g.arr and g.type == t and not any(v.name == g.name for sc in self.scopes for v in sc)]
        name = r.choice(gl).name if gl and r.random() < 0.15 else self.fresh()
        e = self.expr(t, d)
        const = r.random() < 0.1
        length = None
        v = Var(name, t, const=const, length=length)
        if t == STRING and e.startswith('"'):
            try:
                v.length = len(eval(e).encode('utf-8'))
            except Exception:
                v.length = None
            if const:
                v.length = None if v.length is None else v.length
        self.declare(v)
        return '%s%s %s = %s;' % ('const ' if const else '', t, name, e)

    def array_decl(self, d):
        r = self.r
        el = r.choice([INT, INT, BYTE, BOOL, STRING])
        if el == STRING and not self.feat['strings']:
            el = INT
        if el == BYTE and not self.feat['bytes']:
            el = INT
        if el == BOOL and not self.feat['bools']:
            el = INT
        name = self.fresh('a')
        c = r.random()
        if c < 0.5:
            n = r.choice([1, 2, 3, 4, 5, 9])
            elems = [self.expr(el, d - 1) for _ in range(n)]
            const = r.random() < 0.3
            self.declare(Var(name, 'arr', const=const, arr=True, el=el, length=n))
            return '%s%s[] %s = [%s];' % ('const ' if const else '', el, name, ', '.join(elems))
        if c < 0.8:
            n = r.choice([1, 2, 3, 4, 8, 9])
            i = self.fresh('i')
            fill = self.expr(el, d - 1)
            self.declare(Var(name, 'arr', const=False, arr=True, el=el, length=n))
            lenexpr = str(n) if r.random() < 0.5 else '(%s)' % self.len_expr(n)
            return '%s %s[%s]; for (int %s = 0; %s < %d; %s += 1) { %s[%s] = %s; }' % (
                el, name, lenexpr, i, i, n, i, name, i, fill)
        if el == BYTE and self.feat['strings'] and r.random() < 0.5:
            se = self.str_expr(1)
            self.declare(Var(name, 'arr', const=True, arr=True, el=BYTE, length=None))
            return 'const byte[] %s = %s is byte[];' % (name, se)
        src = self.vars(lambda v: v.arr and v.el == el)
        if src:
            s = r.choice(src)
            self.declare(Var(name, 'arr', const=s.const, arr=True, el=el, length=s.length))
            return '%s%s[] %s = %s;' % ('const ' if s.const else '', el, name, s.name)
        n = 2
        self.declare(Var(name, 'arr', const=False, arr=True, el=el, length=n))
        return '%s[] %s = [%s, %s];' % (el, name, self.expr(el, 0), self.expr(el, 0))

    def len_expr(self, n):
        """an int expression whose value is n but which is not a literal"""
        v = self.pick_var(INT)
        if v:
            return '%s - %s + %d' % (v, v, n)
        return '%d + %d' % (n - 1, 1)

    def assign_stmt(self, d):
        r = self.r
        vs = self.vars(lambda v: not v.arr and not v.const and v.type != STRING or (not v.arr and not v.const))
        arrs = self.vars(lambda v: v.arr and not v.const and v.length and v.mutable_elems)
        if arrs and self.feat['arrays'] and r.random() < 0.4:
            a = r.choice(arrs)
            idx = self.safe_index(a, d) if r.random() >= self.feat['faults'] else self.int_expr(d - 1)
            if a.el in (INT, BYTE) and r.random() < 0.4:
                op = r.choice(['+=', '-=', '*=', '+='] + (['/=', '%='] if r.random() < 0.3 else []))
                rhs = self.int_expr(d - 1) if a.el == INT else self.byte_lit()
                if op in ('/=', '%=') and r.random() >= self.feat['faults']:
                    rhs = str(r.choice([1, 2, 3, 7]))
                return '%s[%s] %s %s;' % (a.name, idx, op, rhs)
            return '%s[%s] = %s;' % (a.name, idx, self.expr(a.el, d - 1))
        if not vs:
            return self.write_stmt(d)
        v = r.choice(vs)
        if v.type == INT and r.random() < 0.4:
            op = r.choice(['+=', '-=', '*='])
            return '%s %s %s;' % (v.name, op, self.int_operand(d - 1))
        if v.type == BYTE and r.random() < 0.3:
            return '%s %s %s;' % (v.name, r.choice(['+=', '-=']), self.byte_lit())
        if v.type == STRING:
            v.length = None
        return '%s = %s;' % (v.name, self.expr(v.type, d - 1))

    def block(self, d, n=None):
        self.scopes.append([])
        n = n if n is not None else self.r.randrange(1, 4)
        body = ' '.join(self.stmt(d) for _ in range(n))
        self.scopes.pop()
        return '{ %s }' % body

    def stmt(self, d):
        r = self.r
        c = r.random()
        if d <= 0:
            return r.choice([self.write_stmt, self.assign_stmt])(1)
        if self.cur_ret is not None and r.random() < 0.07:
            val = '' if self.cur_ret == 'empty' else ' ' + self.expr(self.cur_ret, 1)
            return 'if (%s) { %sreturn%s; }' % (self.bool_expr(d - 1), self.write_stmt(1) + ' ' if r.random() < 0.5 else '', val)
        tt = self.feat['tt']
        if tt and self.ctx == 'you':
            x = r.random()
            if x < tt * 0.45:
                return self.try_stmt(d)
            if x < tt * 0.6:
                return self.spec_stmt(d)
        if tt and self.ctx in ('try', 'defeat') and r.random() < tt * 0.4:
            return self.defeat_stmt(d)
        if c < 0.22:
            return self.write_stmt(d)
        if c < 0.40:
            return self.decl_stmt(d)
        if c < 0.58:
            return self.assign_stmt(d)
        if c < 0.72:
            s = 'if (%s) %s' % (self.truthy(d - 1), self.block(d - 1))
            if r.random() < 0.5:
                s += ' else %s' % self.block(d - 1)
            return s
        if c < 0.86 and self.feat['loops']:
            return self.loop_stmt(d)
        if c < 0.90:
            return self.block(d - 1)
        if c < 0.95 and self.in_loop:
            return 'if (%s) { %s; }' % (self.bool_expr(1), r.choice(['break', 'continue']))
        if self.feat['funcs']:
            fs = [f for f in self.funcs if f.flavor in self.flavors() and f.ret == 'empty' and f is not getattr(self, 'cur_func', None)]
            if fs:
                f = r.choice(fs)
                args = [self.arg_for(pv, d - 1) for _, pv in f.params]
                if all(a is not None for a in args):
                    return '%s(%s);' % (f.name, ', '.join(args))
        return self.write_stmt(d)

    # ------------------------------------------------------------------ time travel
    def try_stmt(self, d):
        r = self.r
        kind = r.choice(['undo', 'stop'])
        old = self.ctx
        self.ctx = 'try'
        self.scopes.append([])
        n, at = r.randrange(0, 3), r.randrange(0, 3)
        body = []
        for k in range(n + 1):
            if k == min(at, n):
                body.append(self.defeat_stmt(d - 1))
            if k < n:
                body.append(self.stmt(d - 1))
        if r.random() < 0.5:
            body.append(self.write_stmt(1))
        self.scopes.pop()
        self.ctx = old
        handler = self.block(d - 1, n=r.randrange(0, 3))
        return 'try { %s } %s %s' % (' '.join(body), kind, handler)

    def defeat_stmt(self, d):
        """a statement that may lead to defeat (try body or defeat function)"""
        r = self.r
        c = r.random()
        dfs = [f for f in self.funcs if f.flavor == '!' and f is not getattr(self, 'cur_func', None)]
        if c < 0.10:
            return 'if (%s) { !is_defeat(); }' % self.bool_expr(1)
        if c < 0.38 and dfs:
            f = r.choice(dfs)
            args = [self.arg_for(pv, max(d - 1, 0)) for _, pv in f.params]
            if all(a is not None for a in args):
                call = '%s(%s)' % (f.name, ', '.join(args))
                if f.ret == 'empty':
                    return call + ';'
                if f.ret == STRING:
                    return 'write(%s);' % call
                return 'write(%s); write(\' \');' % call
        if c < (0.46 if self.ctx == 'defeat' else 0.58) and d > 0:
            return 'preempt %s' % self.block(d - 1)
        return '!truth_is_defeat(%s);' % self.bool_expr(max(d - 1, 1))

    def spec_stmt(self, d):
        """speculation `a ?? b` at a full-expression position of a you-function; operands are ordinary expressions"""
        r = self.r
        old = self.ctx
        self.ctx = 'plain'
        t = r.choice([INT, INT, BYTE, BOOL]) if self.feat['bytes'] and self.feat['bools'] else INT
        a, b = self.expr(t, d - 1), self.expr(t, d - 1)
        if t == INT:     # the right operand is coerced to the type of the left one: make sure the left one is an int
            v = self.pick_var(INT)
            a = self.call_of(INT, d) or ('(%s %s %s)' % (self.int_operand(d - 1), r.choice(['+', '-', '*']), self.int_operand(d - 1))
                                         if r.random() < 0.6 or not v else v)
        if t == BYTE and a.lstrip('-').isdigit():
            a = '(%s is byte)' % a
        self.ctx = old
        c = r.random()
        if c < 0.4:
            name = self.fresh()
            self.declare(Var(name, t))
            return '%s %s = %s ?? %s;' % (t, name, a, b)
        if c < 0.6:
            vs = self.vars(lambda v: not v.arr and not v.const and v.type == t)
            if vs:
                return '%s = %s ?? %s;' % (r.choice(vs).name, a, b)
        if t == BYTE:
            return 'write((%s ?? %s) is int); write(\' \');' % (a, b)
        return 'write(%s ?? %s); write(\' \');' % (a, b)

    def loop_stmt(self, d):
        r = self.r
        i = self.fresh('i')
        n = r.choice([1, 2, 3, 4])
        self.in_loop += 1
        self.scopes.append([Var(i, INT, const=True)])   # const: the body must not assign the counter
        c = r.random()
        if c < 0.5:
            body = self.block(d - 1)
            s = 'for (int %s = 0; %s < %d; %s += 1) %s' % (i, i, n, i, body)
        elif c < 0.65:
            body = self.block(d - 1)
            s = '{ int %s = 0; while (true) { %s += 1; if (%s > %d) { break; } %s } }' % (i, i, i, n, body)
        else:
            body = self.block(d - 1)
            s = '{ int %s = 0; while (%s < %d) { %s += 1; %s } }' % (i, i, n, i, body)
        self.scopes.pop()
        self.in_loop -= 1
        return s

    # ------------------------------------------------------------------ functions / program
    def recursive_function(self):
        """int rN(int d, int acc): bounded recursion (depth clamped to 3) with work on the way down and up"""
        r = self.r
        name = self.fresh('rec')
        d, acc = Var(self.fresh('p'), INT, const=True), Var(self.fresh('p'), INT)
        f = Func(name, INT, [('int', d), ('int', acc)])
        self.scopes.append([d, acc])
        self.cur_func = f
        pre = self.stmt(1)
        step = self.int_expr(1)
        post = self.stmt(1)
        self.cur_func = None
        self.scopes.pop()
        self.funcs.append(f)
        return ('int %s(int %s, int %s) { if (%s <= 0 or %s > 3) { return %s; } %s int up = %s(%s - 1, %s + %s); %s return up + %s; }'
                % (name, d.name, acc.name, d.name, d.name, acc.name, pre, name, d.name, acc.name, step, post, d.name))

    def function(self, idx, flavor=''):
        r = self.r
        if not flavor and self.feat['recursion'] and r.random() < 0.25:
            return self.recursive_function()
        ret = r.choice([INT, INT, BOOL, BYTE, 'empty', STRING])
        if ret == STRING and not self.feat['strings']:
            ret = INT
        name = r.choice(['f', 'g', 'h']) if r.random() < 0.5 else self.fresh('fn')
        if flavor and ret == STRING and r.random() < 0.5:
            ret = 'empty'
        name = flavor + name
        params = []
        self.scopes.append([])
        sig = []
        for _ in range(r.randrange(0, 4)):
            if self.feat['arrays'] and r.random() < 0.3:
                el = r.choice([INT, BYTE, BOOL])
                const = r.random() < 0.6
                pv = Var(self.fresh('p'), 'arr', const=const, arr=True, el=el, length=1)
                tt = '%s%s[]' % ('const ' if const else '', el)
            else:
                t = r.choice([INT, INT, BYTE, BOOL, STRING])
                if t == STRING and not self.feat['strings']:
                    t = INT
                pv = Var(self.fresh('p'), t)
                tt = t
            params.append((tt, pv))
            sig.append(tt)
            self.declare(pv)
        # overloads must differ in parameter types
        if any(f.name == name and [p[0] for p in f.params] == sig for f in self.funcs):
            name = flavor + self.fresh('fn')
        f = Func(name, ret, params, flavor)
        self.cur_func = f
        self.cur_ret = ret
        self.ctx = {'': 'plain', '!': 'defeat', '@': 'you'}[flavor]
        n = r.randrange(1, 4)
        at = r.randrange(0, n + 1) if flavor == '!' and r.random() < 0.7 else -1
        body = []
        for k in range(n + 1):
            if k == at:
                body.append(self.defeat_stmt(1))
            if k < n:
                body.append(self.stmt(self.feat['depth'] - 1))
        if ret != 'empty':
            body.append('return %s;' % self.expr(ret, 2))
        self.ctx = 'plain'
        self.cur_ret = None
        self.cur_func = None
        self.scopes.pop()
        self.funcs.append(f)
        return '%s %s(%s) { %s }' % (ret, name, ', '.join('%s %s' % (tt, pv.name) for tt, pv in params), ' '.join(body))

    def global_decl(self):
        r = self.r
        c = r.random()
        if self.feat['arrays'] and c < 0.35:
            el = r.choice([INT, BYTE, BOOL])
            name = self.fresh('G')
            if r.random() < 0.5:
                n = r.choice([1, 2, 3, 8, 9])
                self.globals.append(Var(name, 'arr', arr=True, el=el, length=n))
                return '%s %s[%d];' % (el, name, n)
            n = r.choice([1, 2, 3, 9])
            const = r.random() < 0.5
            lits = {INT: self.int_lit, BYTE: self.byte_lit, BOOL: lambda: r.choice(['true', 'false'])}[el]
            self.globals.append(Var(name, 'arr', const=const, arr=True, el=el, length=n))
            return '%s%s[] %s = [%s];' % ('const ' if const else '', el, name, ', '.join(lits() for _ in range(n)))
        t = r.choice([INT, INT, BYTE, BOOL, STRING])
        if t == STRING and not self.feat['strings']:
            t = INT
        name = self.fresh('g')
        lit = {INT: self.int_lit, BYTE: self.byte_lit, BOOL: lambda: r.choice(['true', 'false']), STRING: self.str_lit}[t]()
        const = r.random() < 0.2
        v = Var(name, t, const=const)
        if t == STRING:
            try:
                v.length = len(eval(lit).encode('utf-8')) if const else None
            except Exception:
                v.length = None
        self.globals.append(v)
        return '%s%s %s = %s;' % ('const ' if const else '', t, name, lit)

    def program(self):
        r = self.r
        parts = []
        if self.feat['globals']:
            for _ in range(r.randrange(0, 4)):
                parts.append(self.global_decl())
        if self.feat['funcs']:
            for i in range(r.randrange(0, 4)):
                parts.append(self.function(i))
        if self.feat['tt']:
            for i in range(r.randrange(0, 3)):
                parts.append(self.function(i, '!'))
            for i in range(r.randrange(0, 2)):
                parts.append(self.function(i, '@'))
        # entry point
        params = []
        self.scopes.append([])
        ptxt = []
        inputs = []
        shape = r.choice(['ii', 'i', 'ib', 'is', 'A', 'iA', 'B', 'S', ''])
        for ch in shape:
            n = self.fresh('x')
            if ch == 'i':
                self.declare(Var(n, INT))
                ptxt.append('int ' + n)
                inputs.append('int')
            elif ch == 'b' and self.feat['bytes']:
                self.declare(Var(n, BYTE))
                ptxt.append('byte ' + n)
                inputs.append('byte')
            elif ch == 's' and self.feat['strings']:
                self.declare(Var(n, STRING))
                ptxt.append('string ' + n)
                inputs.append('string')
            elif ch == 'A' and self.feat['arrays']:
                const = r.random() < 0.5
                self.declare(Var(n, 'arr', const=const, arr=True, el=INT, length=None))
                ptxt.append('%sint[] %s' % ('const ' if const else '', n))
                inputs.append('int[]')
            elif ch == 'B' and self.feat['arrays'] and self.feat['bytes']:
                self.declare(Var(n, 'arr', const=True, arr=True, el=BYTE, length=None))
                ptxt.append('const byte[] ' + n)
                inputs.append('byte[]')
            elif ch == 'S' and self.feat['arrays'] and self.feat['strings']:
                self.declare(Var(n, 'arr', const=True, arr=True, el=STRING, length=None))
                ptxt.append('const string[] ' + n)
                inputs.append('string[]')
        self.ctx = 'you'
        self.cur_ret = 'empty'
        body = [self.stmt(self.feat['depth']) for _ in range(r.randrange(2, self.feat['stmts'] + 1))]
        self.ctx = 'plain'
        self.cur_ret = None
        # make array parameters observable
        for v in self.scopes[-1]:
            if v.arr and v.el == INT:
                body.append('for (int %s = 0; %s < %s.length; %s += 1) { write(%s[%s]); write(\',\'); }' % (
                    ('k%s' % v.name,) * 2 + (v.name,) + ('k%s' % v.name,) + (v.name, 'k%s' % v.name)))
            elif v.arr and v.el == BYTE:
                body.append('write(%s);' % v.name)
            elif v.arr and v.el == STRING:
                body.append('for (int %s = 0; %s < %s.length; %s += 1) { write(%s[%s]); write(\',\'); }' % (
                    ('k%s' % v.name,) * 2 + (v.name,) + ('k%s' % v.name,) + (v.name, 'k%s' % v.name)))
        self.scopes.pop()
        parts.append('empty @is_you(%s) { %s }' % (', '.join(ptxt), ' '.join(body)))
        return '\n'.join(parts), inputs

    # ------------------------------------------------------------------ inputs
    def input_grid(self, kinds, k=6):
        """k argument vectors for the given parameter kinds."""
        r = self.r
        m = self.max_int
        ints = [0, 1, -1, 2, 7, 8, 9, 10, 127, 128, 255, 256, -128, -129, m, -m - 1, m - 1, -m]
        out = []
        for j in range(k):
            vec = []
            for kd in kinds:
                if kd == 'int':
                    vec.append(str(ints[j % len(ints)] if j < 3 else r.choice(ints + [r.randrange(-m - 1, m + 1)])))
                elif kd == 'byte':
                    vec.append(str(r.choice([0, 1, 9, 10, 48, 127, 128, 255])))
                elif kd == 'string':
                    vec.append(r.choice(['', 'a', 'hello!', 'café 7']))
                elif kd == 'int[]':
                    vec += [str(r.choice(ints)) for _ in range(r.choice([0, 1, 2, 4]))]
                elif kd == 'byte[]':
                    vec += [str(r.choice([0, 65, 66, 97, 255, 10])) for _ in range(r.choice([0, 1, 3, 5]))]
                elif kd == 'string[]':
                    vec += [r.choice(['', 'a', 'xyz', 'hé']) for _ in range(r.choice([0, 1, 2, 3]))]
            out.append(vec)
        # dedupe
        seen = []
        for v in out:
            if v not in seen:
                seen.append(v)
        return seen


def generate(seed, feat=None, w=2, k=6):
    g = Gen(seed, feat, w)
    src, kinds = g.program()
    return src, g.input_grid(kinds, k)
