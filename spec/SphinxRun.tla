------------------------------ MODULE SphinxRun ------------------------------
(* Root specification for executing a batch of compiled programs: one behaviour per (program, input). *)
(* Every reachable state is a machine state of the real compiler's output; the verdict predicates are   *)
(* evaluated in each of them and the outcome of each behaviour is reported once, when it ends, through *)
(* PrintT (so that one TLC run reports every failing case of the batch instead of stopping at the      *)
(* first).  A behaviour cut by the fuel constraint prints nothing and is counted as inconclusive.       *)
EXTENDS SphinxRT
CONSTANT MaxLevel
VARIABLE reported
vars == <<mvars, rvars, reported>>

Init == RTInit /\ reported = FALSE
Done == status # "run" \/ alarm # ""
Verdict == [halted |-> ~NoRealHalt, fault |-> ~NoFault, alarm |-> alarm]
Finish == /\ Done /\ ~reported /\ reported' = TRUE
          /\ PrintT(ToString(<<"HV", "R", prog, inp, Verdict, status, pc, TLCGet("level"), Obs(out, status)>>))
          /\ UNCHANGED <<mvars, rvars>>
Next == \/ ~Done /\ RTStep /\ UNCHANGED reported
        \/ Finish
Spec == Init /\ [][Next]_vars
Fuel == TLCGet("level") <= MaxLevel
=============================================================================
