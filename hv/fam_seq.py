"""Enumerated families for the sequential core (C01): boolean structure in every usage position, evaluation
order / operand preservation across side-effecting operands, casts of computed values, call protocol."""
import itertools, random
from . import runner


# ------------------------------------------------------------------------------------------------ boolean structure
def formulas(depth):
    """all formulas over atoms p, q, (a < b) and constants with not / and / or, up to the given depth"""
    atoms = ['p', 'q', '(a < b)', 'true', 'false']
    level = {0: list(atoms)}
    for d in range(1, depth + 1):
        prev = [f for k in range(d) for f in level[k]]
        last = level[d - 1]
        cur = []
        for f in last:
            cur.append('(not %s)' % f)
        for f in last:
            for g in prev:
                for op in ('and', 'or'):
                    cur.append('(%s %s %s)' % (f, op, g))
                    if g not in last:
                        cur.append('(%s %s %s)' % (g, op, f))
        level[d] = cur
    return level


BOOL_PROG = '''empty !d(bool c) { !truth_is_defeat(c); }
empty @is_you(int pi, int qi, int a, int b) {
  bool p = pi is bool; bool q = qi is bool;
%s
}'''


def bool_structure(seed, tier):
    rnd = random.Random(seed)
    lv = formulas(2)
    fs = lv[0] + lv[1] + lv[2]
    if tier == 'quick':
        nots = [f for f in lv[2] if f.startswith('(not ')]
        d2 = [f for f in lv[2] if not f.startswith('(not ')]
        rnd.shuffle(d2)
        fs = lv[0] + lv[1] + nots + d2[:110]
    items = []
    per = 6
    for i in range(0, len(fs), per):
        body = []
        for j, f in enumerate(fs[i:i + per]):
            body.append("  if (%s) { write('T'); } else { write('F'); }" % f)
            body.append("  { int n = 0; while (%s and n < 1) { n += 1; } write(n); }" % f)
            body.append("  { bool v = %s; write(v is int); }" % f)
            body.append("  try { !truth_is_defeat(%s); write('n'); } undo { write('u'); }" % f)
            body.append("  try { !d(%s); write('n'); } stop { write('s'); }" % f)
            body.append("  write(' ');")
        src = BOOL_PROG % '\n'.join(body)
        for pi, qi, a, b in [(0, 0, 0, 1), (0, 1, 1, 0), (1, 0, 0, 0), (1, 1, 1, 2)]:
            items.append(runner.Item(('boolst', i, pi, qi, a, b), src, [str(pi), str(qi), str(a), str(b)], s=120,
                                     meta={'family': 'bool_structure', 'classifier': {'seq': 'bool_structure'}}))
    return items


# ------------------------------------------------------------------------------------------------ evaluation order
ORDER_PRELUDE = '''int gi = 5; byte gb = 7; bool gt = true; string gs = "ab";
int[] GA = [10, 20, 30];
int bump_i() { gi += 1; write('i'); return 1; }
int bump_b() { gb += 1; write('b'); return 1; }
int flip_t() { gt = not gt; write('t'); return 1; }
int set_s() { gs = "xyz"; write('s'); return 1; }
int poke(int[] arr, int k) { arr[k] += 100; write('k'); return 1; }
int zero_i() { gi = 0; return 0; }
'''

ORDER_CASES = [
    # left operand is a mutable global of each type, right operand mutates it
    'write(gi + bump_i());', 'write(gi - bump_i());', 'write(gi * (bump_i() + 1));', 'write(gi < gi + bump_i() - 1);',
    'write(gb + bump_b());', 'write(gb - bump_b());', 'write(gb == gb + bump_b() - 1);', 'write(gb < bump_b() * 8);',
    'write(gt == (flip_t() is bool));', 'write(gt != (flip_t() == 1));', 'write((gt is int) + flip_t());',
    'write(gt and (flip_t() == 1)); write(gt);', 'write(gt or (flip_t() == 1)); write(gt);',
    'write(gs[set_s()]); write(gs);', 'write(gs.length + set_s()); write(gs);',
    'write(GA[bump_i()]); write(GA[gi - 6 + bump_i()]);', 'write(GA[0] + poke(GA, 0)); write(GA[0]);',
    'int[] loc = [1, 2, 3]; write(loc[1] + poke(loc, 1)); write(loc[1] * poke(loc, 1)); write(loc[1]);',
    'byte[] lb = [1, 2]; write(lb[0] + bump_b()); write(gb);',
    'write(bump_i() + gi); write(bump_b() + gb);',
    'write([gi, bump_i(), gi][0]); int[] t = [gi, bump_i(), gi]; write(t[0]); write(t[2]);',
    'write(gi / (bump_i() + 1)); write(gi % (bump_i() + 2));',
    'gi = gi + bump_i(); write(gi); gi += bump_i(); write(gi); gb += (bump_b() is byte); write(gb is int);',
    'GA[bump_i() - 1] = gi; write(GA[0]); GA[1] += bump_i(); write(GA[1]); GA[zero_i()] = gi; write(GA[0]);',
    'write(two(gi, bump_i())); write(two(bump_i(), gi)); write(twob(gb, bump_b()));',
    'if (gi < gi + bump_i()) { write(\'Y\'); } else { write(\'N\'); } if (gb + 1 == gb + bump_b()) { write(\'y\'); } else { write(\'n\'); }',
    'int k = 0; while (gi < 8 + zero_k(k)) { gi += 1; k += 1; } write(k);',
    'try { !truth_is_defeat(gi == gi + bump_i()); write(\'n\'); } undo { write(\'u\'); } write(gi);',
    'try { !truth_is_defeat(gb + 1 == gb + bump_b()); write(\'n\'); } undo { write(\'u\'); } write(gb is int);',
    'write((gi ?? bump_i()) + gi);',
    'write(-gi + bump_i()); write((gi is byte) + bump_i()); write((gb is int) * (bump_b() + 1));',
    'write(gi == gi - zero_i()); write(gi);',
    'write(("ab"[bump_i() - 1] is int) + gi);',
    'write(lenof(gs) + set_s()); write(gs.length);',
]
ORDER_HELPERS = '''int two(int x, int y) { return x * 10 + y; }
int twob(byte x, int y) { return x * 10 + y; }
int zero_k(int k) { return 0; }
int lenof(string s) { return s.length; }
'''


def eval_order(seed, tier):
    items = []
    per = 3
    cases = list(ORDER_CASES)
    for i in range(0, len(cases), per):
        chunk = cases[i:i + per]
        body = ' write(\' \'); gi = 5; gb = 7; gt = true; gs = "ab"; '.join(chunk)
        src = ORDER_PRELUDE + ORDER_HELPERS + 'empty @is_you() { %s }' % body
        for w in ([2, 3] if tier == 'quick' else [2, 3, 4, 8]):
            items.append(runner.Item(('order', i, w), src, [], w=w, s=160,
                                     meta={'family': 'eval_order', 'classifier': {'seq': 'eval_order'}}))
    return items


# ------------------------------------------------------------------------------------------------ casts of computed values
CAST_PROG = '''byte gb = 200; int gi = 300;
int id(int v) { return v; }
empty @is_you(int a, int b) {
  int[] arr = [a, b, 7];
%s
}'''
CAST_EXPRS = ['(a + b)', '(a * 3)', '(a - b)', 'id(a)', 'arr[0]', '(arr[1] + 1)', '(gi + a)', '(-a)', '(a / 2)', '(gb + a)', '(arr.length * a)']


def computed_casts(seed, tier):
    items = []
    stmts = []
    for e in CAST_EXPRS:
        stmts.append('  write((%s is byte) is int); write(\',\');' % e)
        stmts.append('  write((%s is byte) + 1); write(\',\');' % e)
        stmts.append('  write((%s is byte) < 100); write((%s is byte) == (b is byte)); write(\',\');' % (e, e))
        stmts.append('  write(arr[(%s is byte) %% 3]); write(\',\');' % e)
        stmts.append('  if ((%s is byte) > 127) { write(\'H\'); } else { write(\'L\'); }' % e)
        stmts.append('  { byte t = %s is byte; write(t is int); } write((%s is bool) is int); write(((%s is byte) is bool) is int); writeln();' % (e, e, e))
    per = 12
    grid = [(0, 0), (1, 255), (255, 1), (256, 256), (300, -1), (-1, 300), (-256, 44), (127, 128), (32767, 1), (-32768, -1), (1000, 999)]
    for i in range(0, len(stmts), per):
        src = CAST_PROG % '\n'.join(stmts[i:i + per])
        for w in ([2, 3] if tier == 'quick' else [2, 3, 4, 8]):
            for a, b in (grid[:6] if tier == 'quick' else grid):
                items.append(runner.Item(('ccast', i, a, b, w), src, [str(a), str(b)], w=w, s=160,
                                         meta={'family': 'computed_casts', 'classifier': {'seq': 'computed_casts'}}))
    return items


# ------------------------------------------------------------------------------------------------ indexing / layout at every word size
LAYOUT_PROG = '''int[] GI = [11, 22, 33, 44];
const int[] CI = [5, 6, 7, 8, 9];
string[] GS = ["a", "bb", "ccc"];
int sum(const int[] p) { int s = 0; for (int i = 0; i < p.length; i += 1) { s += p[i] * (i + 1); } return s; }
empty fill(int[] p) { for (int i = 0; i < p.length; i += 1) { p[i] = i * 3 + 1; } }
empty @is_you(int k, const int[] v) {
  int[] li = [1, 2, 3, 4];
  int d[k + 2];
  fill(d);
  string[] ls = ["x", "yy", "zzz"];
  bool[] lo = [true, false, true, true, false, false, true, false, true, true];
  for (int i = 0; i < 4; i += 1) { write(GI[i]); write(li[i]); write(CI[i]); write(','); }
  for (int j = 0; j < d.length; j += 1) { write(d[j]); } write(',');
  for (int m = 0; m < 3; m += 1) { write(GS[m]); write(ls[m]); write(GS[m].length); } write(',');
  for (int n = 0; n < lo.length; n += 1) { write(lo[n] is int); } write(',');
  for (int q = 0; q < v.length; q += 1) { write(v[q]); write(' '); }
  write(sum(li)); write(sum(GI)); write(sum(CI)); write(sum(v)); write(sum(d));
  li[k] = 9; GI[k] += 5; d[k] *= 2; ls[k] = "new"; lo[k + 7] = not lo[k + 7];
  write(li[k]); write(GI[k]); write(d[k]); write(ls[k]); write(lo[k + 7]);
}'''


def layout(seed, tier):
    items = []
    for w in ([2, 3, 4] if tier == 'quick' else [2, 3, 4, 8]):
        for k, v in [(0, ['1', '2']), (1, ['7']), (2, ['-1', '0', '5', '300'])]:
            items.append(runner.Item(('layout', w, k), LAYOUT_PROG, [str(k)] + v, w=w, s=200,
                                     meta={'family': 'layout', 'classifier': {'seq': 'layout'}}))
    return items
