"""C14 Compile-time evaluation is invisible.  Decided by Refine.tla on TWINS: the compiled constant form must
behave like HiDSem run on the same expression over run-time variables holding the same values (the `wrap`
history bit of that run tells whether some intermediate value left the signed range); a compile-time rejection
is allowed only if the run-time twin faults."""
import time
from hv import rt, fam_ops, runner, common, hidc_api

PROP = 'C14'


def main(tier, seed):
    t0 = time.time()
    ws = [2] if tier == 'quick' else [2, 3, 4]
    items = fam_ops.twin_family(seed, tier, ws) + fam_ops.fold_family([2, 3] if tier == 'quick' else [2, 3, 4])
    keep, rejected = [], []
    for it in items:
        it.meta.setdefault('classifier', {})['twin'] = True
        try:
            hidc_api.compile_src(it.src, w=it.w, s=it.s)
            keep.append(it)
        except hidc_api.Rejected as e:
            # a constant form the compiler rejects: judge the twin alone - it must fault
            if 'twin' not in it.meta:
                keep.append(it)
                continue
            a, b, args = it.meta['twin']
            rejected.append(runner.Item(it.key + ('rej',), b, args, w=it.w, s=it.s,
                                        meta={'family': it.meta['family'] + ':rejected', 'rejected_msg': str(e), 'const_src': a}))
        except hidc_api.Crashed:
            keep.append(it)

    def postfilter(vs, its):
        res = list(vs)
        for it in rejected:
            x = it.result
            if x is None or it.skip:
                continue
            if ('f', 'division_by_zero') not in x['mobs'][0]:
                res.append(common.Violation(
                    PROP, 'constant expression rejected at compile time (%s) but its run-time twin does not fault' % it.meta['rejected_msg'],
                    classifier={'kind': 'rejected_without_fault', 'family': it.meta['family'], 'twin': True, 'all_constant': True,
                                'wraps': bool(x.get('wrap'))},     # HiDSem: some intermediate value of the twin left the signed range
                    detail={'constant_source': it.meta['const_src'], 'twin': it.src, 'args': it.args,
                            'twin_observable': rt.show(x['mobs'])}))
        return res
    return rt.standard(PROP, tier, seed, keep + rejected,
                       'random constant expressions (depth <= 3) over boundary literals and all arithmetic/comparison/logical '
                       'operators and casts, in four forms (write, const variable, global initialiser, condition), each against '
                       'its run-time twin', t0, postfilter=postfilter, extra_cov={'rejected_constant_forms': len(rejected)})
