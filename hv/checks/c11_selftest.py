"""C11 self-test: show that the binding between spec/Precedence.tla and hidc's parser bites.

  /venv/bin/python -m hv.checks.c11_selftest          (or  -m hv.checks.c11 --selftest)

(a) a scratch copy of the repository gets one small, realistic mutation of hidc/parser/grammar.py at a time;
    the check (tier `smoke`, HV_REPO=<copy>) must print VIOLATION and exit 1 for each; the upstream
    lexer/parser/typechecker tests are run on every mutant to record whether they notice;
(b) behaviour-preserving or dontcare-only variants of the grammar, and the unmodified copy, must be silent;
(c) one recorded field of one case is corrupted on the unmodified copy (children of a parsed tree swapped,
    an accepted case recorded as rejected) and TLC must reject exactly those records.
Evidence and replay files of these runs go to the scratch directory, never to /verif/evidence or /verif/replay.
"""
import json, os, shutil, subprocess, sys, time
from .. import common

PY = sys.executable

MUTANTS = [
    ('swap the `and` / `or` levels',
     [("return await bin_op(ps_expr6(ctx), {OpToken.AND: And})", "return await bin_op(ps_expr6(ctx), {OpToken.OR: Or})"),
      ("return await bin_op(ps_expr7(ctx), {OpToken.OR: Or})", "return await bin_op(ps_expr7(ctx), {OpToken.AND: And})")]),
    ('bin_op groups to the right',
     [("""    while op := await OneOf(operators):
        right = await expect(expr_rule)
        expr = operators[op.token](op.span, expr, right)
    return expr""",
       """    if op := await OneOf(operators):
        right = await expect(bin_op(expr_rule, operators))
        expr = operators[op.token](op.span, expr, right)
    return expr""")]),
    ('the `* / %` level groups to the right',
     [("""    return await bin_op(ps_expr3(ctx), {
        OpToken.MUL: Mul, OpToken.DIV: Div, OpToken.MOD: Mod
    })""",
       """    operators = {OpToken.MUL: Mul, OpToken.DIV: Div, OpToken.MOD: Mod}
    if not (expr := await ps_expr3(ctx)): return
    if op := await OneOf(operators):
        return operators[op.token](op.span, expr, await expect(ps_expr4(ctx)))
    return expr""")]),
    ('`%` moved to the additive level',
     [("OpToken.MUL: Mul, OpToken.DIV: Div, OpToken.MOD: Mod", "OpToken.MUL: Mul, OpToken.DIV: Div"),
      ("OpToken.ADD: Add, OpToken.SUB: Sub\n", "OpToken.ADD: Add, OpToken.SUB: Sub, OpToken.MOD: Mod\n")]),
    ('unary operators bind looser than `is`',
     [("return operators[op.token](op.span, await expect(ps_expr2(ctx)))",
       "return operators[op.token](op.span, await expect(ps_expr3(ctx)))")]),
    ('`<=` dropped from the comparison level',
     [("OpToken.LT: Lt, OpToken.LE: Le, OpToken.GT: Gt", "OpToken.LT: Lt, OpToken.GT: Gt")]),
    ('unary operators bind tighter than postfix index / .length',
     [("""    if op := await OneOf(operators):
        return operators[op.token](op.span, await expect(ps_expr2(ctx)))
    return await ps_expr1(ctx)""",
       """    if op := await OneOf(operators):
        expr = operators[op.token](op.span, await expect(ps_expr0(ctx)))
        while await Exact(BracToken.LSQUARE):
            index = await expect(ps_expr(ctx))
            end = await expect(Exact(BracToken.RSQUARE))
            expr = ArrayLookup(expr, index, end.span.end)
        return expr
    return await ps_expr1(ctx)""")]),
]

SILENT = [
    ('unmodified copy', []),
    ('`is` may be chained (dontcare D1 only)',
     [("""    if not await Exact(OpToken.IS):
        return expr
    tp = await expect(ps_data_type())
    if await Exact(BracToken.LSQUARE):
        await expect(Exact(BracToken.RSQUARE))
        tp = ArrayType(tp, const=True)
    return Is(Span(start, await cursor()), expr, tp)""",
       """    while await Exact(OpToken.IS):
        tp = await expect(ps_data_type())
        if await Exact(BracToken.LSQUARE):
            await expect(Exact(BracToken.RSQUARE))
            tp = ArrayType(tp, const=True)
        expr = Is(Span(start, await cursor()), expr, tp)
    return expr""")]),
    ('comparison level written as two chained tables (same behaviour)',
     [("""    return await bin_op(ps_expr5(ctx), {
        OpToken.LT: Lt, OpToken.LE: Le, OpToken.GT: Gt, OpToken.GE: Ge,
        OpToken.EQ: Eq, OpToken.NE: Ne
    })""",
       """    table = {OpToken.LT: Lt, OpToken.LE: Le, OpToken.GT: Gt, OpToken.GE: Ge}
    table.update({OpToken.NE: Ne, OpToken.EQ: Eq})
    return await bin_op(ps_expr5(ctx), dict(reversed(list(table.items()))))""")]),
]

DRIVER = r'''
import sys
from hv import common
common.EVID = sys.argv[1]; common.REPLAY = sys.argv[2]
from hv.checks import c11
mode = sys.argv[3]
if mode == 'corrupt':
    def corrupt(cases):
        i = next(k for k, c in enumerate(cases) if c['st'] == 'tree' and c['tree'][0] == 'bin'
                 and c['tree'][2][0] != c['tree'][2][1] and c['fam'] == 'a3')
        k, t, ch = cases[i]['tree']
        cases[i]['tree'] = (k, t, (ch[1], ch[0]))
        j = next(k for k, c in enumerate(cases) if c['st'] == 'tree' and c['fam'] == 'c' and k != i)
        cases[j]['st'], cases[j]['tree'] = 'reject', None
        return {'swapped_children_of_case': i, 'recorded_as_rejected': j}
    c11.CORRUPT = corrupt
common.main_wrapper(lambda: c11.main('smoke', 20260922))
'''


def _mutate(copy, edits):
    path = os.path.join(copy, 'hidc', 'parser', 'grammar.py')
    with open(path) as f:
        src = f.read()
    for old, new in edits:
        if src.count(old) != 1:
            raise common.Machinery('self-test mutation does not apply exactly once: %r' % old[:60])
        src = src.replace(old, new)
    with open(path, 'w') as f:
        f.write(src)


def _copy_repo(root, name):
    dst = os.path.join(root, name)
    os.makedirs(dst)
    for sub in ('hidc', 'tests'):
        shutil.copytree(os.path.join(common.REPO, sub), os.path.join(dst, sub),
                        ignore=shutil.ignore_patterns('__pycache__', '*.pyc'))
    for f in os.listdir(common.REPO):
        if f.endswith(('.cfg', '.toml', '.ini')) and os.path.isfile(os.path.join(common.REPO, f)):
            shutil.copy(os.path.join(common.REPO, f), dst)
    return dst


def _upstream_tests(copy):
    env = dict(os.environ, PYTHONDONTWRITEBYTECODE='1')
    p = subprocess.run([PY, '-m', 'pytest', '-q', '-p', 'no:cacheprovider', 'tests/test_lexer.py',
                        'tests/test_parser.py', 'tests/test_typecheck.py'], cwd=copy, env=env,
                       stdout=subprocess.PIPE, stderr=subprocess.STDOUT, timeout=900)
    tail = p.stdout.decode('utf-8', 'replace').strip().splitlines()[-1:] or ['']
    return p.returncode == 0, tail[0]


def _check(copy, root, tag, mode='plain'):
    ev, rp = os.path.join(root, 'ev_' + tag), os.path.join(root, 'rp_' + tag)
    os.makedirs(ev), os.makedirs(rp)
    env = dict(os.environ, HV_REPO=copy, PYTHONDONTWRITEBYTECODE='1')
    t = time.time()
    p = subprocess.run([PY, '-c', DRIVER, ev, rp, mode], cwd=common.VERIF, env=env, stdout=subprocess.PIPE,
                       stderr=subprocess.STDOUT, timeout=3000)
    out = p.stdout.decode('utf-8', 'replace')
    n = 0
    evf = os.path.join(ev, 'C11.json')
    cov = {}
    if os.path.exists(evf):
        with open(evf) as f:
            e = json.load(f)
        n, cov = e.get('violations', 0), e.get('coverage', {})
    first = next((l for l in out.splitlines() if l.startswith('VIOLATION')), '')
    return p.returncode, n, first, cov, time.time() - t, out


def _one(job):
    kind, k, what, edits, root = job
    tag = '%s%d' % (kind, k)
    copy = _copy_repo(root, tag)
    try:
        _mutate(copy, edits)
        lines, failures = [], []
        if kind == 'mut':
            up_ok, up_tail = _upstream_tests(copy)
            rc, n, first, cov, wall, out = _check(copy, root, tag)
            ok = rc == 1 and n > 0 and bool(first)
            lines.append('%s mutant %d: %s -> exit %d, %s violating cases (%.0fs); upstream tests %s (%s)' % (
                'CAUGHT' if ok else 'MISSED', k, what, rc, cov.get('mismatch', n), wall,
                'pass' if up_ok else 'FAIL', up_tail))
            if first:
                lines.append('       e.g. ' + first.split('#', 1)[-1].strip())
            if not ok:
                failures.append('mutant not detected: ' + what)
                lines.append(out[-1500:])
        else:
            rc, n, first, cov, wall, out = _check(copy, root, tag)
            ok = rc == 0 and n == 0
            lines.append('%s %s -> exit %d, %d violations, %s cases compared, %s dontcare (%.0fs)' % (
                'SILENT' if ok else 'FALSE-ALARM', what, rc, n, cov.get('traces_validated_against_impl'),
                cov.get('dontcare'), wall))
            if not ok:
                failures.append('not silent: ' + what)
                lines.append(out[-1500:])
            if not edits:
                rc, n, first, cov, wall, out = _check(copy, root, 'corrupt', mode='corrupt')
                ok = rc == 1 and n == 2
                lines.append('%s corrupted records %s -> exit %d, %d violations (%.0fs)' % (
                    'REJECTED' if ok else 'NOT-REJECTED', cov.get('selftest_corruption'), rc, n, wall))
                if not ok:
                    failures.append('corrupted records not rejected (exactly 2 expected, got %d)' % n)
                    lines.append(out[-1500:])
        return lines, failures
    finally:
        common.rm(copy)


def main():
    import concurrent.futures
    root = common.scratch('c11self_')
    failures = []
    try:
        jobs = [('mut', k + 1, w, e, root) for k, (w, e) in enumerate(MUTANTS)]
        jobs += [('same', k + 1, w, e, root) for k, (w, e) in enumerate(SILENT)]
        with concurrent.futures.ThreadPoolExecutor(max_workers=int(os.environ.get('HV_SELFTEST_PAR', '2'))) as ex:
            for lines, fails in ex.map(_one, jobs):
                print('\n'.join(lines), flush=True)
                failures += fails
    finally:
        common.rm(root)
    if failures:
        print('SELFTEST-FAILED: ' + '; '.join(failures))
        return 2
    print('SELFTEST-OK property=C11 mutants=%d silent_variants=%d corrupted_records=2' % (len(MUTANTS), len(SILENT)))
    return 0


if __name__ == '__main__':
    common.main_wrapper(main)
