INIT TInit
NEXT TNext
INVARIANT VerdictWhenDone
CHECK_DEADLOCK TRUE
