------------------------------- MODULE Context -------------------------------
(***************************************************************************)
(* C06 "Flavour and context rules are enforced on every program".          *)
(*                                                                         *)
(* The README's "what is allowed where" as a state machine over a NESTING  *)
(* PATH.  A state is the path built so far (a sequence of frame names, the *)
(* first one a ROOT: function flavour or global initialiser) plus the      *)
(* context record `c` that the documented rules derive from it.  Actions   *)
(* are "descend into <frame>".  In every state a CONSTRUCT may be placed   *)
(* at the leaf; Verdict(c, k) is the documented fate of the program that   *)
(* consists of exactly that path with that construct at its end:           *)
(*   "accept"   - respects every rule: the compiler must accept it         *)
(*   "reject"   - breaks a documented rule: the compiler must reject it    *)
(*   "dontcare" - the documented rules are silent / two readings are       *)
(*                defensible: exercised for totality only (no crash)       *)
(*   "na"       - this construct cannot be written at this position at all *)
(*                (a statement inside an expression, a second `??` at the  *)
(*                same level, ...): never emitted as a case                *)
(* A frame is only entered where the construct that opens it is itself     *)
(* legal (or dontcare), so the leaf verdict is the verdict of the whole    *)
(* program.  Illegal openings are covered by the leaf constructs `try`,    *)
(* `preempt`, `qq` and the three calls.                                    *)
(*                                                                         *)
(* The module is bound to hidc/parser/grammar.py by hv/checks/c06.py:      *)
(* TLC enumerates the states and prints, per state, the path and the       *)
(* verdict of every construct; Python renders each (path, construct) to a  *)
(* complete program, runs hidc.parser.parse and compares accept/reject.    *)
(* The record `c` plays the part of grammar.py's BlockContext flags, the   *)
(* actions the part of the ctx argument handed down by ps_block/ps_expr.   *)
(*                                                                         *)
(* FRAMES                                                                  *)
(*  roots  fO fY fD   body of an ordinary / you `@` / defeat `!` function  *)
(*         gInit      global `int G = <e>;`                                *)
(*         gLen       global `int GA[<e>];` (array initialiser)            *)
(*  block -> block                                                         *)
(*         blk `{}`  ifB  elseB  whileB  forB  tryB  undoH  stopH  preB    *)
(*  block -> full expression                                               *)
(*         ifC whileC (conditions)  forI forC forS (for-init/cond/step)    *)
(*         retV `return <e>`  asgR `x = <e>`  asgL `arr[<e>] = 1`          *)
(*         incR `x += <e>`  declI `int v = <e>`  vlaL `int v[<e>]`         *)
(*  expression -> full expression                                          *)
(*         par `(<e>)`  argO `f2(<e>)`  argY `@g2(<e>)`  argD `!h2(<e>)`   *)
(*         idx `arr[<e>]`  elem `[<e>, 2][0]`                              *)
(*  expression -> operand (no `??` directly here)                          *)
(*         op (operand of a unary/binary operator or `is`)                 *)
(*         qL qR (left / right operand of `??`; only from a full position) *)
(*                                                                         *)
(* CONSTRUCTS  lit (neutral control: a literal / `x += 1;`), ocall `f()`,  *)
(*  ycall `@g()`, dcall `!h()`, isdef `!is_defeat();` (statement only: it  *)
(*  returns empty), try, preempt, qq `a ?? b`, break, continue, return.    *)
(*                                                                         *)
(* RULES (source)                                                          *)
(*  R1  ordinary functions may be called from anywhere inside a function   *)
(*      (README "Functions": "may be called from anywhere"; Summary).      *)
(*  R2  you-functions are called only directly within you-functions and    *)
(*      not within try blocks (README "Functions"; Summary: try blocks     *)
(*      list only ordinary and defeat calls).                              *)
(*  R3  defeat functions (user `!h`, builtin `!is_defeat`) are called only *)
(*      in a try body or a defeat function (README "A taste of defeat",    *)
(*      "Functions", Summary).  The parser does not distinguish builtins.  *)
(*  R4  try only in a you context, never nested in a try body (README      *)
(*      "Try blocks": "can only be used in a you context, and so cannot be *)
(*      nested"; "A taste of defeat": "Try blocks create a defeat context  *)
(*      within the block").                                                *)
(*  R5  undo/stop handlers have the rules of the enclosing you-function    *)
(*      (Summary lists them under "You functions" with no sub-rules +      *)
(*      "blocks preserve the rules of the block they are contained by";    *)
(*      examples return from an undo block).  So try, `??` and you-calls   *)
(*      are legal in a handler, defeat calls and preempt are not.          *)
(*  R6  preempt only in a try body or a defeat function (README            *)
(*      "Computational astrology", "Preemptive defeat functions",          *)
(*      Summary); its body keeps the rules of the block it is in           *)
(*      (Summary headline; examples `preempt { continue; }`).              *)
(*  R7  `??` only by you: in a you-function, not in a try body (README     *)
(*      "The speculation operator": "Just like try, speculation can only   *)
(*      be used by you"; "Functions": "these may only be used within       *)
(*      you-functions"; Summary lists it under you-functions only).        *)
(*  R8  both operands of `??` contain only ordinary calls (README "The     *)
(*      speculation operator"; Summary).  Everything nested in an operand  *)
(*      (parentheses, arguments, indices, elements) keeps that rule.       *)
(*  R9  break/continue only inside a loop body (tests/test_parser.py       *)
(*      test_out_of_place; grammar.py ps_stmt).                            *)
(*  R10 global scope holds declarations only; an initialiser contains no   *)
(*      call of any flavour and no `??` (Summary "Global scope:            *)
(*      Declarations only"; R7 "only by you"; grammar.py ps_program parses *)
(*      globals with BlockContext.NONE).  The length expression of a       *)
(*      global array initialiser `int GA[<e>];` is part of the declaration *)
(*      and is treated the same (code: same ps_vdecl(NONE)).               *)
(*  R11 plain blocks, if/else, while, for (all four parts), conditions,    *)
(*      parentheses, call arguments, indices, array-literal elements,      *)
(*      operator operands, assignment sides, declaration initialisers and  *)
(*      return values preserve the rules of what contains them (Summary    *)
(*      headline).  A loop body additionally allows break/continue.        *)
(*  R12 return is allowed anywhere in a function body (README examples     *)
(*      return from try bodies, preempt bodies and undo handlers; no       *)
(*      restriction documented).                                           *)
(*                                                                         *)
(* README SILENT, EVIDENT INTENT OF THE CODE FOLLOWED                      *)
(*  S1  "inside a loop" survives into try bodies, handlers and preempt     *)
(*      bodies nested in the loop body: `while (c) { try { break; } undo   *)
(*      { continue; } }` is accepted.  Follows from R11's headline; the    *)
(*      examples use `preempt { continue; }` / `preempt { break; }` in     *)
(*      loops; grammar.py keeps LOOP in ctx for try body and handler;      *)
(*      tests/test_typecheck.py test_unreachable breaks out of a while     *)
(*      from both a try body and an undo handler.                          *)
(*  S2  the argument of a you-call / defeat call keeps the caller's rules  *)
(*      (`@g2(@g())` legal in you, `!h2(!h())` legal in a try body).       *)
(*  S3  R10 for the array-length form (see above).                         *)
(*                                                                         *)
(* DONTCARE                                                                *)
(*  D1  a `??` nested inside an operand of a legal `??` (necessarily via   *)
(*      parentheses, an argument, an index or an element).  R7 says "only  *)
(*      by you" (we are in a you-function), R8 says operands are ordinary  *)
(*      expressions and only speaks about calls.  hidc rejects it (operand *)
(*      context has no YOU flag).  Everything below such a nested `??` is  *)
(*      dontcare as well (`poison`).                                       *)
(***************************************************************************)
EXTENDS Naturals, Sequences, FiniteSets, TLC

CONSTANTS MaxDepth,   \* number of frames allowed below the root
          Emit        \* TRUE: print one HV tuple per state

VARIABLES path, c

vars == <<path, c>>

Roots       == {"fO", "fY", "fD", "gInit", "gLen"}
PlainBlocks == {"blk", "ifB", "elseB"}
LoopBodies  == {"whileB", "forB"}
Handlers    == {"undoH", "stopH"}
BlockFrames == PlainBlocks \cup LoopBodies \cup Handlers \cup {"tryB", "preB"}
CondFrames  == {"ifC", "whileC", "forI", "forC", "forS"}
HostFrames  == {"retV", "asgR", "asgL", "incR", "declI", "vlaL"}
EntryFrames == CondFrames \cup HostFrames
ArgFrames   == {"argO", "argY", "argD"}
WrapFrames  == {"par", "idx", "elem"}
SpecFrames  == {"qL", "qR"}
ExprFrames  == WrapFrames \cup ArgFrames \cup SpecFrames \cup {"op"}
Frames      == Roots \cup BlockFrames \cup EntryFrames \cup ExprFrames

\* fixed order of the verdict vector that is printed
ConstructOrder == <<"lit", "ocall", "ycall", "dcall", "isdef", "try", "preempt",
                    "qq", "break", "continue", "return">>
Constructs     == {ConstructOrder[i] : i \in DOMAIN ConstructOrder}
StmtConstructs == {"isdef", "try", "preempt", "break", "continue", "return"}

C0 == [fn |-> "none", pos |-> "root", inTry |-> FALSE, inQ |-> FALSE,
       inLoop |-> FALSE, poison |-> FALSE]

-----------------------------------------------------------------------------
(* The documented contexts                                                 *)
InFunction(x) == x.fn \in {"O", "Y", "D"}                          \* R1, R10
YouCtx(x)     == x.fn = "Y" /\ ~x.inTry /\ ~x.inQ                  \* R2 R4 R5 R7 R8
DefeatCtx(x)  == (x.fn = "D" \/ x.inTry) /\ ~x.inQ                 \* R3 R6 R8

(* Can construct k be written at this position at all?                     *)
Writable(x, k) ==
    CASE x.pos = "block"   -> (TRUE)
      [] x.pos = "full"    -> (k \notin StmtConstructs)
      [] x.pos = "operand" -> (k \notin StmtConstructs /\ k # "qq")
      [] OTHER             -> (FALSE)

Bool2V(b) == IF b THEN "accept" ELSE "reject"

Rule(x, k) ==
    CASE k = "lit"                  -> ("accept")
      [] k = "ocall"                -> (Bool2V(InFunction(x)))               \* R1 R10
      [] k = "ycall"                -> (Bool2V(YouCtx(x)))                   \* R2 R8 R10
      [] k \in {"dcall", "isdef"}   -> (Bool2V(DefeatCtx(x)))                \* R3 R5 R8 R10
      [] k = "try"                  -> (Bool2V(YouCtx(x)))                   \* R4 R5
      [] k = "preempt"              -> (Bool2V(DefeatCtx(x)))                \* R6
      [] k = "qq"                   -> (IF YouCtx(x) THEN "accept"           \* R7
                                        ELSE IF x.inQ THEN "dontcare"        \* D1
                                        ELSE "reject")                       \* R7 R10
      [] k \in {"break", "continue"} -> (Bool2V(x.inLoop))                   \* R9 S1
      [] k = "return"               -> ("accept")                            \* R12

Verdict(x, k) ==
    IF ~Writable(x, k) THEN "na"
    ELSE IF x.poison THEN "dontcare"                                         \* D1
    ELSE Rule(x, k)

Open(x, k) == Verdict(x, k) \in {"accept", "dontcare"}

-----------------------------------------------------------------------------
(* May frame f be entered from context x, and what is the context inside?  *)
CanEnter(x, f) ==
    CASE f \in Roots        -> (x.pos = "root")
      [] f \in PlainBlocks  -> (x.pos = "block")
      [] f \in LoopBodies   -> (x.pos = "block")
      [] f = "tryB"         -> (x.pos = "block" /\ Open(x, "try"))
      [] f \in Handlers     -> (x.pos = "block" /\ Open(x, "try"))
      [] f = "preB"         -> (x.pos = "block" /\ Open(x, "preempt"))
      [] f \in EntryFrames  -> (x.pos = "block")
      [] f \in WrapFrames   -> (x.pos \in {"full", "operand"})
      [] f = "op"           -> (x.pos \in {"full", "operand"})
      [] f = "argO"         -> (x.pos \in {"full", "operand"} /\ Open(x, "ocall"))
      [] f = "argY"         -> (x.pos \in {"full", "operand"} /\ Open(x, "ycall"))
      [] f = "argD"         -> (x.pos \in {"full", "operand"} /\ Open(x, "dcall"))
      [] f \in SpecFrames   -> (x.pos = "full" /\ Open(x, "qq"))
      [] OTHER              -> (FALSE)

After(x, f) ==
    CASE f = "fO"           -> ([C0 EXCEPT !.fn = "O", !.pos = "block"])
      [] f = "fY"           -> ([C0 EXCEPT !.fn = "Y", !.pos = "block"])
      [] f = "fD"           -> ([C0 EXCEPT !.fn = "D", !.pos = "block"])
      [] f \in {"gInit", "gLen"} -> ([C0 EXCEPT !.fn = "global", !.pos = "full"])
      [] f \in PlainBlocks  -> (x)                                           \* R11
      [] f \in LoopBodies   -> ([x EXCEPT !.inLoop = TRUE])                  \* R9 R11
      [] f = "tryB"         -> ([x EXCEPT !.inTry = TRUE])                   \* R4 S1
      [] f \in Handlers     -> (x)                                           \* R5 S1
      [] f = "preB"         -> (x)                                           \* R6
      [] f \in EntryFrames  -> ([x EXCEPT !.pos = "full"])                   \* R11
      [] f \in WrapFrames   -> ([x EXCEPT !.pos = "full"])                   \* R11
      [] f \in ArgFrames    -> ([x EXCEPT !.pos = "full"])                   \* R11 S2
      [] f = "op"           -> ([x EXCEPT !.pos = "operand"])                \* R11
      [] f \in SpecFrames   -> ([x EXCEPT !.pos = "operand", !.inQ = TRUE,   \* R8
                                 !.poison = x.poison \/ Verdict(x, "qq") = "dontcare"])  \* D1

VerdictVec(x) == [i \in DOMAIN ConstructOrder |-> Verdict(x, ConstructOrder[i])]

-----------------------------------------------------------------------------
(* The state machine                                                       *)
Init == path = <<>> /\ c = C0

CanDescend(f) == Len(path) < MaxDepth + 1 /\ CanEnter(c, f)
Step(f)       == path' = Append(path, f) /\ c' = After(c, f)

EnterFunction    == \E f \in {"fO", "fY", "fD"} : CanDescend(f) /\ Step(f)
EnterGlobal      == \E f \in {"gInit", "gLen"} : CanDescend(f) /\ Step(f)
EnterPlainBlock  == \E f \in PlainBlocks : CanDescend(f) /\ Step(f)
EnterLoopBody    == \E f \in LoopBodies : CanDescend(f) /\ Step(f)
EnterTryBody     == CanDescend("tryB") /\ Step("tryB")
EnterHandler     == \E f \in Handlers : CanDescend(f) /\ Step(f)
EnterPreempt     == CanDescend("preB") /\ Step("preB")
EnterCondition   == \E f \in CondFrames : CanDescend(f) /\ Step(f)
EnterHost        == \E f \in HostFrames : CanDescend(f) /\ Step(f)
EnterWrap        == \E f \in WrapFrames : CanDescend(f) /\ Step(f)
EnterArgument    == \E f \in ArgFrames : CanDescend(f) /\ Step(f)
EnterOperand     == CanDescend("op") /\ Step("op")
EnterSpecOperand == \E f \in SpecFrames : CanDescend(f) /\ Step(f)

Next == \/ EnterFunction   \/ EnterGlobal   \/ EnterPlainBlock \/ EnterLoopBody
        \/ EnterTryBody    \/ EnterHandler  \/ EnterPreempt    \/ EnterCondition
        \/ EnterHost       \/ EnterWrap     \/ EnterArgument   \/ EnterOperand
        \/ EnterSpecOperand

Spec == Init /\ [][Next]_vars

-----------------------------------------------------------------------------
(* One printed case per state (evaluated as an invariant: once per         *)
(* distinct state in BFS, once per visited state in simulation).           *)
EmitLeaf == (Emit /\ path # <<>>) => PrintT(ToString(<<"HV", path, VerdictVec(c)>>))
   \* ToString: one unbreakable line per case (TLC's pretty printer wraps long tuples)

(* Deduplication by context: states that agree on the context record, the  *)
(* innermost frame and the depth are merged; the first path that reaches   *)
(* them is the printed representative.                                     *)
DedupView == <<c, IF path = <<>> THEN "" ELSE path[Len(path)], Len(path)>>

-----------------------------------------------------------------------------
(* The incremental context record agrees with a declarative reading of the *)
(* path (checked by TLC on every enumerated state).                        *)
Has(S) == \E i \in DOMAIN path : path[i] \in S
NumQ   == Cardinality({i \in DOMAIN path : path[i] \in SpecFrames})

TypeOK ==
    /\ path \in Seq(Frames)
    /\ c.fn \in {"none", "global", "O", "Y", "D"}
    /\ c.pos \in {"root", "block", "full", "operand"}
    /\ c.inTry \in BOOLEAN /\ c.inQ \in BOOLEAN /\ c.inLoop \in BOOLEAN /\ c.poison \in BOOLEAN

FlagsMatchPath ==
    path # <<>> =>
    /\ path[1] \in Roots /\ \A i \in DOMAIN path : i > 1 => path[i] \notin Roots
    /\ c.fn = (CASE path[1] = "fO" -> ("O") [] path[1] = "fY" -> ("Y")
                 [] path[1] = "fD" -> ("D") [] OTHER -> ("global"))
    /\ c.inLoop <=> Has(LoopBodies)
    /\ c.inTry  <=> Has({"tryB"})
    /\ c.inQ    <=> Has(SpecFrames)
    /\ c.poison <=> NumQ >= 2
    /\ YouCtx(c)    <=> (path[1] = "fY" /\ ~Has({"tryB"}) /\ ~Has(SpecFrames))
    /\ DefeatCtx(c) <=> ((path[1] = "fD" \/ Has({"tryB"})) /\ ~Has(SpecFrames))
    /\ c.pos = "block" <=> (/\ path[1] \in {"fO", "fY", "fD"}
                            /\ \A i \in DOMAIN path : i > 1 => path[i] \in BlockFrames)
       \* try bodies and handlers hang only off a you context that is not already in a try body
    /\ \A i \in DOMAIN path : path[i] \in Handlers \cup {"tryB"} =>
           /\ path[1] = "fY"
           /\ \A j \in 1..(i-1) : path[j] # "tryB"
       \* preempt bodies only below a defeat function or a try body
    /\ \A i \in DOMAIN path : path[i] = "preB" =>
           (path[1] = "fD" \/ \E j \in 1..(i-1) : path[j] = "tryB")
       \* nothing is ever both you and defeat
    /\ ~(YouCtx(c) /\ DefeatCtx(c))
       \* a program in global scope never contains a call or `??`
    /\ c.fn = "global" => \A k \in {"ocall", "ycall", "dcall", "qq"} : Verdict(c, k) \in {"reject", "na"}

-----------------------------------------------------------------------------
(* Verdict of an arbitrary path (used by the replay of a stored case and   *)
(* by the self-test): the same CanEnter/After folded over the path.        *)
RECURSIVE Fold(_)
Fold(p) == IF p = <<>> THEN C0
           ELSE After(Fold(SubSeq(p, 1, Len(p) - 1)), p[Len(p)])

RECURSIVE PathLegal(_)
PathLegal(p) == IF p = <<>> THEN TRUE
                ELSE LET front == SubSeq(p, 1, Len(p) - 1)
                     IN  PathLegal(front) /\ CanEnter(Fold(front), p[Len(p)])

VerdictOfPath(p, k) == IF p # <<>> /\ PathLegal(p) /\ k \in Constructs
                       THEN Verdict(Fold(p), k) ELSE "illegal"
=============================================================================
