------------------------------- MODULE Sphinx -------------------------------
(* The Sphinx machine: the target of hidc.                                                            *)
(*                                                                                                    *)
(* Reconstructed ISA (DESIGN section 0, assumption A1; validated against the 52 upstream code         *)
(* generation tests, whose expected outputs were produced by the real emulator):                       *)
(*   * separate address spaces: code (addresses = instruction indices), state (mutable bytes),        *)
(*     const (immutable bytes); words are W bytes little endian; byte loads zero-extend;              *)
(*   * operands: immediate `x`, state word `[x]`, const word `{x}`;                                    *)
(*   * the ONLY jump is the Turing jump `j X`: control goes to X iff NOT jumping would lead to `halt`; *)
(*   * `halt` and the conditional halts `hXX a, b` end the (speculative) timeline;                     *)
(*   * `yield` emits a byte, `flag` a named flag, `sleep` a pause - all observable only on the         *)
(*     timeline that is finally committed.                                                            *)
(*                                                                                                    *)
(* Operational reading of the Turing jump (proved equivalent to the declarative least-fixed-point      *)
(* reading on all small programs in SphinxOracle.tla):                                                *)
(*   Jump       push a choice (target, undo-log length, output length, anchor count) and continue      *)
(*              WITHOUT jumping;                                                                       *)
(*   Backtrack  at a (firing) halt pop the newest choice, undo memory and output, take the jump;       *)
(*              with no choice left the machine has REALLY halted (status = "halted");                 *)
(*   Cycle      at a backward jump, the same (pc, memory) as at an earlier visit on this timeline:     *)
(*              nothing can halt any more, every pending choice is confirmed (status = "forever").     *)
(*              Memory equality is tracked through the undo log: stores that do not change memory      *)
(*              are not logged, so "same undo-log length at the same pc" implies "same memory" (cheap  *)
(*              test, catches the terminal `tnt` loop at once).  Loops whose memory changes and comes   *)
(*              back are caught by full snapshots taken at doubling intervals (Brent's scheme; the    *)
(*              snapshots rewind with the machine like everything else).  The output is NOT part of    *)
(*              the compared state: control and memory do not depend on it, so a loop that keeps       *)
(*              printing is still recognised as running forever.  A run whose state never repeats       *)
(*              exhausts its fuel and is INCONCLUSIVE, never a verdict.                                *)
(* One program of the batch and one initial memory (= one argument vector) are chosen in Init.         *)
EXTENDS Word, TLC, BatchData
LOCAL INSTANCE SequencesExt

\* The batch of compiled programs comes from the generated module BatchData (hv/export.py writes it into the
\* scratch directory of the run; spec/BatchData.tla is an empty stand-in so that the specs parse on their own).
\* It is a DEFINITION in an extended module on purpose: TLC evaluates such a constant definition once, whereas
\* a CONSTANT substituted in the cfg (Progs <- MCProgs) is re-evaluated at every reference (measured: 10x slower).
Progs == MCProgs     \* sequence of [code, rt, inits]

VARIABLES prog,     \* index into Progs (constant along a behaviour)
          inp,      \* index into Progs[prog].inits (constant along a behaviour)
          pc, mem, choices, trail, out, anchors, status,
          snaps,    \* full (pc, mem) snapshots taken at backward jumps at doubling intervals (Brent)
          tstep     \* number of steps on the current timeline
mvars == <<prog, inp, pc, mem, choices, trail, out, anchors, status, snaps, tstep>>

P == Progs[prog]
CodeLen == Len(P.code)
Ins == P.code[pc + 1]
CMem == P.inits[inp].c          \* const section (depends on the argument vector: .arg directives)

(* ------------------------------------------------------------------ memory *)
InRange(m, a, n) == a >= 0 /\ a + n <= Len(m)
RdBytes(m, a, n) == SubSeq(m, a + 1, a + n)
Splice(m, a, bs) == SubSeq(m, 1, a) \o bs \o SubSeq(m, a + Len(bs) + 1, Len(m))
\* a word used as an address; -1 when it cannot be one
Addr(w) == IF SmallNat(w) THEN ToNat(w) ELSE 0 - 1

\* operands: [k |-> "i"/"s"/"c"/"n", v |-> address or small value, w |-> immediate word, tg |-> provenance tag]
OpOK(o) == CASE o.k = "s" -> InRange(mem, o.v, W) [] o.k = "c" -> InRange(CMem, o.v, W) [] OTHER -> TRUE
Val(o) == CASE o.k = "i" -> o.w
            [] o.k = "s" -> RdBytes(mem, o.v, W)
            [] o.k = "c" -> RdBytes(CMem, o.v, W)

(* ------------------------------------------------------------------ events *)
Ev(k, v) == [k |-> k, v |-> v]
FlagWin == 1
FlagError == 2

(* ------------------------------------------------------------------ instruction classes *)
HaltOps == {"heq", "hne", "hlt", "hgt", "hle", "hge", "hltu", "hgtu", "hleu", "hgeu"}
ArithOps == {"add", "sub", "mul", "div", "mod", "and", "or", "xor", "asl", "asr"}
LoadOps == {"lws", "lwc", "lbs", "lbc", "lwso", "lwco", "lbso", "lbco"}
StoreOps == {"sws", "sbs", "swso", "sbso"}

Cond(op, a, b) == CASE op = "heq" -> (a = b) [] op = "hne" -> (a # b)
   [] op = "hlt" -> SLt(a, b) [] op = "hgt" -> SLt(b, a) [] op = "hle" -> SLe(a, b) [] op = "hge" -> SLe(b, a)
   [] op = "hltu" -> ULt(a, b) [] op = "hgtu" -> ULt(b, a) [] op = "hleu" -> ULe(a, b) [] op = "hgeu" -> ULe(b, a)

Arith(op, a, b) == CASE op = "add" -> Add(a, b) [] op = "sub" -> Sub(a, b) [] op = "mul" -> Mul(a, b)
   [] op = "div" -> DivFloor(a, b) [] op = "mod" -> ModFloor(a, b)
   [] op = "and" -> BAnd(a, b) [] op = "or" -> BOr(a, b) [] op = "xor" -> BXor(a, b)
   [] op = "asl" -> Asl(a, b) [] op = "asr" -> Asr(a, b)

\* --- loads: section, size, effective address
LoadSec(op) == IF op \in {"lws", "lbs", "lwso", "lbso"} THEN "s" ELSE "c"
LoadSize(op) == IF op \in {"lws", "lwc", "lwso", "lwco"} THEN W ELSE 1
HasOff(op) == op \in {"lwso", "lwco", "lbso", "lbco", "swso", "sbso"}
LoadAddr(i) == Addr(IF HasOff(i.op) THEN Add(Val(i.b), Val(i.c)) ELSE Val(i.b))
LoadBuf(op) == IF LoadSec(op) = "s" THEN mem ELSE CMem
\* --- stores
StoreSize(op) == IF op \in {"sws", "swso"} THEN W ELSE 1
StoreAddr(i) == Addr(IF HasOff(i.op) THEN Add(Val(i.a), Val(i.b)) ELSE Val(i.a))
StoreVal(i) == IF HasOff(i.op) THEN Val(i.c) ELSE Val(i.b)

\* does executing the instruction at pc fault?  (operand fetch or data access outside its section,
\* division by zero reaching the divider)
OperandsOK(i) == OpOK(i.a) /\ OpOK(i.b) /\ OpOK(i.c)
Faults(i) ==
   \/ ~OperandsOK(i)
   \/ i.op \in {"div", "mod"} /\ IsZero(Val(i.c))
   \/ i.op \in LoadOps /\ ~InRange(LoadBuf(i.op), LoadAddr(i), LoadSize(i.op))
   \/ i.op \in StoreOps /\ ~InRange(mem, StoreAddr(i), StoreSize(i.op))

(* ------------------------------------------------------------------ transitions *)
\* write bytes bs at state address a, logging the old contents unless nothing changes
Write(a, bs) ==
   LET old == RdBytes(mem, a, Len(bs)) IN
   IF old = bs THEN UNCHANGED <<mem, trail>>
   ELSE /\ mem' = Splice(mem, a, bs)
        /\ trail' = Append(trail, [a |-> a, old |-> old])

Tick == tstep' = tstep + 1
Advance(a, bs) == /\ Write(a, bs) /\ pc' = pc + 1 /\ Tick /\ UNCHANGED <<choices, out, anchors, status, snaps>>

Undo(m, entries) == FoldLeft(LAMBDA acc, e : Splice(acc, e.a, e.old), m, Reverse(entries))

Backtrack ==
   IF choices = <<>> THEN /\ status' = "halted" /\ UNCHANGED <<pc, mem, choices, trail, out, anchors, snaps, tstep>>
   ELSE LET c == choices[Len(choices)] IN
        /\ pc' = c.target
        /\ choices' = SubSeq(choices, 1, Len(choices) - 1)
        /\ mem' = Undo(mem, SubSeq(trail, c.tl + 1, Len(trail)))
        /\ trail' = SubSeq(trail, 1, c.tl)
        /\ out' = SubSeq(out, 1, c.ol)
        /\ anchors' = SubSeq(anchors, 1, c.al)
        /\ snaps' = SubSeq(snaps, 1, c.sl)
        /\ tstep' = c.ts + 1
        /\ UNCHANGED status

Emit(e) == /\ out' = Append(out, e) /\ pc' = pc + 1 /\ Tick /\ UNCHANGED <<mem, choices, trail, anchors, status, snaps>>

Fault == /\ status' = "fault" /\ UNCHANGED <<pc, mem, choices, trail, out, anchors, snaps, tstep>>

\* the k-th snapshot (k = 0, 1, ...) is taken at the first backward jump after SnapBase * 2^k steps
SnapBase == 96
RECURSIVE SnapDue(_, _)
SnapDue(k, t) == IF k = 0 THEN t >= SnapBase ELSE t >= 2 * SnapBase /\ SnapDue(k - 1, t \div 2)

Jump(i) ==
   LET t == Addr(Val(i.a))
       back == t <= pc
       here == <<pc, Len(trail)>>
       full == [pc |-> pc, mem |-> mem]
   IN IF back /\ (\/ \E k \in 1..Len(anchors) : anchors[k] = here
               \/ (snaps # <<>> /\ snaps[Len(snaps)] = full))
      THEN /\ status' = "forever" /\ UNCHANGED <<pc, mem, choices, trail, out, anchors, snaps, tstep>>   \* Cycle
      ELSE LET anch == IF back THEN Append(anchors, here) ELSE anchors
               sn == IF back /\ SnapDue(Len(snaps), tstep) THEN Append(snaps, full) ELSE snaps IN
           /\ anchors' = anch
           /\ snaps' = sn
           /\ choices' = Append(choices, [target |-> t, tl |-> Len(trail), ol |-> Len(out), al |-> Len(anch),
                                          sl |-> Len(sn), ts |-> tstep])
           /\ pc' = pc + 1 /\ Tick
           /\ UNCHANGED <<mem, trail, out, status>>

Step ==
   /\ status = "run"
   /\ UNCHANGED <<prog, inp>>
   /\ IF pc < 0 \/ pc >= CodeLen THEN Fault
      ELSE LET i == Ins IN
      IF Faults(i) THEN Fault
      ELSE CASE i.op = "j" -> Jump(i)
        [] i.op = "halt" -> Backtrack
        [] i.op \in HaltOps -> (IF Cond(i.op, Val(i.a), Val(i.b)) THEN Backtrack
                                ELSE pc' = pc + 1 /\ Tick /\ UNCHANGED <<mem, choices, trail, out, anchors, status, snaps>>)
        [] i.op = "mov" -> Advance(i.a.v, Val(i.b))
        [] i.op \in ArithOps -> Advance(i.a.v, Arith(i.op, Val(i.b), Val(i.c)))
        [] i.op \in LoadOps -> Advance(i.a.v, IF LoadSize(i.op) = W THEN RdBytes(LoadBuf(i.op), LoadAddr(i), W)
                                                ELSE ByteWord(LoadBuf(i.op)[LoadAddr(i) + 1]))
        [] i.op \in StoreOps -> Advance(StoreAddr(i), SubSeq(StoreVal(i), 1, StoreSize(i.op)))
        [] i.op = "yield" -> Emit(Ev("y", <<LowByte(Val(i.a))>>))
        [] i.op = "sleep" -> Emit(Ev("s", Val(i.a)))
        [] i.op = "flag" -> Emit(Ev("f", <<i.f>>))

MInit == /\ prog \in 1..Len(Progs)
         /\ inp \in 1..Len(Progs[prog].inits)
         /\ pc = 0 /\ mem = Progs[prog].inits[inp].m
         /\ choices = <<>> /\ trail = <<>> /\ out = <<>> /\ anchors = <<>> /\ status = "run"
         /\ snaps = <<>> /\ tstep = 0

(* ------------------------------------------------------------------ observables *)
\* index of the first terminal flag (win / error) in an event list, 0 if none
RECURSIVE FirstTerminal(_, _)
FirstTerminal(o, k) == IF k > Len(o) THEN 0
                       ELSE IF o[k].k = "f" /\ o[k].v[1] \in {FlagWin, FlagError} THEN k
                       ELSE FirstTerminal(o, k + 1)
\* what an observer sees: the events up to and including the first terminal flag, and how the run ends
Obs(o, st) == LET t == FirstTerminal(o, 1) IN
              IF t > 0 THEN [ev |-> SubSeq(o, 1, t), end |-> "ended"]
              ELSE [ev |-> o, end |-> st]

(* ------------------------------------------------------------------ properties of the machine state *)
\* C03 "halt is defeat": the machine never reaches the halted state - evaluated in EVERY reachable state
NoRealHalt == status # "halted"
\* C04: the program counter never leaves the code and no access leaves its section
NoFault == status # "fault"

TypeOK == /\ pc \in Int /\ status \in {"run", "halted", "forever", "fault"}
          /\ \A k \in 1..Len(choices) : choices[k].tl <= Len(trail) /\ choices[k].ol <= Len(out)
=============================================================================
