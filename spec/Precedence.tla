----------------------------- MODULE Precedence -----------------------------
(***************************************************************************)
(* C11  "Expressions group by the documented precedence and associativity" *)
(*                                                                         *)
(* The documented operator table of Halt is Defeat as DATA (Table), an     *)
(* operator-precedence (shunting-yard) PARSER over token sequences written *)
(* as a state machine with an explicit operand stack `out` and operator    *)
(* stack `ops`, and the minimal-parenthesis PRINTER (Unparse) driven by the  *)
(* same table.  hidc itself is a recursive-descent ladder                  *)
(* (grammar.py ps_expr0..ps_expr8, ps_expr); this model deliberately uses  *)
(* a different algorithm so that the two only agree if both implement the  *)
(* documented table.                                                       *)
(*                                                                         *)
(* THE TABLE (tightest first)                       source                 *)
(*  9 postfix  [expr]  .length                      P: "postfix indexing   *)
(*                                                  and .length binding    *)
(*                                                  tighter than any       *)
(*                                                  operator"; README      *)
(*                                                  "Arrays"/baba.length   *)
(*  8 prefix   +  -  not      (right-recursive)     README Operators #1    *)
(*  7 postfix  is <type>      (single, see D1)      README Operators #2    *)
(*  6 infix    *  /  %        left                  README Operators #3    *)
(*  5 infix    +  -           left                  README Operators #4    *)
(*  4 infix    == != < <= > >=  left                README Operators #5    *)
(*  3 infix    and            left                  README Operators #6    *)
(*  2 infix    or             left                  README Operators #7    *)
(*  1 infix    ??             (once, see D2)        README Operators #8    *)
(* P = the property text (properties.jsonl C11): "binary operators of      *)
(* equal precedence grouping to the left ... parentheses overriding".  The *)
(* README gives the order only; left grouping is the property's statement  *)
(* and the evident intent of grammar.py bin_op ("left associative binary   *)
(* op").  Comparisons chain to the left like every other level (a < b < c  *)
(* is (a < b) < c as a TREE; the typechecker's opinion is not parsing).    *)
(*                                                                         *)
(* OTHER RULES                                                             *)
(*  R1 an operand is an identifier, an int/char/string/bool literal, a     *)
(*     parenthesised expression, an array literal [e, ...] or a call       *)
(*     f(e, ...) (README "Types": literals; grammar.py ps_expr0).  Every   *)
(*     bracketed position (parenthesis, index, array element, call         *)
(*     argument) starts a fresh expression level.                          *)
(*  R2 `+` and `-` are prefix where an operand is expected and infix after *)
(*     an operand; `not` is prefix only.                                   *)
(*  R3 `is` takes a type, not an expression, on its right: a scalar type   *)
(*     int/byte/bool/string or an array of one (README "Types": `is        *)
(*     byte[]`, `is T[]`); `empty` and `const` are not cast targets        *)
(*     (ps_data_type).  A postfix `[`/`.length` directly after `is <type>` *)
(*     has no expression to attach to (it binds tighter than `is`) and is  *)
(*     rejected (README silent; evident intent of ps_expr3/ps_expr1).      *)
(*  R4 malformed strings (missing operand, missing operator, unbalanced    *)
(*     brackets, trailing comma) are rejected.                             *)
(*                                                                         *)
(* DELIBERATE DONTCARE (exercised for totality, never a violation)         *)
(*  D1 a second `is` directly after `is <type>` (a is int is byte).  The   *)
(*     README lists `is` as one precedence level and can be read as a      *)
(*     left-grouping chain; hidc's ps_expr3 parses a single `is`.          *)
(*  D2 a `??` inside an operand of another `??`, at the same level         *)
(*     (a ?? b ?? c) or nested in brackets ((a ?? b) ?? c, a ?? x[b ?? c]).*)
(*     hidc rejects these on purpose (comment in ps_expr; operands are     *)
(*     parsed outside the you-context); README "The speculation operator"  *)
(*     only says operands must be "ordinary expressions".  The machine     *)
(*     parses ?? as an ordinary lowest-level left-grouping operator and    *)
(*     the verdict is dontcare when the resulting tree has a ?? below a ??.*)
(*                                                                         *)
(* BINDING (hv/checks/c11.py).  A generated module extends this one and    *)
(* defines the batch:                                                      *)
(*   Cases : sequence of [toks, st, tree, rt, orig] - the token string     *)
(*           given to the real parser, what the real parser did            *)
(*           (st in {"tree","reject","crash"}, tree = its AST serialised   *)
(*           in the Node shape below), and for round-trip cases the tree   *)
(*           the string was printed from;                                  *)
(*   Trees : sequence of trees to be printed (PrintSpec).                  *)
(* TraceSpec runs the machine over every case's tokens and compares: one   *)
(* PrintT(<<"HV", case, "MISMATCH", verdict, tree>>) per disagreeing case, *)
(* one <<"HV", case, "SPEC", ...>> if this module fails to reproduce its   *)
(* own tree on a round-trip case, and per chunk of the batch one           *)
(* <<"HV", "CHUNK", chunk, tally, acts>> with the number of cases          *)
(* evaluated / agreeing / dontcare / round trips closed and how often each *)
(* action of the machine was taken.  PrintSpec emits Unparse(tree) for     *)
(* every tree.  Precedence.cfg runs the built-in batch at the end of this  *)
(* file (upstream parser tests and one example per rule).                  *)
(***************************************************************************)
EXTENDS Naturals, Sequences, TLC

CONSTANTS Cases, Trees, NChunks

(* The batch is only reached through these two definitions and, per case, copied into the state variable  *)
(* `toks` (TLC evaluates a constant definition once and keeps the value, except under -coverage, where a   *)
(* batch of thousands of cases would be rebuilt at every use: -coverage is run on the built-in batch only; *)
(* on generated batches the machine counts its own actions in `acts`).                                     *)
TheCases == Cases
TheTrees == Trees

---------------------------------------------------------------------------
(* Trees.  Every node has the same shape so that any two are comparable.   *)
Node(k, t, c) == [k |-> k, t |-> t, c |-> c]
Nil           == Node("nil", "", <<>>)

LeafKinds == {"id", "int", "char", "str", "bool"}
Leaf(k, t)   == Node(k, t, <<>>)
Id(t)        == Leaf("id", t)            \* VariableLookup
IntL(t)      == Leaf("int", t)           \* IntValue, text of the literal
CharL(t)     == Leaf("char", t)          \* ByteValue written as 'x'
StrL(t)      == Leaf("str", t)           \* StringValue
BoolL(t)     == Leaf("bool", t)          \* BoolValue
Un(t, x)     == Node("un", t, <<x>>)     \* Pos / Neg / Not by token
Bin(t, l, r) == Node("bin", t, <<l, r>>) \* Add ... Or, Speculation by token
IsN(ty, x)   == Node("is", ty, <<x>>)    \* Is with its type
Ix(b, i)     == Node("ix", "", <<b, i>>) \* ArrayLookup
Ln(b)        == Node("len", "", <<b>>)   \* LengthLookup
Arr(c)       == Node("arr", "", c)       \* ArrayLiteral
Call(f, c)   == Node("call", f, c)       \* FuncCall

(* Tokens are pairs <<class, text>>.  Classes: the five leaf kinds, "op"   *)
(* (text = operator token), "is" (text = type), "(", ")", "[", "]",        *)
(* ".length", "call" (text = function name; stands for `name (`), ",".     *)
T(c, v) == <<c, v>>
EndTok  == <<"end", "">>
\* shorthands (also used by the generated batch modules)
O(x) == T("op", x)
LP == T("(", "")  RP == T(")", "")  LB == T("[", "")  RB == T("]", "")  DL == T(".length", "")  CM == T(",", "")

---------------------------------------------------------------------------
(* The table. *)
Table == <<
  [tok |-> "[",       fix |-> "postfix", lvl |-> 9, assoc |-> "left"],
  [tok |-> ".length", fix |-> "postfix", lvl |-> 9, assoc |-> "left"],
  [tok |-> "+",       fix |-> "prefix",  lvl |-> 8, assoc |-> "right"],
  [tok |-> "-",       fix |-> "prefix",  lvl |-> 8, assoc |-> "right"],
  [tok |-> "not",     fix |-> "prefix",  lvl |-> 8, assoc |-> "right"],
  [tok |-> "is",      fix |-> "postfix", lvl |-> 7, assoc |-> "none"],
  [tok |-> "*",       fix |-> "infix",   lvl |-> 6, assoc |-> "left"],
  [tok |-> "/",       fix |-> "infix",   lvl |-> 6, assoc |-> "left"],
  [tok |-> "%",       fix |-> "infix",   lvl |-> 6, assoc |-> "left"],
  [tok |-> "+",       fix |-> "infix",   lvl |-> 5, assoc |-> "left"],
  [tok |-> "-",       fix |-> "infix",   lvl |-> 5, assoc |-> "left"],
  [tok |-> "==",      fix |-> "infix",   lvl |-> 4, assoc |-> "left"],
  [tok |-> "!=",      fix |-> "infix",   lvl |-> 4, assoc |-> "left"],
  [tok |-> "<",       fix |-> "infix",   lvl |-> 4, assoc |-> "left"],
  [tok |-> "<=",      fix |-> "infix",   lvl |-> 4, assoc |-> "left"],
  [tok |-> ">",       fix |-> "infix",   lvl |-> 4, assoc |-> "left"],
  [tok |-> ">=",      fix |-> "infix",   lvl |-> 4, assoc |-> "left"],
  [tok |-> "and",     fix |-> "infix",   lvl |-> 3, assoc |-> "left"],
  [tok |-> "or",      fix |-> "infix",   lvl |-> 2, assoc |-> "left"],
  [tok |-> "??",      fix |-> "infix",   lvl |-> 1, assoc |-> "left"] >>

Rows == {Table[i] : i \in 1..Len(Table)}
(* Lookup functions derived from the table once (constant definitions): fix -> token -> row. *)
RowOf == [f \in {"prefix", "infix", "postfix"} |->
            [t \in {r.tok : r \in {x \in Rows : x.fix = f}} |-> CHOOSE r \in Rows : r.tok = t /\ r.fix = f]]
HasRow(tok, fix) == tok \in DOMAIN RowOf[fix]
Row(tok, fix)    == RowOf[fix][tok]
PrimaryLvl == Row("[", "postfix").lvl
IsLvl      == Row("is", "postfix").lvl
ScalarTypes == {"int", "byte", "bool", "string"}
CastTypes   == ScalarTypes \cup {"int[]", "byte[]", "bool[]", "string[]"}

---------------------------------------------------------------------------
(* The printer: minimal parentheses from the table.  A child is wrapped    *)
(* exactly when its own level is below the level its position demands.     *)
Lvl(t) == CASE t.k = "bin" -> (Row(t.t, "infix").lvl)
            [] t.k = "un"  -> (Row(t.t, "prefix").lvl)
            [] t.k = "is"  -> (IsLvl)
            [] OTHER       -> (PrimaryLvl)

RECURSIVE Pr(_), PrList(_)
Sub(t, min) == IF Lvl(t) < min THEN <<T("(", "")>> \o Pr(t) \o <<T(")", "")>> ELSE Pr(t)
PrList(c) == IF Len(c) = 0 THEN <<>>
             ELSE IF Len(c) = 1 THEN Pr(c[1])
             ELSE Pr(c[1]) \o <<T(",", "")>> \o PrList(Tail(c))
Pr(t) ==
  CASE t.k = "bin" ->
         (LET r == Row(t.t, "infix")
              lmin == IF r.assoc = "left" THEN r.lvl ELSE r.lvl + 1
              rmin == IF r.assoc = "right" THEN r.lvl ELSE r.lvl + 1
          IN Sub(t.c[1], lmin) \o <<T("op", t.t)>> \o Sub(t.c[2], rmin))
    [] t.k = "un"   -> (<<T("op", t.t)>> \o Sub(t.c[1], Row(t.t, "prefix").lvl))
    [] t.k = "is"   -> (Sub(t.c[1], IsLvl + 1) \o <<T("is", t.t)>>)
    [] t.k = "ix"   -> (Sub(t.c[1], PrimaryLvl) \o <<T("[", "")>> \o Pr(t.c[2]) \o <<T("]", "")>>)
    [] t.k = "len"  -> (Sub(t.c[1], PrimaryLvl) \o <<T(".length", "")>>)
    [] t.k = "arr"  -> (<<T("[", "")>> \o PrList(t.c) \o <<T("]", "")>>)
    [] t.k = "call" -> (<<T("call", t.t)>> \o PrList(t.c) \o <<T(")", "")>>)
    [] OTHER        -> (<<T(t.k, t.t)>>)
Unparse(t) == Pr(t)

(* D2: a ?? somewhere below a ??. *)
RECURSIVE HasSpec(_), SpecNested(_)
IsSpec(t) == t.k = "bin" /\ t.t = "??"
HasSpec(t) == IsSpec(t) \/ \E i \in 1..Len(t.c) : HasSpec(t.c[i])
SpecNested(t) == \/ IsSpec(t) /\ (HasSpec(t.c[1]) \/ HasSpec(t.c[2]))
                 \/ \E i \in 1..Len(t.c) : SpecNested(t.c[i])

---------------------------------------------------------------------------
(* The parser machine.                                                     *)
VARIABLES
  chunk,    \* which slice of the batch this behaviour works through
  idx,      \* current case (chunk, chunk+NChunks, ...)
  toks,     \* its token string (the input tape)
  pos,      \* next token, 1-based
  mode,     \* "opnd": an operand is expected; "optr": an operand was just completed
  out,      \* operand stack: trees
  ops,      \* operator stack: pending prefix/infix operators and open-bracket markers
  lastIs,   \* the operand on top of `out` was completed by `is <type>` just now
  status,   \* "run" | "acc" | "rej" | "dc" | "end"
  tally,    \* per-chunk counts of verdicts
  acts      \* per-chunk count of machine actions taken (action name -> number)
vars == <<chunk, idx, toks, pos, mode, out, ops, lastIs, status, tally, acts>>

Entry(k, t, lvl) == [k |-> k, t |-> t, lvl |-> lvl, n |-> 0]
InBatch == idx <= Len(TheCases)
Tape(i) == IF i <= Len(TheCases) THEN TheCases[i].toks ELSE <<>>
Tok     == IF pos <= Len(toks) THEN toks[pos] ELSE EndTok
HasTop  == Len(ops) > 0
Top     == ops[Len(ops)]
Pop(s)  == SubSeq(s, 1, Len(s) - 1)
Running == status = "run" /\ InBatch
Closers == {")", "]", ",", "end"}

(* Must the pending operator e be applied before the token tk is handled?  *)
MustReduce(e, tk) ==
  /\ e.k \in {"pre", "bin"}
  /\ CASE tk[1] = "op" ->
            (/\ HasRow(tk[2], "infix")
             /\ LET r == Row(tk[2], "infix")
                IN e.lvl > r.lvl \/ (e.lvl = r.lvl /\ r.assoc = "left"))
       [] tk[1] = "is"      -> (e.lvl > IsLvl)
       [] tk[1] \in Closers -> (TRUE)
       [] OTHER             -> (FALSE)       \* `[` and .length bind tighter than anything pending

ActionNames == {"Operand", "Prefix", "OpenParen", "OpenArray", "OpenCall", "CloseEmpty", "Reduce", "Binary",
                "IsCast", "OpenIndex", "DotLength", "CloseParen", "CloseBracket", "Comma", "Finish", "Reject",
                "Judge", "Summary"}
Count(a) == acts' = [acts EXCEPT ![a] = @ + 1]

Shift(m, o, s, li) == /\ pos' = pos + 1 /\ mode' = m /\ out' = o /\ ops' = s /\ lastIs' = li
                      /\ UNCHANGED <<chunk, idx, toks, status, tally>>
Stop(st) == status' = st /\ UNCHANGED <<chunk, idx, toks, pos, mode, out, ops, lastIs, tally>>

\* ---- an operand is expected
G_Operand == Running /\ mode = "opnd" /\ Tok[1] \in LeafKinds
Operand   == G_Operand /\ Count("Operand") /\ Shift("optr", Append(out, Leaf(Tok[1], Tok[2])), ops, FALSE)

G_Prefix == Running /\ mode = "opnd" /\ Tok[1] = "op" /\ HasRow(Tok[2], "prefix")
Prefix   == G_Prefix /\ Count("Prefix") /\ Shift("opnd", out, Append(ops, Entry("pre", Tok[2], Row(Tok[2], "prefix").lvl)), FALSE)

G_OpenParen == Running /\ mode = "opnd" /\ Tok[1] = "("
OpenParen   == G_OpenParen /\ Count("OpenParen") /\ Shift("opnd", out, Append(ops, Entry("paren", "", 0)), FALSE)

G_OpenArray == Running /\ mode = "opnd" /\ Tok[1] = "["
OpenArray   == G_OpenArray /\ Count("OpenArray") /\ Shift("opnd", out, Append(ops, Entry("array", "", 0)), FALSE)

G_OpenCall == Running /\ mode = "opnd" /\ Tok[1] = "call"
OpenCall   == G_OpenCall /\ Count("OpenCall") /\ Shift("opnd", out, Append(ops, Entry("call", Tok[2], 0)), FALSE)

\* `[ ]` and `f ( )`: the closer directly after the opener
G_CloseEmpty == /\ Running /\ mode = "opnd" /\ HasTop /\ Top.n = 0
                /\ \/ Tok[1] = "]" /\ Top.k = "array"
                   \/ Tok[1] = ")" /\ Top.k = "call"
CloseEmpty   == G_CloseEmpty /\ Count("CloseEmpty") /\ Shift("optr",
                   Append(out, IF Top.k = "array" THEN Arr(<<>>) ELSE Call(Top.t, <<>>)), Pop(ops), FALSE)

\* ---- an operand has just been completed
G_Reduce == Running /\ mode = "optr" /\ HasTop /\ MustReduce(Top, Tok)
Reduce   == /\ G_Reduce /\ Count("Reduce")
            /\ out' = IF Top.k = "pre"
                      THEN [out EXCEPT ![Len(out)] = Un(Top.t, @)]
                      ELSE Append(SubSeq(out, 1, Len(out) - 2), Bin(Top.t, out[Len(out) - 1], out[Len(out)]))
            /\ ops' = Pop(ops) /\ lastIs' = FALSE
            /\ UNCHANGED <<chunk, idx, toks, pos, mode, status, tally>>

G_Binary == Running /\ mode = "optr" /\ Tok[1] = "op" /\ HasRow(Tok[2], "infix") /\ ~G_Reduce
Binary   == G_Binary /\ Count("Binary") /\ Shift("opnd", out, Append(ops, Entry("bin", Tok[2], Row(Tok[2], "infix").lvl)), FALSE)

G_IsCast == Running /\ mode = "optr" /\ Tok[1] = "is" /\ Tok[2] \in CastTypes /\ ~G_Reduce
IsCast   == /\ G_IsCast /\ Count("IsCast")
            /\ IF lastIs THEN Stop("dc")                                                      \* D1
               ELSE Shift("optr", [out EXCEPT ![Len(out)] = IsN(Tok[2], @)], ops, TRUE)

G_OpenIndex == Running /\ mode = "optr" /\ Tok[1] = "[" /\ ~lastIs                             \* R3
OpenIndex   == G_OpenIndex /\ Count("OpenIndex") /\ Shift("opnd", out, Append(ops, Entry("index", "", 0)), FALSE)

G_DotLength == Running /\ mode = "optr" /\ Tok[1] = ".length" /\ ~lastIs                       \* R3
DotLength   == G_DotLength /\ Count("DotLength") /\ Shift("optr", [out EXCEPT ![Len(out)] = Ln(@)], ops, FALSE)

Args == SubSeq(out, Len(out) - Top.n, Len(out))          \* the n+1 completed elements of the open list
Below == SubSeq(out, 1, Len(out) - Top.n - 1)

G_CloseParen == Running /\ mode = "optr" /\ Tok[1] = ")" /\ ~G_Reduce /\ HasTop /\ Top.k \in {"paren", "call"}
CloseParen   == G_CloseParen /\ Count("CloseParen") /\ Shift("optr",
                   IF Top.k = "paren" THEN out ELSE Append(Below, Call(Top.t, Args)), Pop(ops), FALSE)

G_CloseBracket == Running /\ mode = "optr" /\ Tok[1] = "]" /\ ~G_Reduce /\ HasTop /\ Top.k \in {"index", "array"}
CloseBracket   == G_CloseBracket /\ Count("CloseBracket") /\ Shift("optr",
                   IF Top.k = "index"
                   THEN Append(SubSeq(out, 1, Len(out) - 2), Ix(out[Len(out) - 1], out[Len(out)]))
                   ELSE Append(Below, Arr(Args)), Pop(ops), FALSE)

G_Comma == Running /\ mode = "optr" /\ Tok[1] = "," /\ ~G_Reduce /\ HasTop /\ Top.k \in {"array", "call"}
Comma   == G_Comma /\ Count("Comma") /\ Shift("opnd", out, [ops EXCEPT ![Len(ops)].n = @ + 1], FALSE)

G_Finish == Running /\ mode = "optr" /\ Tok[1] = "end" /\ ~HasTop
Finish   == G_Finish /\ Count("Finish") /\ Stop("acc")

\* ---- anything else is not an expression (R4)
Reject == /\ Running
          /\ ~(G_Operand \/ G_Prefix \/ G_OpenParen \/ G_OpenArray \/ G_OpenCall \/ G_CloseEmpty \/ G_Reduce
               \/ G_Binary \/ G_IsCast \/ G_OpenIndex \/ G_DotLength \/ G_CloseParen \/ G_CloseBracket
               \/ G_Comma \/ G_Finish)
          /\ Stop("rej") /\ Count("Reject")

---------------------------------------------------------------------------
(* The verdict for the finished case, and on to the next one.              *)
ModelTree    == IF status = "acc" THEN out[1] ELSE Nil
ModelVerdict == IF status = "rej" THEN "reject"
                ELSE IF status = "dc" THEN "dontcare"
                ELSE IF SpecNested(out[1]) THEN "dontcare" ELSE "tree"

Agree(c, mv, mt) == \/ mv = "dontcare"
                    \/ mv = "reject" /\ c.st = "reject"
                    \/ mv = "tree" /\ c.st = "tree" /\ c.tree = mt

(* Round-trip cases: the string is the spec's own Unparse of c.orig, and the *)
(* spec's own parse of it gives c.orig back (a failure here is a defect of *)
(* this module, not of hidc).                                              *)
RtSound(c, mv, mt) == \/ ~c.rt
                      \/ /\ Unparse(c.orig) = c.toks
                         /\ \/ SpecNested(c.orig) /\ mv = "dontcare"
                            \/ mv = "tree" /\ mt = c.orig

Judge ==
  /\ InBatch /\ status \in {"acc", "rej", "dc"} /\ Count("Judge")
  /\ LET c  == TheCases[idx]
         mv == ModelVerdict
         mt == ModelTree
         ag == Agree(c, mv, mt)
         rs == RtSound(c, mv, mt)
     IN /\ IF ag THEN TRUE ELSE PrintT(<<"HV", idx, "MISMATCH", mv, mt>>)
        /\ IF rs THEN TRUE ELSE PrintT(<<"HV", idx, "SPEC", mv, mt, Unparse(c.orig)>>)
        /\ tally' = [eval  |-> tally.eval + 1,
                     agree |-> tally.agree + (IF ag /\ mv # "dontcare" THEN 1 ELSE 0),
                     trees |-> tally.trees + (IF ag /\ mv = "tree" THEN 1 ELSE 0),
                     dc    |-> tally.dc + (IF mv = "dontcare" THEN 1 ELSE 0),
                     bad   |-> tally.bad + (IF ag THEN 0 ELSE 1),
                     rt    |-> tally.rt + (IF c.rt /\ rs /\ ag /\ mv = "tree" THEN 1 ELSE 0),
                     spec  |-> tally.spec + (IF rs THEN 0 ELSE 1)]
  /\ idx' = idx + NChunks /\ toks' = Tape(idx + NChunks)
  /\ pos' = 1 /\ mode' = "opnd" /\ out' = <<>> /\ ops' = <<>> /\ lastIs' = FALSE /\ status' = "run"
  /\ UNCHANGED chunk

Summary == /\ ~InBatch /\ status = "run"
           /\ Count("Summary")
           /\ PrintT(<<"HV", "CHUNK", chunk, tally, acts'>>)
           /\ status' = "end"
           /\ UNCHANGED <<chunk, idx, toks, pos, mode, out, ops, lastIs, tally>>

ZeroTally == [eval |-> 0, agree |-> 0, trees |-> 0, dc |-> 0, bad |-> 0, rt |-> 0, spec |-> 0]
Init == /\ chunk \in 1..NChunks /\ idx = chunk /\ toks = Tape(chunk)
        /\ pos = 1 /\ mode = "opnd" /\ out = <<>> /\ ops = <<>> /\ lastIs = FALSE /\ status = "run"
        /\ tally = ZeroTally /\ acts = [a \in ActionNames |-> 0]

Next == \/ Operand \/ Prefix \/ OpenParen \/ OpenArray \/ OpenCall \/ CloseEmpty
        \/ Reduce \/ Binary \/ IsCast \/ OpenIndex \/ DotLength \/ CloseParen \/ CloseBracket \/ Comma
        \/ Finish \/ Reject \/ Judge \/ Summary

TraceSpec == Init /\ [][Next]_vars

(* Shape of the machine (checked as an invariant in every run). *)
TypeOK == /\ mode \in {"opnd", "optr"}
          /\ status \in {"run", "acc", "rej", "dc", "end"}
          /\ lastIs \in BOOLEAN
          /\ (status = "acc" => Len(out) = 1 /\ Len(ops) = 0)
          /\ (mode = "optr" /\ status = "run" => Len(out) >= 1)
          /\ (lastIs => mode = "optr" /\ out[Len(out)].k = "is")

---------------------------------------------------------------------------
(* PrintSpec: emit the minimal-parenthesis token string of every tree of   *)
(* the batch (the machine variables are idle).                             *)
PInit == Init
Emit == /\ idx <= Len(TheTrees)
        /\ PrintT(<<"HV", "P", idx, Unparse(TheTrees[idx])>>)
        /\ idx' = idx + NChunks
        /\ UNCHANGED <<chunk, toks, pos, mode, out, ops, lastIs, status, tally, acts>>
PrintSpec == PInit /\ [][Emit]_vars

---------------------------------------------------------------------------
(* A built-in batch so that the module can be run on its own               *)
(* (Precedence.cfg): the four upstream test_precedence cases, two of       *)
(* test_misc_expr, and one example per rule / dontcare above.              *)
xa == Id("a")  xb == Id("b")  xc == Id("c")  xd == Id("d")
ka == T("id", "a")  kb == T("id", "b")  kc == T("id", "c")  kd == T("id", "d")
n1 == T("int", "1")  n2 == T("int", "2")  n3 == T("int", "3")  n0 == T("int", "0")
Got(tk, t)  == [toks |-> tk, st |-> "tree", tree |-> t, rt |-> FALSE, orig |-> Nil]
GotRT(t)    == [toks |-> Unparse(t), st |-> "tree", tree |-> t, rt |-> TRUE, orig |-> t]
Rej(tk)     == [toks |-> tk, st |-> "reject", tree |-> Nil, rt |-> FALSE, orig |-> Nil]
SelfCases == <<
  Got(<<n1, O("+"), n2, O("+"), n3>>, Bin("+", Bin("+", IntL("1"), IntL("2")), IntL("3"))),
  Got(<<n1, O("+"), LP, n2, O("+"), n3, RP>>, Bin("+", IntL("1"), Bin("+", IntL("2"), IntL("3")))),
  Got(<<n1, O("+"), n2, O("*"), n3>>, Bin("+", IntL("1"), Bin("*", IntL("2"), IntL("3")))),
  Got(<<n1, O("+"), O("-"), n2>>, Bin("+", IntL("1"), Un("-", IntL("2")))),
  Got(<<T("id", "arr"), LB, n0, RB, DL>>, Ln(Ix(Id("arr"), IntL("0")))),
  Got(<<T("id", "arr"), LB, n0, RB, LB, n1, RB>>, Ix(Ix(Id("arr"), IntL("0")), IntL("1"))),
  Got(<<O("-"), ka, T("is", "byte")>>, IsN("byte", Un("-", xa))),
  Got(<<O("not"), ka, O("=="), kb, O("and"), kc, O("or"), kd>>,
      Bin("or", Bin("and", Bin("==", Un("not", xa), xb), xc), xd)),
  Got(<<ka, O("*"), kb, T("is", "int"), O("+"), kc>>, Bin("+", Bin("*", xa, IsN("int", xb)), xc)),
  Got(<<O("-"), ka, LB, kb, RB, DL>>, Un("-", Ln(Ix(xa, xb)))),
  Got(<<ka, O("<"), kb, O("<"), kc>>, Bin("<", Bin("<", xa, xb), xc)),
  Got(<<ka, O("??"), kb, O("or"), kc>>, Bin("??", xa, Bin("or", xb, xc))),
  Got(<<LP, ka, O("??"), kb, RP, O("+"), LB, kc, O("??"), kd, CM, ka, RB, LB, n0, RB>>,
      Bin("+", Bin("??", xa, xb), Ix(Arr(<<Bin("??", xc, xd), xa>>), IntL("0")))),
  Got(<<T("call", "f"), RP, O("+"), T("call", "g"), ka, CM, kb, O("*"), kc, RP, DL>>,
      Bin("+", Call("f", <<>>), Ln(Call("g", <<xa, Bin("*", xb, xc)>>)))),
  GotRT(Bin("*", Bin("+", xa, xb), Un("-", Bin("*", xc, xd)))),
  GotRT(IsN("byte", IsN("int", Ix(Un("-", xa), Bin("??", xb, xc))))),
  GotRT(Bin("-", xa, Bin("-", xb, Bin("/", Bin("/", xc, xd), Bin("%", xa, xb))))),
  Rej(<<ka, O("??"), kb, O("??"), kc>>),                                   \* D2: dontcare
  Rej(<<ka, O("??"), LP, kb, O("??"), kc, RP>>),                           \* D2: dontcare
  Got(<<ka, T("is", "int"), T("is", "byte")>>, IsN("byte", IsN("int", xa))), \* D1: dontcare
  Rej(<<ka, T("is", "int"), LB, kb, RB>>),
  Rej(<<ka, T("is", "int"), DL>>),
  Rej(<<ka, O("+")>>), Rej(<<O("*"), ka>>), Rej(<<ka, kb>>), Rej(<<ka, O("not"), kb>>),
  Rej(<<LP, ka>>), Rej(<<ka, RP>>), Rej(<<LB, ka, CM, RB>>), Rej(<<ka, LB, RB>>), Rej(<<LP, RP>>), Rej(<<>>) >>
SelfTrees == << Bin("*", Bin("+", xa, xb), xc), Un("-", IsN("int", xa)) >>
=============================================================================
