"""C17 The write family prints canonically for every value.  Decided by Refine.tla (oracle: Word.Decimal,
true/false, identity on bytes, exact length); each call is surrounded by live locals and arrays that are printed
afterwards, also with the stack as tight as it gets."""
import time
from hv import rt, fam_ops

PROP = 'C17'


def main(tier, seed):
    t0 = time.time()
    ws = [2, [3, 4, 8][seed % 3]] if tier == 'quick' else [2, 3, 4, 8]
    items = fam_ops.write_family(seed, tier, ws)
    # the routines have internal branches (sign, digit loop, string loop): inside a try that later defeats, a Turing jump must
    # not be able to take the other side of one of them
    from hv import fam_tt
    items += fam_tt.template_family(seed, tier, only=[t for t in fam_tt.TEMPLATES if t[0] == 'library_calls_then_defeat'])
    return rt.standard(PROP, tier, seed, items,
                       'write(int): W=2 every value in [-1100,1100], powers of ten +-1, extremes, seeded randoms (thorough: all '
                       '65536); boundary/random values at other word sizes; write(bool); write(byte) all 256; strings and byte '
                       'arrays of lengths 0..64 (const, mutable, string-converted, entry arguments); tight stacks', t0)
