"""C11 case sources: token strings and trees in the shapes of spec/Precedence.tla.

Nothing in this file decides anything: it only *enumerates* inputs (token strings for the real parser,
trees for the spec's printer) and renders them as TLA+ text / HiD source text.  The expected tree of a
token string is computed by the machine in Precedence.tla, the minimal-parenthesis string of a tree by
Unparse in Precedence.tla.

token = (cls, text)   cls in id/int/char/str/bool, op, is, ( ) [ ] .length call ,
tree  = (k, t, children)  k in id/int/char/str/bool, un, bin, is, ix, len, arr, call
"""
import itertools, random

BINOPS = ['*', '/', '%', '+', '-', '==', '!=', '<', '<=', '>', '>=', 'and', 'or', '??']
PREOPS = ['+', '-', 'not']
REPS = ['*', '+', '<', 'and', 'or', '??']          # one binary operator per documented level
CAST_TYPES = ['int', 'byte', 'bool', 'string', 'int[]', 'byte[]', 'bool[]', 'string[]']
LEAF_KINDS = ('id', 'int', 'char', 'str', 'bool')

LP, RP, LB, RB, DL, CM = ('(', ''), (')', ''), ('[', ''), (']', ''), ('.length', ''), (',', '')


def O(x):
    return ('op', x)


def ident(x):
    return ('id', x)


def IS(ty):
    return ('is', ty)


def CALL(f):
    return ('call', f)


# ------------------------------------------------------------------ rendering
def tok_src(tok):
    c, v = tok
    if c in LEAF_KINDS or c == 'op':
        return v
    if c == 'is':
        return 'is ' + v
    if c == 'call':
        return v + '('
    return c


def toks_src(toks):
    return ' '.join(tok_src(t) for t in toks)


def _q(s):
    return '"%s"' % s.replace('\\', '\\\\').replace('"', '\\"')


_SHORT = {LP: 'LP', RP: 'RP', LB: 'LB', RB: 'RB', DL: 'DL', CM: 'CM'}


def tok_tla(tok):
    if tok in _SHORT:
        return _SHORT[tok]
    if tok[0] == 'op':
        return 'O(%s)' % _q(tok[1])
    return 'T(%s,%s)' % (_q(tok[0]), _q(tok[1]))


def toks_tla(toks):
    return '<<' + ','.join(tok_tla(t) for t in toks) + '>>'


_LEAF_CTOR = {'id': 'Id', 'int': 'IntL', 'char': 'CharL', 'str': 'StrL', 'bool': 'BoolL'}


def tree_tla(t):
    if t is None:
        return 'Nil'
    k, v, c = t
    if k in _LEAF_CTOR:
        return '%s(%s)' % (_LEAF_CTOR[k], _q(v))
    if k == 'un':
        return 'Un(%s,%s)' % (_q(v), tree_tla(c[0]))
    if k == 'bin':
        return 'Bin(%s,%s,%s)' % (_q(v), tree_tla(c[0]), tree_tla(c[1]))
    if k == 'is':
        return 'IsN(%s,%s)' % (_q(v), tree_tla(c[0]))
    if k == 'ix':
        return 'Ix(%s,%s)' % (tree_tla(c[0]), tree_tla(c[1]))
    if k == 'len':
        return 'Ln(%s)' % tree_tla(c[0])
    if k == 'arr':
        return 'Arr(<<%s>>)' % ','.join(tree_tla(x) for x in c)
    if k == 'call':
        return 'Call(%s,<<%s>>)' % (_q(v), ','.join(tree_tla(x) for x in c))
    raise ValueError('tree kind %r' % (k,))


def tree_from_value(v):
    """A tree printed by TLC (record parsed by tlc.parse_value) -> python tree."""
    if v.get('k') == 'nil':
        return None
    return (v['k'], v['t'], tuple(tree_from_value(x) for x in v['c']))


def toks_from_value(v):
    return [(a, b) for a, b in v]


def tree_depth(t):
    return 0 if not t[2] else 1 + max(tree_depth(x) for x in t[2])


def tree_size(t):
    return 1 + sum(tree_size(x) for x in t[2])


def tree_show(t):
    """Compact human-readable s-expression (evidence / replay files only)."""
    if t is None:
        return '-'
    k, v, c = t
    if not c and k in LEAF_KINDS:
        return v
    head = {'un': 'u' + v, 'bin': v, 'is': 'is:' + v, 'ix': 'ix', 'len': 'len', 'arr': 'arr', 'call': 'call:' + v}[k]
    return '(' + ' '.join([head] + [tree_show(x) for x in c]) + ')'


# ------------------------------------------------------------------ tree constructors
def leaf(k, v):
    return (k, v, ())


def Id(v):
    return leaf('id', v)


def Un(o, x):
    return ('un', o, (x,))


def Bin(o, l, r):
    return ('bin', o, (l, r))


def Is(ty, x):
    return ('is', ty, (x,))


def Ix(b, i):
    return ('ix', '', (b, i))


def Ln(b):
    return ('len', '', (b,))


def Arr(*c):
    return ('arr', '', tuple(c))


def Call(f, *c):
    return ('call', f, tuple(c))


# ------------------------------------------------------------------ family (a): pairs and triples
def family_pairs_triples(triple_ops=BINOPS):
    a, b, c, d = (ident(x) for x in 'abcd')
    for o1, o2 in itertools.product(BINOPS, repeat=2):
        yield 'a2', [a, O(o1), b, O(o2), c]
    for o1, o2, o3 in itertools.product(triple_ops, repeat=3):
        yield 'a3', [a, O(o1), b, O(o2), c, O(o3), d]


# ------------------------------------------------------------------ family (b): decorations of one operand
def _decorations():
    """name -> function(operand token) -> token list.  Every unary / is / postfix / bracketed-operand form."""
    i, j = ident('i'), ident('j')
    D = {}
    for p in PREOPS:
        D['pre ' + p] = lambda x, p=p: [O(p), x]
    for p, q in itertools.product(PREOPS, repeat=2):
        D['pre %s %s' % (p, q)] = lambda x, p=p, q=q: [O(p), O(q), x]
    D['pre - - -'] = lambda x: [O('-'), O('-'), O('-'), x]
    for ty in ('int', 'byte[]'):
        D['is ' + ty] = lambda x, ty=ty: [x, IS(ty)]
    D['- is byte'] = lambda x: [O('-'), x, IS('byte')]
    D['not is bool'] = lambda x: [O('not'), x, IS('bool')]
    D['+ - is int'] = lambda x: [O('+'), O('-'), x, IS('int')]
    D['index'] = lambda x: [x, LB, i, RB]
    D['length'] = lambda x: [x, DL]
    D['- index'] = lambda x: [O('-'), x, LB, i, RB]
    D['not index'] = lambda x: [O('not'), x, LB, i, RB]
    D['- length'] = lambda x: [O('-'), x, DL]
    D['index length'] = lambda x: [x, LB, i, RB, DL]
    D['index index'] = lambda x: [x, LB, i, RB, LB, j, RB]
    D['index is int'] = lambda x: [x, LB, i, RB, IS('int')]
    D['- index is int'] = lambda x: [O('-'), x, LB, i, RB, IS('int')]
    D['length is byte'] = lambda x: [x, DL, IS('byte')]
    D['not length is bool'] = lambda x: [O('not'), x, DL, IS('bool')]
    D['index expr'] = lambda x: [x, LB, i, O('+'), j, O('*'), i, RB]
    D['index or'] = lambda x: [x, LB, i, O('or'), O('not'), j, RB]
    D['index of index'] = lambda x: [x, LB, i, LB, j, RB, RB]
    D['paren'] = lambda x: [LP, x, RP]
    D['- paren'] = lambda x: [O('-'), LP, x, RP]
    D['paren index'] = lambda x: [LP, x, RP, LB, i, RB]
    D['paren - index'] = lambda x: [LP, O('-'), x, RP, LB, i, RB]
    D['paren is is'] = lambda x: [LP, x, IS('int'), RP, IS('byte')]
    D['- paren is'] = lambda x: [O('-'), LP, x, IS('int'), RP]
    D['paren is length'] = lambda x: [LP, x, IS('byte[]'), RP, DL]
    D['array'] = lambda x: [LB, x, CM, i, RB]
    D['array index'] = lambda x: [LB, x, CM, i, O('+'), j, RB, LB, j, RB]
    D['- array length'] = lambda x: [O('-'), LB, x, RB, DL]
    D['call'] = lambda x: [CALL('f'), x, RP]
    D['call 2 index'] = lambda x: [CALL('f'), x, O('*'), i, CM, O('-'), j, RP, LB, j, RB]
    D['not call length'] = lambda x: [O('not'), CALL('f'), x, RP, DL]
    D['call 0'] = lambda x: [CALL('f'), RP]
    D['array 0'] = lambda x: [LB, RB]
    D['lit int'] = lambda x: [('int', '1')]
    D['- lit int'] = lambda x: [O('-'), ('int', '1')]
    D['lit char'] = lambda x: [('char', "'x'")]
    D['lit str length'] = lambda x: [('str', '"s"'), DL]
    D['lit str index'] = lambda x: [('str', '"s"'), LB, ('int', '0'), RB]
    D['not lit bool'] = lambda x: [O('not'), ('bool', 'true')]
    D['lit bool'] = lambda x: [('bool', 'false')]
    return D


DECORATIONS = _decorations()


def family_decorations(pairs=None):
    names = 'abc'
    pairs = list(itertools.product(BINOPS, repeat=2)) if pairs is None else list(pairs)
    for o1, o2 in pairs:
        for dn, df in DECORATIONS.items():
            for p in range(3):
                opnd = [[ident(n)] for n in names]
                opnd[p] = df(ident(names[p]))
                yield 'b', opnd[0] + [O(o1)] + opnd[1] + [O(o2)] + opnd[2]
    # every decoration alone, and a decorated parenthesised group on either side of an operator
    for dn, df in DECORATIONS.items():
        yield 'b', df(ident('a'))
    G = {'-': lambda g: [O('-')] + g, 'not': lambda g: [O('not')] + g, 'is': lambda g: g + [IS('int')],
         'index': lambda g: g + [LB, ident('i'), RB], 'length': lambda g: g + [DL], 'plain': lambda g: g}
    for o1, o2 in pairs:
        grp = [LP, ident('a'), O(o1), ident('b'), RP]
        for gn, gf in G.items():
            yield 'b', gf(grp) + [O(o2), ident('c')]
            yield 'b', [ident('c'), O(o2)] + gf(grp)


# ------------------------------------------------------------------ family (c): every parenthesisation
def _bracketings(n):
    """All laminar families of operand ranges (i, j), 0 <= i < j < n, other than the whole chain."""
    ranges = [(i, j) for i in range(n) for j in range(i + 1, n) if (i, j) != (0, n - 1)]

    def compatible(r, s):
        (a, b), (c, d) = r, s
        return b < c or d < a or (a <= c and d <= b) or (c <= a and b <= d)
    res = []
    for k in range(len(ranges) + 1):
        for sub in itertools.combinations(ranges, k):
            if all(compatible(r, s) for r, s in itertools.combinations(sub, 2)):
                res.append(sub)
    return res


def family_parenthesisations(n=4, ops=REPS):
    names = 'abcdefgh'
    brs = _bracketings(n)
    for opsel in itertools.product(ops, repeat=n - 1):
        for br in brs:
            toks = []
            for p in range(n):
                toks += [LP] * sum(1 for r in br if r[0] == p)
                toks.append(ident(names[p]))
                toks += [RP] * sum(1 for r in br if r[1] == p)
                if p < n - 1:
                    toks.append(O(opsel[p]))
            yield 'c', toks


# ------------------------------------------------------------------ family (e): malformed and dontcare strings
def family_malformed():
    a, b, c, i = (ident(x) for x in 'abci')
    alltok = BINOPS + ['not']
    for o1 in BINOPS:
        yield 'e', [a, O(o1)]
        yield 'e', [O(o1), a]                       # a tree for + and -, otherwise not an expression
        for o2 in alltok:
            yield 'e', [a, O(o1), O(o2), b]         # a tree iff o2 is a prefix operator
        yield 'e', [a, O(o1), b, IS('int'), IS('byte')]          # D1
        yield 'e', [a, IS('int'), IS('byte'), O(o1), b]          # D1
        yield 'e', [a, O(o1), b, IS('int'), LB, i, RB]           # R3
        yield 'e', [a, O(o1), b, IS('byte[]'), DL]               # R3
        yield 'e', [LP, a, O(o1), b]
        yield 'e', [a, O(o1), b, RP]
        yield 'e', [a, O(o1), LP, RP]
        yield 'e', [a, LB, RB, O(o1), b]
        yield 'e', [LB, a, CM, RB, O(o1), b]
        yield 'e', [CALL('f'), CM, a, RP, O(o1), b]
        yield 'e', [a, O(o1), b, c]
        yield 'e', [a, O('??'), LP, b, O('??'), c, RP, O(o1), a]   # D2 (or a tree below ??)
        yield 'e', [LP, a, O('??'), b, RP, O(o1), c, O('??'), a]   # D2
        yield 'e', [a, LB, b, O('??'), c, RB, O(o1), LP, a, O('??'), b, RP]   # two levels, each once
    for extra in ([], [a, O('not'), b], [a, b], [O('not')], [a, IS('int'), IS('int'), IS('int')], [a, DL, DL],
                  [a, IS('empty')], [LP, a, RB], [LB, a, RP], [a, CM, b], [a, LB, b, CM, c, RB], [LP, a, CM, b, RP],
                  [O('-'), O('-')], [DL], [a, O('-'), DL], [IS('int')], [O('-'), IS('int')]):
        yield 'e', list(extra)


# ------------------------------------------------------------------ family (d): trees for the round trip
def enumerate_trees(depth, leaves, binops, preops, types, index_with=None, lists=False, length=True):
    """All trees of depth <= `depth` over the given alphabet.  index_with: fixed index leaf (None: every
    tree of the previous level is also used as index)."""
    level = list(leaves)
    seen = set(level)
    prev = list(level)
    for _ in range(depth):
        new = []

        def add(t):
            if t not in seen:
                seen.add(t)
                new.append(t)
        for o in binops:
            for l in prev:
                for r in prev:
                    add(Bin(o, l, r))
        for x in prev:
            for o in preops:
                add(Un(o, x))
            for ty in types:
                add(Is(ty, x))
            if length:
                add(Ln(x))
            if index_with is not None:
                add(Ix(x, index_with))
            else:
                for y in prev:
                    add(Ix(x, y))
            if lists:
                add(Arr(x))
                add(Call('f', x))
        prev = prev + new
    return prev


def has_spec(t):
    return (t[0] == 'bin' and t[1] == '??') or any(has_spec(x) for x in t[2])


_RAND_LEAVES = [Id('a'), Id('b'), Id('c'), Id('x'), Id('n'), leaf('int', '0'), leaf('int', '1'), leaf('int', '42'),
                leaf('char', "'x'"), leaf('char', "'0'"), leaf('str', '"s"'), leaf('str', '"hi there"'),
                leaf('bool', 'true'), leaf('bool', 'false')]


def random_tree(rnd, depth, exact=False, in_spec=False):
    """Random tree of depth <= depth (== depth when exact) over all operators, postfix forms and literals.
    A ?? is never placed inside an operand of a ?? (dontcare D2 adds nothing to a round trip)."""
    if depth == 0 or (not exact and rnd.random() < 0.18):
        return rnd.choice(_RAND_LEAVES)
    kinds = ['bin'] * 10 + ['un'] * 3 + ['is'] * 2 + ['ix'] * 2 + ['len'] + ['arr'] + ['call']
    k = rnd.choice(kinds)

    def sub(ex, spec=in_spec):
        return random_tree(rnd, depth - 1, ex, spec)
    if k == 'bin':
        ops = [o for o in BINOPS if not (in_spec and o == '??')]
        o = rnd.choice(ops)
        if o != '??' and rnd.random() < 0.08 and not in_spec:
            o = '??'
        left_exact = rnd.random() < 0.5
        sp = in_spec or o == '??'
        return Bin(o, sub(exact and left_exact, sp), sub(exact and not left_exact, sp))
    if k == 'un':
        return Un(rnd.choice(PREOPS), sub(exact))
    if k == 'is':
        return Is(rnd.choice(CAST_TYPES), sub(exact))
    if k == 'ix':
        left_exact = rnd.random() < 0.5
        return Ix(sub(exact and left_exact), sub(exact and not left_exact))
    if k == 'len':
        return Ln(sub(exact))
    n = rnd.choice([0, 1, 1, 2, 3]) if not exact else rnd.choice([1, 2, 3])
    which = rnd.randrange(n) if n else 0
    items = [sub(exact and p == which) for p in range(n)]
    return Arr(*items) if k == 'arr' else Call(rnd.choice(['f', 'g', 'sum']), *items)
