INIT Init
NEXT Next
INVARIANT ExitNonzeroLeavesNoFile
INVARIANT ExitZeroFileComplete
INVARIANT OutcomeIsAssemblyOrDiagnostic
INVARIANT NoPartialFileAtExit
INVARIANT DumpWritesNothing
INVARIANT ReproHasOneDigest
