INIT Init
NEXT Next
