----------------------------- MODULE SphinxCode -----------------------------
(* Constructors for instruction and operand records of the Sphinx machine, used by the generated batch     *)
(* modules (keeps them small: SANY is slow on big literals).                                             *)
(* operand: [k |-> "i"/"s"/"c"/"n", v |-> address or small value (-1 if large), w |-> immediate word,   *)
(*           tg |-> provenance tag [t, x, y] of a label immediate]                                       *)
EXTENDS Integers, Sequences, TLC
TNone == [t |-> "N", x |-> 0, y |-> 0]
OpN == [k |-> "n", v |-> 0, w |-> <<>>, tg |-> TNone]
OI(v, w) == [k |-> "i", v |-> v, w |-> w, tg |-> TNone]
OIT(v, w, tt, x, y) == [k |-> "i", v |-> v, w |-> w, tg |-> [t |-> tt, x |-> x, y |-> y]]
OS(v) == [k |-> "s", v |-> v, w |-> <<>>, tg |-> TNone]
OC(v) == [k |-> "c", v |-> v, w |-> <<>>, tg |-> TNone]
I0(op) == [op |-> op, a |-> OpN, b |-> OpN, c |-> OpN, f |-> 0]
I1(op, a) == [op |-> op, a |-> a, b |-> OpN, c |-> OpN, f |-> 0]
I2(op, a, b) == [op |-> op, a |-> a, b |-> b, c |-> OpN, f |-> 0]
I3(op, a, b, c) == [op |-> op, a |-> a, b |-> b, c |-> c, f |-> 0]
IFlag(f) == [op |-> "flag", a |-> OpN, b |-> OpN, c |-> OpN, f |-> f]
TG(tt, x, y) == [t |-> tt, x |-> x, y |-> y]

=============================================================================
