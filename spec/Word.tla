------------------------------- MODULE Word -------------------------------
(* W-byte two's-complement machine words.                                                            *)
(*                                                                                                   *)
(* A word is a tuple of W bytes, least significant first - exactly the memory representation of the *)
(* Sphinx machine (little endian), so loading/storing a word is SubSeq/splice with no conversion.    *)
(* TLC integers are 32 bit and overflow is an error, so nothing here ever forms an integer larger    *)
(* than 2^31: arithmetic is done limb-wise (bytes), with an integer fast path only where W <= 3       *)
(* guarantees the value fits.  Both paths are model-checked against each other in WordMC.tla.        *)
(*                                                                                                   *)
(* Semantics fixed here (DESIGN Appendix A.1, assumption A1):                                       *)
(*   add/sub/mul wrap modulo 2^(8W); div/mod are FLOOR division / modulo (sign of the divisor),      *)
(*   min_int div -1 wraps to min_int; comparisons come signed and unsigned; asr is arithmetic.       *)
EXTENDS Integers, Sequences
LOCAL INSTANCE Bitwise
LOCAL INSTANCE SequencesExt
CONSTANT W
ASSUME W \in Nat /\ W >= 1

Bits == 8 * W
Zero == [i \in 1..W |-> 0]
One  == [i \in 1..W |-> IF i = 1 THEN 1 ELSE 0]
Ones == [i \in 1..W |-> 255]
IsWord(a) == /\ DOMAIN a = 1..W /\ \A i \in 1..W : a[i] \in 0..255
IsNeg(a) == a[W] >= 128
IsZero(a) == \A i \in 1..W : a[i] = 0
MinInt == [i \in 1..W |-> IF i = W THEN 128 ELSE 0]
MaxInt == [i \in 1..W |-> IF i = W THEN 127 ELSE 255]

(* ---------------------------------------------------------------- conversions *)
RECURSIVE NatLimbs(_, _)
NatLimbs(n, k) == IF k = 0 THEN <<>> ELSE <<n % 256>> \o NatLimbs(n \div 256, k - 1)

BNot(a) == [i \in 1..W |-> 255 - a[i]]

\* ripple-carry addition with carry-in c0.  NOTE on style: loops over limbs are FoldLeft (evaluated eagerly
\* by TLC's Java override).  A RECURSIVE operator that threads an accumulator through its parameters is
\* evaluated lazily by TLC and re-evaluates the chain at every reference: cost 2^W (measured: W=8 80x slower).
Indices == [i \in 1..W |-> i]
\* evaluate x ONCE and hand the value to F (LET definitions and operator arguments are re-evaluated by TLC
\* at every reference; a one-element FoldLeft binds a concrete value instead)
WithVal(x, F(_)) == FoldLeft(LAMBDA acc, e : F(e), 0, <<x>>)
AddC(a, b, c0) ==
   LET Step(acc, i) == LET s == a[i] + b[i] + acc[2] IN <<Append(acc[1], s % 256), s \div 256>>
   IN FoldLeft(Step, <<<<>>, c0>>, Indices)[1]
\* (arguments are bound once with WithVal: an unevaluated argument would be recomputed at every limb access)
AddL(a, b) == WithVal(<<a, b>>, LAMBDA ab : AddC(ab[1], ab[2], 0))
NegL(a) == WithVal(BNot(a), LAMBDA na : AddC(na, Zero, 1))
SubL(a, b) == WithVal(<<a, BNot(b)>>, LAMBDA ab : AddC(ab[1], ab[2], 1))

\* unsigned value, defined when it is below 2^24 (always when W <= 3)
SmallNat(a) == \A i \in 4..W : a[i] = 0
ToNat(a) == a[1] + (IF W >= 2 THEN 256 * a[2] ELSE 0) + (IF W >= 3 THEN 65536 * a[3] ELSE 0)
Pow256(k) == IF k = 0 THEN 1 ELSE IF k = 1 THEN 256 ELSE IF k = 2 THEN 65536 ELSE 16777216
Fast == W <= 3                       \* every value fits a TLC integer with room for one carry
Mod == Pow256(W)                     \* meaningful only when Fast
\* 0 <= n < 2^31 -> word of its low W bytes (closed form, no recursion)
FromNat(n) == [i \in 1..W |-> IF i <= 4 THEN (n \div Pow256(i - 1)) % 256 ELSE 0]

Add(a, b) == IF Fast THEN FromNat((ToNat(a) + ToNat(b)) % Mod) ELSE AddL(a, b)
Neg(a) == IF Fast THEN FromNat((Mod - ToNat(a)) % Mod) ELSE NegL(a)
Sub(a, b) == IF Fast THEN FromNat((ToNat(a) + Mod - ToNat(b)) % Mod) ELSE SubL(a, b)

\* any TLC integer -> word (wraps if it does not fit)
FromInt(n) == IF n >= 0 THEN FromNat(n) ELSE NegL(FromNat(0 - n))
\* signed value, only for W <= 3
ToInt(a) == IF IsNeg(a) THEN ToNat(a) - Pow256(W) ELSE ToNat(a)
\* signed value when it is known to be small (|v| < 2^23) at any W
SmallInt(a) == IF IsNeg(a) THEN SmallNat(Neg(a)) ELSE SmallNat(a)
ToSmallInt(a) == IF IsNeg(a) THEN 0 - ToNat(Neg(a)) ELSE ToNat(a)

(* ---------------------------------------------------------------- comparisons *)
\* compare from the most significant limb down: 0 undecided, 1 less, 2 greater
IndicesDesc == [j \in 1..W |-> W + 1 - j]
ULtV(ab) == FoldLeft(LAMBDA acc, i : IF acc # 0 THEN acc
                                     ELSE IF ab[1][i] < ab[2][i] THEN 1 ELSE IF ab[1][i] > ab[2][i] THEN 2 ELSE 0,
                     0, IndicesDesc) = 1
ULtL(a, b) == WithVal(<<a, b>>, ULtV)
ULt(a, b) == IF Fast THEN ToNat(a) < ToNat(b) ELSE ULtL(a, b)
ULe(a, b) == ~ULt(b, a)
SLt(a, b) == IF IsNeg(a) # IsNeg(b) THEN IsNeg(a) ELSE ULt(a, b)
SLe(a, b) == ~SLt(b, a)

(* ---------------------------------------------------------------- multiplication *)
RECURSIVE ColSum(_, _, _, _)
ColSum(a, b, k, i) == IF i > k THEN 0 ELSE a[i] * b[k + 1 - i] + ColSum(a, b, k, i + 1)
MulV(ab) ==
   LET Step(acc, k) == LET s == ColSum(ab[1], ab[2], k, 1) + acc[2] IN <<Append(acc[1], s % 256), s \div 256>>
   IN FoldLeft(Step, <<<<>>, 0>>, Indices)[1]
MulL(a, b) == WithVal(<<a, b>>, MulV)
\* fast path: split into 12-bit halves so that no intermediate product reaches 2^31
MulNat(x, y) == LET x0 == x % 4096  x1 == x \div 4096  y0 == y % 4096  y1 == y \div 4096 IN
                (x0 * y0 + ((x1 * y0 + x0 * y1) % 4096) * 4096) % 16777216
Mul(a, b) == IF Fast THEN FromNat(MulNat(ToNat(a), ToNat(b)) % Mod) ELSE MulL(a, b)

(* ---------------------------------------------------------------- bitwise and shifts *)
BAnd(a, b) == [i \in 1..W |-> a[i] & b[i]]
BOr(a, b)  == [i \in 1..W |-> a[i] | b[i]]
BXor(a, b) == [i \in 1..W |-> a[i] ^^ b[i]]

Pow2(r) == CASE r = 0 -> 1 [] r = 1 -> 2 [] r = 2 -> 4 [] r = 3 -> 8 [] r = 4 -> 16
             [] r = 5 -> 32 [] r = 6 -> 64 [] r = 7 -> 128 [] OTHER -> 256
\* shift amount: an unsigned word, clamped to Bits
ShAmt(n) == IF SmallNat(n) /\ ToNat(n) < Bits THEN ToNat(n) ELSE Bits
LimbOr0(a, i) == IF i >= 1 /\ i <= W THEN a[i] ELSE 0
LimbOrF(a, i, f) == IF i >= 1 /\ i <= W THEN a[i] ELSE f
AslN(a, n) == LET q == n \div 8  r == n % 8 IN
   [i \in 1..W |-> ((LimbOr0(a, i - q) * Pow2(r)) % 256) + ((LimbOr0(a, i - q - 1) * Pow2(r)) \div 256)]
AsrN(a, n) == LET q == n \div 8  r == n % 8  f == IF IsNeg(a) THEN 255 ELSE 0 IN
   [i \in 1..W |-> (LimbOrF(a, i + q, f) \div Pow2(r)) + ((LimbOrF(a, i + q + 1, f) * Pow2(8 - r)) % 256)]
Asl(a, n) == AslN(a, ShAmt(n))
Asr(a, n) == AsrN(a, ShAmt(n))

(* ---------------------------------------------------------------- division (limb path) *)
BitAt(a, bit) == (a[(bit \div 8) + 1] \div Pow2(bit % 8)) % 2
SetBit(a, bit) == [a EXCEPT ![(bit \div 8) + 1] = @ + Pow2(bit % 8)]
Shl1In(a, b) == [i \in 1..W |-> ((a[i] * 2) % 256) + (IF i = 1 THEN b ELSE a[i - 1] \div 128)]
\* unsigned long division, bit by bit from the top: <<quotient, remainder>>.  Written as a FoldLeft
\* (evaluated eagerly by TLC's Java override) - a RECURSIVE operator with accumulating parameters is
\* evaluated lazily by TLC and blows up super-linearly at W >= 4.
BitsDesc == [i \in 1..Bits |-> Bits - i]
UDivModV(nd) ==
   LET Step(acc, bit) == LET r2 == Shl1In(acc[2], BitAt(nd[1], bit)) IN
                         IF ULt(r2, nd[2]) THEN <<acc[1], r2>> ELSE <<SetBit(acc[1], bit), Sub(r2, nd[2])>>
   IN FoldLeft(Step, <<Zero, Zero>>, BitsDesc)
UDivMod(n, d) == WithVal(<<n, d>>, UDivModV)
Abs(a) == IF IsNeg(a) THEN Neg(a) ELSE a       \* as an unsigned magnitude (min_int maps to 2^(Bits-1))

\* divide an unsigned magnitude by a small divisor (d <= 2^23), limb by limb from the top, with TLC
\* integers: <<quotient, remainder (a TLC integer)>>.  Also used for decimal rendering.
DivSmallV(md) ==
   LET Step(acc, i) == LET cur == acc[2] * 256 + md[1][i] IN <<[acc[1] EXCEPT ![i] = cur \div md[2]], cur % md[2]>>
   IN FoldLeft(Step, <<Zero, 0>>, IndicesDesc)
DivSmall(m, d) == WithVal(<<m, d>>, DivSmallV)
IsSmallDivisor(d) == SmallNat(d) /\ ToNat(d) <= 8388608
UDivModAny(n, d) == IF IsSmallDivisor(d) THEN LET qr == DivSmall(n, ToNat(d)) IN <<qr[1], FromNat(qr[2])>>
                    ELSE UDivMod(n, d)

\* floor division and modulo, b # 0, on limbs
DivModSigned(x) ==      \* x = <<a, b, <<q, r>> of the magnitudes>>
   LET a == x[1]  b == x[2]  q == x[3][1]  r == x[3][2]
   IN IF IsNeg(a) = IsNeg(b)
      THEN <<q, IF IsNeg(b) THEN Neg(r) ELSE r>>
      ELSE IF IsZero(r) THEN <<Neg(q), Zero>>
           ELSE <<Neg(Add(q, One)), IF IsNeg(b) THEN Sub(r, Abs(b)) ELSE Sub(Abs(b), r)>>
DivModLimbs(a, b) == WithVal(<<a, b, UDivModAny(Abs(a), Abs(b))>>, DivModSigned)

\* integer fast path (W <= 3): TLC's \div is floor division; % needs a positive divisor
IntFloorMod(x, y) == IF y > 0 THEN x % y ELSE 0 - ((0 - x) % (0 - y))
DivFloor(a, b) == IF W <= 3 THEN FromInt(ToInt(a) \div ToInt(b)) ELSE DivModLimbs(a, b)[1]
ModFloor(a, b) == IF W <= 3 THEN FromInt(IntFloorMod(ToInt(a), ToInt(b))) ELSE DivModLimbs(a, b)[2]

(* ---------------------------------------------------------------- narrowing / widening *)
LowByte(a) == a[1]
ByteWord(b) == [i \in 1..W |-> IF i = 1 THEN b ELSE 0]       \* zero extension
BoolWord(t) == IF t THEN One ELSE Zero
Truthy(a) == ~IsZero(a)

(* ---------------------------------------------------------------- signed decimal rendering *)
\* decimal digits of an unsigned magnitude: at most 3*W digits; acc = <<remaining value, digits so far>>
UDigits(m) ==
   LET Step(acc, i) == IF i > 1 /\ IsZero(acc[1]) THEN acc
                       ELSE LET qr == DivSmall(acc[1], 10) IN <<qr[1], <<48 + qr[2]>> \o acc[2]>>
   IN FoldLeft(Step, <<m, <<>>>>, [i \in 1..(3 * W) |-> i])[2]
\* ASCII codes of the canonical signed decimal representation
Decimal(a) == IF IsNeg(a) THEN <<45>> \o UDigits(Neg(a)) ELSE UDigits(a)

\* full 2W-limb product of two unsigned magnitudes
MulWide(a, b) ==
   LET L(x, i) == IF i >= 1 /\ i <= W THEN x[i] ELSE 0
       Col(k) == FoldLeft(LAMBDA acc, i : acc + L(a, i) * L(b, k + 1 - i), 0, Indices)
       Step(acc, k) == LET s == Col(k) + acc[2] IN <<Append(acc[1], s % 256), s \div 256>>
   IN FoldLeft(Step, <<<<>>, 0>>, [k \in 1..(2 * W) |-> k])[1]
\* does the mathematical product of two signed words leave the signed range?
MulOverflowsV(ab) ==
   LET p == MulWide(Abs(ab[1]), Abs(ab[2]))
       neg == IsNeg(ab[1]) # IsNeg(ab[2])
       hiZero == \A i \in (W + 1)..(2 * W) : p[i] = 0
       lowTop == p[W] >= 128
       lowIsMin == p[W] = 128 /\ \A i \in 1..(W - 1) : p[i] = 0
   IN ~hiZero \/ (lowTop /\ ~(neg /\ lowIsMin))
MulOverflows(a, b) == WithVal(<<a, b>>, MulOverflowsV)

\* did a signed operation leave the representable range?  (history bit `wrapped`, C18)
AddOverflows(a, b) == IsNeg(a) = IsNeg(b) /\ IsNeg(Add(a, b)) # IsNeg(a)
SubOverflows(a, b) == IsNeg(a) # IsNeg(b) /\ IsNeg(Sub(a, b)) # IsNeg(a)
=============================================================================
