"""Batching recorded traces into a generated TLA+ module and letting TLC (spec/DriverTrace.tla) accept
or reject each.  Identical recordings are validated once (`TraceSet` keeps the multiplicity and the ids
of the cases that produced them)."""
import os, re, time

from . import common, tlc

CHUNK = 12000          # recordings per generated module (a few MB of TLA+ text)


class TraceSet:
    """distinct recordings -> list of case ids (the first one is the representative in TLA+)"""
    def __init__(self):
        self.by_trace = {}
        self.n_cases = 0

    def add(self, case_id, trace):
        self.by_trace.setdefault(trace, []).append(case_id)
        self.n_cases += 1

    def merge_counts(self, items):
        """items: iterable of (trace, [ids])"""
        for trace, ids in items:
            self.by_trace.setdefault(trace, []).extend(ids)
            self.n_cases += len(ids)

    def __len__(self):
        return len(self.by_trace)


def _tla_seq(v):
    if isinstance(v, tuple):
        return '<<' + ', '.join(_tla_seq(x) for x in v) + '>>'
    return tlc.tla(v)


def _opts_tla(o):
    return '[' + ', '.join('%s |-> %s' % (k, tlc.tla(v)) for k, v in o) + ']'


def render_module(name, recs):
    """recs: list of (rep_id, trace).  -> TLA+ text of the root module for one TLC run."""
    optdefs = {}
    out = ['---- MODULE %s ----' % name, 'EXTENDS Integers', '']
    body = []
    for rep, trace in recs:
        evs = []
        mode = trace[0][1]
        for (k, r, n, s, x) in trace:
            if k == 'start':
                key = s
                if key not in optdefs:
                    optdefs[key] = 'O%d' % (len(optdefs) + 1)
                sv = optdefs[key]
            else:
                sv = _tla_seq(tuple(s))
            evs.append('[k|->%s,r|->%s,n|->%s,s|->%s,x|->%s]' % (tlc.tla(k), tlc.tla(r), tlc.tla(n), sv, tlc.tla(x)))
        body.append('[id |-> %d, mode |-> %s, ev |-> <<%s>>]' % (rep, tlc.tla(mode), ', '.join(evs)))
    for key, nm in optdefs.items():
        out.append('%s == %s' % (nm, _opts_tla(key)))
    out.append('Traces == <<')
    out.append(',\n'.join(body))
    out.append('>>')
    out.append('====')
    return '\n'.join(out) + '\n'


_AC = re.compile(r'<<\s*"AC",\s*(\d+)\s*>>')


def prints(out, tag='HV'):
    """printed tuples <<"tag", ...>> (robust against TLC's line wrapping; each parse looks at a bounded window)"""
    res = []
    for m in re.finditer(r'<<\s*"%s"' % tag, out):
        try:
            v, _ = tlc.parse_value(out[m.start():m.start() + 4000])
            res.append(v)
        except (ValueError, IndexError, AttributeError):
            pass
    return res


class Verdicts:
    def __init__(self):
        self.accepted = set()        # representative ids
        self.rejected = {}           # rep id -> list of (position, clause, kind, phase)
        self.states = 0
        self.transitions = 0
        self.wall = 0.0
        self.runs = 0
        self.coverage = {}


def validate(traceset_or_recs, workdir, timeout=600, coverage=False, chunk=CHUNK):
    """-> Verdicts.  Raises Machinery when TLC fails or a recording got no verdict."""
    if isinstance(traceset_or_recs, TraceSet):
        recs = [(ids[0], tr) for tr, ids in traceset_or_recs.by_trace.items()]
    else:
        recs = list(traceset_or_recs)
    V = Verdicts()
    if not recs:
        raise common.Machinery('no recorded traces to validate')
    cfg = os.path.join(common.SPEC, 'DriverTrace.cfg')
    with open(os.path.join(common.SPEC, 'DriverTrace.tla')) as f:
        trace_spec = f.read()
    for ci in range(0, len(recs), chunk):
        part = recs[ci:ci + chunk]
        name = 'DriverBatch'
        rundir = os.path.join(workdir, 'batch%d' % (ci // chunk))
        os.makedirs(rundir, exist_ok=True)   # (workdir itself may not exist yet)
        with open(os.path.join(rundir, 'DriverBatch.tla'), 'w') as f:
            f.write(render_module('DriverBatch', part))
        with open(os.path.join(rundir, 'DriverTrace.tla'), 'w') as f:      # root module next to its batch
            f.write(trace_spec)
        r = tlc.run(rundir, 'DriverTrace', cfg=cfg, timeout=timeout, coverage=coverage and ci == 0, tag='NOPRINTS')
        V.runs += 1
        V.wall += r.wall
        V.states += r.distinct
        V.transitions += r.generated
        if not r.ok:
            raise common.Machinery('TLC failed on %s: %s\n%s' % (name, r.errors[:3], r.out[-1500:]))
        for k, val in r.coverage.items():
            a, b = V.coverage.get(k, (0, 0))
            V.coverage[k] = (a + val[0], b + val[1])
        acc = set(int(x) for x in _AC.findall(r.out))
        V.accepted |= acc
        kinds = dict(part)
        for p in prints(r.out):
            if len(p) >= 5 and p[2] == 'REJECTED':
                tr = kinds[p[1]]
                V.rejected.setdefault(p[1], []).append((p[3], p[4], tr[p[3] - 1][0] if p[3] <= len(tr) else '-', ''))
        for rep, _ in part:
            if rep in acc:
                V.rejected.pop(rep, None)        # a cli recording may dead-end on one hidden branch only
            elif rep not in V.rejected:
                raise common.Machinery('recording %d got no verdict from TLC' % rep)
    return V


def best_reason(reasons):
    """the dead end that got furthest (cli recordings have one per hidden branch)"""
    return max(reasons, key=lambda t: t[0])
