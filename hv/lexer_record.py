"""C12 helper: run the real `hidc.lexer.lex` and write what it did in the form LexerTrace.tla reads.

Nothing here knows what the right answer is: tokens are serialised through the public token classes
(`EnumToken.value`, `Ident.base_name/.flavor`, `IntToken/StringToken/CharToken.data`) and the public
`Lexeme.span`.  Encoding (see spec/LexerTrace.tla):
    outcome = (end, toks)        end: 0 finished, 1 LexerError, 2 other exception
    tok     = (kind, value, sl, sc, el, ec)
"""
from . import common

_mods = None


def _load():
    global _mods
    if _mods is None:
        common.use_repo()
        try:
            from hidc.lexer import lex, SourceCode, tokens
            from hidc.errors import LexerError
        except BaseException as e:          # noqa
            raise common.Machinery('cannot import hidc.lexer from %s: %r' % (common.REPO, e))
        _mods = (lex, SourceCode, tokens, LexerError)
    return _mods


def limbs(v):
    """non-negative int -> base-256 little-endian limbs, no trailing zero (0 -> [])."""
    return list(v.to_bytes((v.bit_length() + 7) // 8, 'little'))


def flat(lexeme, T):
    tok, span = lexeme.token, lexeme.span
    if isinstance(tok, T.EnumToken):
        kind, val = 1, [ord(c) for c in tok.value]
    elif isinstance(tok, T.Ident):
        kind = {T.Flavor.NONE: 2, T.Flavor.YOU: 3, T.Flavor.DEFEAT: 4}.get(tok.flavor, 0)
        val = [ord(c) for c in tok.base_name]
    elif isinstance(tok, T.IntToken):
        if isinstance(tok.data, int) and not isinstance(tok.data, bool) and tok.data >= 0:
            kind, val = 5, limbs(tok.data)
        else:
            kind, val = 0, []
    elif isinstance(tok, T.StringToken):
        kind, val = 6, list(tok.data)
    elif isinstance(tok, T.CharToken):
        kind, val = 7, [tok.data] if isinstance(tok.data, int) else [-1]
    else:
        kind, val = 0, []
    return (kind, tuple(val), span.start.line, span.start.col, span.end.line, span.end.col)


def record(src):
    """-> (end, [tok...], exception name or None)"""
    lex, SourceCode, T, LexerError = _load()
    toks = []
    end, exc = 0, None
    try:
        for lx in lex(SourceCode.from_string(src)):
            toks.append(flat(lx, T))
    except LexerError:
        end = 1
    except Exception as e:                  # an internal error escaped the lexer
        end, exc = 2, type(e).__name__
    return end, toks, exc


def file_lines_text(text):
    """What `SourceCode.from_file` is documented to see of a UTF-8 file: Python text mode with universal
    newlines - CRLF and lone CR become LF, lines end at LF only (form feed, U+2028, NEL ... are ordinary
    characters), the final line terminator is not a line of its own.  Trusted base: Python's file iteration."""
    t = text.replace('\r\n', '\n').replace('\r', '\n')
    return t[:-1] if t.endswith('\n') else t


def record_file(text):
    """Like record(), but the source goes through a real file and `SourceCode.from_file` (the CLI's path)."""
    import os, tempfile
    lex, SourceCode, T, LexerError = _load()
    fd, path = tempfile.mkstemp(suffix='.hid', prefix='hv_c12_')
    toks = []
    end, exc = 0, None
    try:
        with os.fdopen(fd, 'wb') as f:
            f.write(text.encode('utf-8'))
        try:
            for lx in lex(SourceCode.from_file(path)):
                toks.append(flat(lx, T))
        except LexerError:
            end = 1
        except Exception as e:
            end, exc = 2, type(e).__name__
    finally:
        os.unlink(path)
    return end, toks, exc


# ---- rendering for TLC: one string of base-64 digits per case (layout in spec/LexerTrace.tla)
DIGITS = '0123456789abcdefghijklmnopqrstuvwxyzABCDEFGHIJKLMNOPQRSTUVWXYZ-_'
MAX_TEXT = 64 ** 3 - 1          # code points per input
MAX_VALS = 64 ** 3 - 1          # entries of the value table
MAX_CASES = 64 ** 4 - 1
CHUNK = 256                     # LexerData!ChunkSize


def num(v, w):
    out = []
    for _ in range(w):
        out.append(DIGITS[v & 63])
        v >>= 6
    if v:
        raise common.Machinery('value does not fit %d base-64 digits' % w)
    return ''.join(reversed(out))


def sat(x):
    return x if isinstance(x, int) and not isinstance(x, bool) and 0 <= x <= 4094 else 4095


class Batch:
    """Cases for one TLC run.  add() -> 1-based case index."""
    def __init__(self):
        self.vals = {}          # (kind, value tuple) -> 1-based index
        self.cases = []         # packed strings
        self.meta = []          # (family, src, end, toks, exc, base) for reports / replay

    def add(self, family, src, outcome, base=0):
        end, toks, exc = outcome
        if len(src) > MAX_TEXT or len(self.cases) >= MAX_CASES:
            raise common.Machinery('case does not fit the transport format')
        parts = [num(len(src), 3)]
        parts += [num(ord(c), 4) for c in src]
        parts.append(num(end, 1))
        parts.append(num(base, 4))
        for t in toks:
            key = (t[0], t[1])
            vid = self.vals.get(key)
            if vid is None:
                vid = self.vals[key] = len(self.vals) + 1
                if vid > MAX_VALS:
                    raise common.Machinery('value table overflow')
            parts.append(num(vid, 3) + num(sat(t[2]), 2) + num(sat(t[3]), 2) + num(sat(t[4]), 2) + num(sat(t[5]), 2))
        self.cases.append(''.join(parts))
        self.meta.append((family, src, end, toks, exc, base))
        return len(self.cases)

    def data_text(self, digest_pairs=(), log_actions=False):
        out = ['CasePacked == <<']
        out.append(',\n'.join('<<%s>>' % ','.join('"%s"' % c[k:k + CHUNK] for k in range(0, len(c), CHUNK))
                              for c in self.cases))
        out.append('>>')
        out.append('CaseVals == <<')
        out.append(',\n'.join('<<%d,<<%s>>>>' % (k, ','.join(map(str, v))) for (k, v) in self.vals))
        out.append('>>')
        out.append('CaseDigests == <<')
        out.append(',\n'.join('<<"%s","%s","%s">>' % tuple(p) for p in digest_pairs))
        out.append('>>')
        out.append('CaseLogActions == %s' % ('TRUE' if log_actions else 'FALSE'))
        return '\n'.join(out) + '\n'

    def write(self, directory, digest_pairs=(), root='C12Run', extends='LexerTrace', cfg='LexerTrace.cfg',
              log_actions=False):
        """Write LexerData.tla (copy of spec/LexerData.tla with this batch as its data section), a root
        module `root` that EXTENDS `extends`, and its cfg (copy of spec/<cfg>) into `directory`."""
        import os
        with open(os.path.join(common.SPEC, 'LexerData.tla')) as f:
            tmpl = f.read()
        a = tmpl.index(BEGIN) + len(BEGIN)
        b = tmpl.index(END)
        with open(os.path.join(directory, 'LexerData.tla'), 'w') as f:
            f.write(tmpl[:a] + self.data_text(digest_pairs, log_actions) + tmpl[b:])
        with open(os.path.join(directory, root + '.tla'), 'w') as f:
            f.write('---- MODULE %s ----\nEXTENDS %s\n====\n' % (root, extends))
        with open(os.path.join(common.SPEC, cfg)) as f:
            text = f.read()
        with open(os.path.join(directory, root + '.cfg'), 'w') as f:
            f.write(text)


BEGIN = '\\* BEGIN DATA\n'
END = '\\* END DATA\n'
