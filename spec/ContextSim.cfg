\* C06: random walks (tlc -simulate) to 8 frames below the root
CONSTANTS
    MaxDepth = 8
    Emit = TRUE
INIT Init
NEXT Next
INVARIANTS TypeOK FlagsMatchPath EmitLeaf
