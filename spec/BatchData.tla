------------------------------ MODULE BatchData ------------------------------
(* Stand-in for the generated batch module (see hv/runner.py): an empty batch.  During a check a module *)
(* of the same name in the scratch directory of the run shadows this one.                                *)
EXTENDS SphinxCode
MCProgs == <<>>
=============================================================================
