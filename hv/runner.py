"""Batches of (program, input) cases -> one TLC run -> per-case results."""
import os
from . import common, tlc, export, sasm


def write_batch(d, name, root, cases, w, defs='', consts=None, extra_cfg=''):
    progs_txt, groups = export.export_batch(cases)
    with open(os.path.join(d, 'BatchData.tla'), 'w') as f:
        f.write('---- MODULE BatchData ----\nEXTENDS SphinxCode\nMCProgs == %s\n%s\n====\n' % (progs_txt, defs))
    with open(os.path.join(d, name + '.tla'), 'w') as f:
        f.write('---- MODULE %s ----\nEXTENDS %s\n====\n' % (name, root))
    consts = dict(consts or {})
    with open(os.path.join(d, name + '.cfg'), 'w') as f:
        f.write('SPECIFICATION Spec\nCONSTRAINT Fuel\nCONSTANTS\n W = %d\n' % w)
        for k, v in consts.items():
            f.write(' %s = %s\n' % (k, v))
        f.write(extra_cfg)
    return groups


def run_machine(cases, w=2, monitors=True, max_level=4000, timeout=900, workers=None, keep=None):
    """Run compiled cases on spec/SphinxRun.tla.  Returns (results by case key, tlc Result).
    result: dict(status, halted, fault, alarm, pc, level, obs) or None when the behaviour ran out of fuel."""
    d = keep or common.scratch('hvrun_')
    try:
        write_batch(d, 'Batch', 'SphinxRun', cases, w,
                    consts={'Monitors': 'TRUE' if monitors else 'FALSE', 'MaxLevel': max_level})
        r = tlc.run(d, 'Batch', timeout=timeout, workers=workers)
        if r.errors and not r.prints:
            raise common.Machinery('TLC failed: %s\n%s' % (r.errors[:3], r.out[-1500:]))
        by = {}
        for p in r.prints:
            if len(p) >= 9 and p[1] == 'R':
                by[(p[2], p[3])] = p
        res = {}
        for c in cases:
            p = by.get((c.prog, c.inp))
            if p is None:
                res[c.key] = None
                continue
            v = p[4]
            obs = p[8]
            res[c.key] = {'status': p[5], 'halted': v['halted'], 'fault': v['fault'], 'alarm': v['alarm'],
                          'pc': p[6], 'level': p[7], 'obs': (export.decode_events(obs['ev']), obs['end'])}
        return res, r
    finally:
        if not keep:
            common.rm(d)
