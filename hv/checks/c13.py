"""C13 Constant data reaches the output byte for byte.  Decided by Refine.tla (the program writes / indexes /
measures the constant; HiDSem knows what the literal denotes) plus AsmText.tla on the emitted literals."""
import time
from hv import rt, fam_ops, asmtext, common

PROP = 'C13'


def main(tier, seed):
    t0 = time.time()
    items = fam_ops.const_family(seed, tier)
    # lengths of literal / constant strings and arrays asked directly, against the same question through a variable
    items += [it for it in fam_ops.fold_family([2, 3]) if it.key[1] == 'constant_lengths']
    extra = []
    cov = {}
    pairs = asmtext.record_pairs(tier=tier, seed=seed)
    res = asmtext.run_trace(pairs)
    cov['asmtext_pairs'] = res['cases']
    cov['asmtext_accepted'] = res['accepted']
    cov['asmtext_states'] = res['states']
    for rj in res['rejected']:
        if rj.get('wf_only') and rj['clause'] == 'unescape_differs':
            continue          # a single line of a split directive: only its well-formedness is judged
        extra.append(common.Violation(PROP, 'emitted literal %r does not denote %r (%s at %s)' % (
            rj['text'], rj['want'], rj['clause'], rj['position']),
            classifier={'kind': 'asmtext:' + str(rj['clause']), 'has_backslash': rj['has_backslash'], 'char': rj['char']},
            detail={k: repr(v) for k, v in rj.items()}))
    # the programs of this check are valid by construction (they only declare, index, measure and write constants): a
    # constant the compiler refuses does not reach the output either
    from hv import runner, hidc_api
    seen = set()
    for rp in asmtext.REJECTED_PROGRAMS:
        extra.append(common.Violation(PROP, 'valid program of string literals rejected: %s' % rp['error'][:160],
                                      classifier={'kind': 'valid_constant_rejected', 'family': 'asmtext_compiled'},
                                      detail={'source': rp['source'], 'error': rp['error'], 'args': [], 'w': 2, 's': 500, 'unchecked': False}))
    for it in items:
        if it.src in seen:
            continue
        seen.add(it.src)
        ck, res = runner.compile_cached(it)
        if isinstance(res, hidc_api.Rejected):
            extra.append(common.Violation(PROP, 'valid program of constants rejected (%s): %s' % (it.meta.get('family'), str(res)[:160]),
                                          classifier={'kind': 'valid_constant_rejected', 'family': it.meta.get('family')},
                                          detail={'source': it.src, 'error': str(res), 'args': it.args, 'w': it.w, 's': it.s, 'unchecked': it.unchecked}))
    cov['constant_programs_compiled'] = len(seen)
    return rt.standard(PROP, tier, seed, items,
                       'all 256 byte values in string and char literals, all pairs over 12 special bytes, escapes, random strings; '
                       'constant int/byte/bool/string arrays of lengths 0..40 global/local const/mutable; emitted .ascii and char '
                       'immediates unescaped by AsmText.tla', t0, extra_violations=extra, extra_cov=cov,
                       presize_limit=13000, max_level=34000)
