"""C16 Control never runs off the end of a function.
Static half (hv/exitmodes.py): TLC enumerates function-body shapes from ExitModes.tla with the ground truth
CanComplete; if hidc accepts a value-returning function with that body, CanComplete must be FALSE; every statement
hidc discards as unreachable must be unreachable in the model.
Dynamic half: the SphinxRT monitor NoFallThrough (pc moving sequentially onto a function entry) is evaluated by
TLC in every state while each ACCEPTED shape is driven down every feasible path (its unknown conditions are
inputs), and Agree holds the compiled code to the source semantics, which never drops a statement."""
import time
from hv import rt, exitmodes, runner, families, fam_tt, common

PROP = 'C16'


def dynamic_items(accepted, seed, n):
    items = []
    for text, flv in accepted[:n]:
        fsrc, _ = exitmodes.render_function(text, flv, seed)
        helper = exitmodes.HELPER if 'h' in text else ''
        call = '%sf((m %% 2) is bool, ((m / 2) %% 2) is bool, ((m / 4) %% 2) is bool, m)' % exitmodes.SIGIL[flv]
        if flv == 'd':
            main = "empty @is_you(int m) { try { write('<'); write(%s); write('>'); } undo { write('U'); } write('.'); }" % call
        else:
            main = "empty @is_you(int m) { write('<'); write(%s); write('>'); }" % call
        src = helper + fsrc + main
        for m in range(8):
            items.append(runner.Item(('c16', text, flv, m), src, [str(m)], s=120,
                                     meta={'family': 'shape:' + text, 'classifier': {'half': 'dynamic'}}))
    return items


def main(tier, seed):
    t0 = time.time()
    quick = tier == 'quick'
    st = exitmodes.run(tier, seed)
    extra = list(st['violations'])
    items = dynamic_items(st['accepted_shapes'], seed, 70 if quick else 700)
    items += families.generated(seed + 6, 20 if quick else 200, inputs=2, family='gen6')
    items += fam_tt.template_family(seed, tier)[::4 if quick else 1]
    items += fam_tt.exit_templates()
    items += fam_tt.template_family(seed, tier, only=[t for t in fam_tt.TEMPLATES if t[0] in ('truth_lowerings', 'halting_problem')])[::1 if not quick else 2]
    from hv import fam_ops
    items += fam_ops.fold_family([2])
    cov = {'static_shapes': st['cases'], 'static_states': st['states'], 'static_accepted': st['accepted'],
           'static_rejected': st['rejected'], 'static_dropped_statements': st['dropped_statements'],
           'static_over_rejections_info': st['over_rejections'], 'static_strata': st['strata']}
    return rt.standard(PROP, tier, seed, items,
                       'static: every body shape of the strata of ExitModes.tla; dynamic: accepted shapes (seeded slice) x all 8 '
                       'assignments of their unknown conditions, random programs with functions, time-travel templates, with '
                       'NoFallThrough evaluated in every machine state', t0, extra_violations=extra, extra_cov=cov)
