"""C07  The typechecker accepts exactly the well-typed programs.

Direction spec -> code (replay).  spec/Types.tla is the oracle: TLC enumerates every (syntactic position,
expression(s), target type) case of three families and prints, per case, the documented verdict
(accept / reject / dontcare), the overload that must be bound for calls, and a label of the broken rule:

  expr    statement, declaration, array initialiser, assignment, compound assignment, call argument,
          builtin write, return, if/while/for condition, operator operand, `??`, index, .length, array
          element, `is` cast  x  the expression universe E (atoms of every type/constness, arithmetic,
          casts, array literals of <= 2 element kinds, views, depth-2 combinations)
  call    overload sets of <= 3 signatures in every declaration order x arguments, two-parameter overloads,
          arity, user overloads of the builtin write, undeclared function
  struct  the scope machine (declare / shadow / redeclare / use in nested scopes), the signature machine
          (duplicate signatures, builtins), type syntax (nested / empty-typed arrays, array return types),
          global initialisers

Python (hv/types_cases.py) renders each case to a complete program, runs
`parse(SourceCode.from_string(p)).evaluate(Environment.empty())` of the working tree and tests equality:

  accept   -> must be accepted, and a call must be bound to the printed overload
  reject   -> must raise a CompilerError
  dontcare -> anything but a crash
  any exception that is not a CompilerError is a crash and always a violation

How the bound overload is observed: after `evaluate`, the FuncCall statement in the checked tree of the test
function carries the COERCED arguments (FuncCall.evaluate coerces each argument to the parameter type of
the overload it chose), so `tuple(arg.type)` is the chosen signature; in addition every rendered user
overload has a different return type and `FuncCall.type` (= ret_type of the chosen definition) must agree.

    cd /verif && /venv/bin/python -m hv.check C07 --tier quick
    cd /verif && /venv/bin/python -m hv.checks.c07 --selftest
"""
import concurrent.futures as cf
import json, multiprocessing, os, shutil, subprocess, sys, time

from .. import common, tlc, types_cases

PROP = 'C07'
FAMILIES = ('expr', 'call', 'struct')
TLC_WORKERS = {'expr': 12, 'call': 5, 'struct': 3}
TLC_TIMEOUT = {'quick': 240, 'thorough': 800}

# every position must be exercised in every run (else machinery failure)
POSITIONS = {
    'expr': ('stmt', 'decl', 'specdecl', 'forinit', 'nesteddecl', 'trydecl', 'deadcode', 'sleep', 'arrinit', 'assign', 'inc', 'forstep', 'arg',
             'write', 'ret', 'noret', 'if', 'while', 'for', 'operand', 'unary', 'spec', 'idxsrc', 'idxidx', 'len',
             'elem', 'is'),
    'call': ('overload', 'overload2', 'arity', 'writeext', 'undeclared'),
    'struct': ('names', 'funcs', 'typesyntax', 'gdecl', 'garrinit'),
}

# the named action of Types.tla (section 9) that judges each position; all of them must fire in every run
ACTION_OF = {
    'stmt': 'ExprStatement', 'decl': 'Declaration', 'specdecl': 'Declaration', 'forinit': 'Declaration',
    'nesteddecl': 'Declaration', 'trydecl': 'Declaration', 'deadcode': 'Declaration', 'arrinit': 'ArrayInit',
    'assign': 'Assignment', 'inc': 'IncAssignment', 'forstep': 'IncAssignment', 'arg': 'CallArgument',
    'sleep': 'CallArgument', 'write': 'BuiltinWrite', 'ret': 'ReturnValue', 'noret': 'ReturnNothing',
    'if': 'Condition', 'while': 'Condition', 'for': 'Condition', 'operand': 'Operand', 'unary': 'Operand',
    'spec': 'Operand', 'idxsrc': 'IndexLength', 'idxidx': 'IndexLength', 'len': 'IndexLength',
    'elem': 'ArrayElement', 'is': 'IsCast', 'overload': 'Call', 'overload2': 'Call', 'arity': 'Call',
    'writeext': 'Call', 'undeclared': 'Call', 'names': 'NameStart/NameStep', 'funcs': 'FuncStep',
    'typesyntax': 'TypeSyntax', 'gdecl': 'GlobalDeclaration', 'garrinit': 'GlobalArrayInit',
}

ASSUMPTIONS = (
    'front end only: parse(...).evaluate(Environment.empty()); code generation is C01/C10',
    'trusted binding: the prelude/templates of hv/types_cases.py declare exactly the atoms of Types.tla!AtomTab; '
    'Src() of Types.tla is fully parenthesised so precedence (C11) does not matter',
    'one rule exercised per program inside an otherwise well-typed program',
    'README silent, evident intent of the code taken (Types.tla header, [C]): identity casts and `a is T[]` '
    'views are legal; `.length`/conditions on `[]`; `??` result has the type of its left operand; names '
    'rules T9; == on strings is rejected; `const T[] a = <mutable array>` is rejected',
    'dontcare (Types.tla D1-D5): `(b + b) is int` keeps or loses byte-coercibility; `true is int` -> byte; '
    '`5 ?? 6` -> byte; `[i, t] is byte[]`; `x is const T[]` and const return types; an ill-typed statement '
    'after `return;` (hidc drops unreachable statements before typechecking them)',
    'compile-time division by zero is avoided in generated expressions (not a typing rule)',
)


# ---------------------------------------------------------------------------------------------------------
# workers
def _init_worker():
    types_cases.init()


def _judge(c, outcome, bound, obs):
    """-> None or kind.  Pure equality tests against what TLC printed."""
    if outcome == 'crash':
        return 'crash'
    if c.verdict == 'dontcare':
        return None
    if c.verdict == 'reject':
        return 'accepted_illtyped' if outcome == 'accept' else None
    if outcome == 'reject':
        return 'rejected_welltyped'
    if obs is not None:
        if bound is None:
            return 'unobservable'       # the call node was not found in the checked tree: not a verdict
        if c.ov < 1 or c.ov > len(obs['sigs']):
            return 'wrong_overload'
        if bound['sig'] != obs['sigs'][c.ov - 1]:
            return 'wrong_overload'
        if obs['rets'] is not None and bound['ret'] != obs['rets'][c.ov - 1]:
            return 'wrong_overload'
    return None


def _run_chunk(chunk):
    bad = []
    stats = {}
    for c in chunk:
        src, obs = types_cases.render(c)
        outcome, msg, bound = types_cases.observe(src, obs)
        key = (c.pos, c.verdict, outcome)
        stats[key] = stats.get(key, 0) + 1
        kind = _judge(c, outcome, bound, obs)
        if kind == 'unobservable':
            stats['unobservable'] = stats.get('unobservable', 0) + 1
        elif kind:
            bad.append((c, kind, outcome, msg, bound, src))
        if obs is not None and outcome == 'accept' and kind != 'unobservable':
            stats['bindings'] = stats.get('bindings', 0) + 1
    return bad, stats


# ---------------------------------------------------------------------------------------------------------
# TLC
def _tlc_family(family, tier, cache):
    """-> dict(out=.., generated=.., distinct=.., wall=..).  `cache` (selftest only) is a directory in which
    the raw TLC output of this session is kept, so that several trees are judged against one TLC run."""
    path = os.path.join(cache, '%s_%s.json' % (family, tier)) if cache else None
    if path and os.path.exists(path):
        with open(path) as f:
            return json.load(f)
    r = tlc.run(common.SPEC, 'Types', cfg='Types_%s_%s' % (family, tier), workers=TLC_WORKERS[family],
                timeout=TLC_TIMEOUT[tier], tag='HV-unused')      # lines are parsed by types_cases (linear time)
    if not r.ok:
        raise common.Machinery('TLC failed on Types_%s_%s: timed_out=%s errors=%s violated=%s\n%s' % (
            family, tier, r.timed_out, r.errors[:3], r.violated, r.out[-1500:]))
    d = {'out': r.out, 'generated': r.generated, 'distinct': r.distinct, 'wall': round(r.wall, 2)}
    if path:
        with open(path, 'w') as f:
            json.dump(d, f)
    return d


def _cases_of(family, d):
    cases, markers = types_cases.parse_cases(d['out'], family)
    if len(cases) != markers or not cases:
        raise common.Machinery('family %s: %d case lines parsed but %d markers printed' % (family, len(cases), markers))
    seen = {c.pos for c in cases}
    missing = [p for p in POSITIONS[family] if p not in seen]
    if missing:
        raise common.Machinery('family %s: positions never enumerated: %s' % (family, missing))
    return cases


# ---------------------------------------------------------------------------------------------------------
def _example(src):
    """The statement under test (last line of the test function) for a one-line description."""
    lines = [l.strip() for l in src.strip().split('\n') if l.strip() and l.strip() != '}']
    return lines[-1] if lines else ''


def run(tier, seed, cache=None, corrupt=False):
    t0 = time.time()
    nproc = common.NPROC
    pool = multiprocessing.get_context('fork').Pool(nproc, initializer=_init_worker)
    tlc_meta, all_bad, stats, ncases = {}, [], {}, {}
    pending, samples = [], []
    corrupted = None
    try:
        with cf.ThreadPoolExecutor(len(FAMILIES)) as ex:
            futs = {ex.submit(_tlc_family, fam, tier, cache): fam for fam in FAMILIES}
            for fut in cf.as_completed(futs):
                fam = futs[fut]
                d = fut.result()
                tlc_meta[fam] = {k: d[k] for k in ('generated', 'distinct', 'wall')}
                cases = _cases_of(fam, d)
                if corrupt and fam == 'struct':
                    # binding demonstration (b): flip one recorded verdict; the check must notice
                    k = next(i for i, c in enumerate(cases) if c.pos == 'gdecl' and c.verdict == 'accept')
                    cases[k].verdict = 'reject'
                    corrupted = cases[k].id
                ncases[fam] = len(cases)
                for c in cases[:3] + cases[len(cases) // 2:len(cases) // 2 + 2]:
                    samples.append({'case': c.as_dict(), 'statement': _example(types_cases.render(c)[0])})
                size = max(50, min(2000, len(cases) // (nproc * 4) + 1))
                for i in range(0, len(cases), size):
                    pending.append(pool.apply_async(_run_chunk, (cases[i:i + size],)))
        for p in pending:
            bad, st = p.get(timeout=1200)
            all_bad.extend(bad)
            for k, v in st.items():
                stats[k] = stats.get(k, 0) + v
    finally:
        pool.terminate()
        pool.join()

    unobservable = stats.pop('unobservable', 0)
    bindings = stats.pop('bindings', 0)
    compared = sum(stats.values())
    if compared == 0 or compared != sum(ncases.values()):
        raise common.Machinery('compared %d of %d cases' % (compared, sum(ncases.values())))
    if bindings == 0 or unobservable > bindings:
        raise common.Machinery('overload binding observed in %d calls, unobservable in %d: the checked tree '
                               'no longer exposes FuncCall.args/.type' % (bindings, unobservable))

    # group the disagreements: one violation per (kind, rule)
    groups = {}
    for c, kind, outcome, msg, bound, src in all_bad:
        groups.setdefault((kind, c.why), []).append((c, outcome, msg, bound, src))
    violations = []
    for (kind, rule), items in sorted(groups.items()):
        items.sort(key=lambda it: (len(it[4]), it[4]))
        c, outcome, msg, bound, src = items[0]
        what = {'accepted_illtyped': 'ill-typed program accepted',
                'rejected_welltyped': 'well-typed program rejected',
                'wrong_overload': 'call bound to the wrong overload',
                'crash': 'typechecker crashed'}[kind]
        what = '%s [%s] e.g. %s' % (what, rule, _example(src))
        detail = {'cases_in_group': len(items), 'positions': sorted({it[0].pos for it in items}),
                  'tier': tier, 'case': c.as_dict(), 'program': src, 'observed': outcome, 'message': msg,
                  'bound': bound, 'more_examples': [{'case': it[0].id, 'statement': _example(it[4])}
                                                     for it in items[1:8]]}
        violations.append(common.Violation(PROP, what, {'rule': rule, 'kind': kind}, detail))

    per_pos, per_verdict = {}, {}
    for (pos, verdict, outcome), v in stats.items():
        per_pos[pos] = per_pos.get(pos, 0) + v
        per_verdict[verdict] = per_verdict.get(verdict, 0) + v
    per_action = {}
    for pos, v in per_pos.items():
        per_action[ACTION_OF[pos]] = per_action.get(ACTION_OF[pos], 0) + v
    coverage = {
        'states': sum(m['distinct'] for m in tlc_meta.values()),
        'transitions': sum(m['generated'] for m in tlc_meta.values()),
        'traces_validated_against_impl': compared,
        'exhaustive': 'every case of the universes of Types.tla sections 5-8 for tier %s' % tier,
        'cases_per_family': ncases, 'cases_per_position': dict(sorted(per_pos.items())),
        'cases_per_spec_action': dict(sorted(per_action.items())),
        'cases_per_verdict': per_verdict, 'tlc': tlc_meta,
        'tlc_wall_s': max(m['wall'] for m in tlc_meta.values()),
        'overload_bindings_observed': bindings, 'overload_bindings_unobservable': unobservable,
        'disagreements': len(all_bad), 'violation_groups': len(groups),
        'samples': samples,
    }
    if corrupted:
        coverage['corrupted_case'] = corrupted
    # the entry-point signature rules (EntrySig.tla) - enforced by the code generator, so judged on the whole compiler
    from hv import entry_sig
    es = entry_sig.run(tier, seed)
    egroups = {}
    for v in es['violations']:
        egroups.setdefault((v['kind'], v['rule']), []).append(v)
    for (kind, rule), vs in sorted(egroups.items()):
        vs.sort(key=lambda v: len(v['source']))
        violations.append(common.Violation(PROP, 'entry point: %s [%s] e.g. %s' % (kind, rule, vs[0]['source'].strip()[:120]),
                                           {'rule': rule, 'kind': kind}, {'cases_in_group': len(vs), 'program': vs[0]['source'],
                                                                          'want': vs[0]['want'], 'observed': vs[0]['got']}))
    coverage['entry_signatures'] = {k: es[k] for k in ('cases', 'accepted', 'rejected', 'dontcare', 'states', 'rules')}
    coverage['states'] += es['states']
    coverage['traces_validated_against_impl'] += es['cases']
    return common.finish(PROP, tier, seed, 'model_checking', coverage, violations, t0, ASSUMPTIONS)


def main(tier, seed):
    return run(tier, seed, cache=os.environ.get('HV_C07_CACHE') or None,
               corrupt=bool(os.environ.get('HV_C07_CORRUPT')))


def replay(path):
    """Re-run the stored case: TLC re-enumerates its family, the case with the stored id is rendered and run."""
    with open(path) as f:
        rec = json.load(f)
    if 'case' not in rec['detail']:          # an entry-point signature (EntrySig.tla): compile the stored program again
        from hv import hidc_api
        src, want = rec['detail']['program'], rec['detail']['want']
        print(src)
        try:
            hidc_api.compile_src(src)
            got = 'accept'
        except hidc_api.Rejected as e:
            got = 'reject'
        except hidc_api.Crashed as e:
            got = 'crash'
        print('documented verdict %s; observed %s' % (want, got))
        if got != want and want in ('accept', 'reject'):
            print('VIOLATION property=%s replay=%s  # %s' % (PROP, path, rec['classifier'].get('kind')))
            return 1
        print('OK property=%s replayed case agrees' % PROP)
        return 0
    case = rec['detail']['case']
    cases = []
    for tier in dict.fromkeys(('quick', rec['detail'].get('tier', 'quick'))):     # the quick universe is a subset
        d = _tlc_family(case['family'], tier, None)
        cases = [c for c in _cases_of(case['family'], d) if c.id == case['id']]
        if cases:
            break
    if not cases:
        raise common.Machinery('case %s not enumerated by Types_%s_*' % (case['id'], case['family']))
    types_cases.init()
    c = cases[0]
    src, obs = types_cases.render(c)
    outcome, msg, bound = types_cases.observe(src, obs)
    kind = _judge(c, outcome, bound, obs)
    if kind == 'unobservable':
        raise common.Machinery('the call node was not found in the checked tree')
    print(src)
    print('expected %s (overload %d, rule %s); observed %s %s %s' % (c.verdict, c.ov, c.why, outcome, msg, bound or ''))
    if kind:
        print('VIOLATION property=%s replay=%s  # %s' % (PROP, path, kind))
        return 1
    print('OK property=%s replayed case agrees' % PROP)
    return 0


# ---------------------------------------------------------------------------------------------------------
# self-test: the binding detects realistic mutations of hidc/ast and a corrupted record
MUTATIONS = [
    ('coercible also narrows non-literal int -> byte', 'hidc/ast/expressions.py',
     '            ByteToInt.map,\n            StringToByteArray.map\n',
     '            ByteToInt.map,\n            IntToByte.map,\n            StringToByteArray.map\n'),
    ('Assignment.evaluate forgets lookup.const', 'hidc/ast/statements.py',
     'if not isinstance(lookup, Assignable) or lookup.const:', 'if not isinstance(lookup, Assignable):'),
    ('overload loop picks the LAST coercible overload', 'hidc/ast/expressions.py',
     'for sig, func in env.funcs.get(self.func, {}).items():',
     'for sig, func in reversed(list(env.funcs.get(self.func, {}).items())):'),
    ('shadowing check inverted', 'hidc/ast/statements.py',
     'prev_decl is not env.vars.globals.get(self.var.name)', 'prev_decl is env.vars.globals.get(self.var.name)'),
    ('ArrayLiteral.coercible ignores type_locked', 'hidc/ast/expressions.py',
     '            if self.type_locked:\n', '            if False:\n'),
    ('Volatile check in Declaration removed', 'hidc/ast/statements.py',
     '        if isinstance(init, Volatile):\n', '        if False:\n'),
    ('== accepts one bool and one int', 'hidc/ast/operators.py',
     'if all(arg.type == DataType.BOOL for arg in args):', 'if any(arg.type == DataType.BOOL for arg in args):'),
    ('x op= e typed as x = e', 'hidc/ast/statements.py',
     '            self.bin_op(self.op_span, self.lookup, self.expr)\n', '            self.expr\n'),
    ('exact-match lookup of overloads removed', 'hidc/ast/expressions.py',
     '            func = env.funcs[self.func][arg_sig]\n', '            raise KeyError(arg_sig)\n'),
]


def _check_subprocess(repo, cache, extra_env=None):
    env = dict(os.environ, HV_REPO=repo, HV_C07_CACHE=cache, PYTHONDONTWRITEBYTECODE='1')
    env.update(extra_env or {})
    p = subprocess.run([sys.executable, '-m', 'hv.check', PROP, '--tier', 'quick'], cwd=common.VERIF, env=env,
                       stdout=subprocess.PIPE, stderr=subprocess.STDOUT)
    out = p.stdout.decode('utf-8', 'replace')
    viol = sorted(set(l.split('#', 1)[1].strip().split(' e.g.')[0] for l in out.splitlines()
                      if l.startswith('VIOLATION') and '#' in l))
    return p.returncode, viol, out


def _upstream_tests(repo):
    p = subprocess.run([sys.executable, '-m', 'pytest', '-q', '-p', 'no:cacheprovider', '-x',
                        'tests/test_typecheck.py', 'tests/test_parser.py', 'tests/test_lexer.py'],
                       cwd=repo, stdout=subprocess.PIPE, stderr=subprocess.STDOUT,
                       env=dict(os.environ, PYTHONDONTWRITEBYTECODE='1'))
    tail = p.stdout.decode('utf-8', 'replace').strip().splitlines()
    return p.returncode == 0, (tail[-1] if tail else '')


def selftest():
    t0 = time.time()
    tmp = common.scratch('c07self_')
    ok = True
    real_evidence = os.path.join(common.EVID, PROP + '.json')
    keep = open(real_evidence).read() if os.path.exists(real_evidence) else None
    replays_before = set(os.listdir(common.REPLAY)) if os.path.isdir(common.REPLAY) else set()
    try:
        cache = os.path.join(tmp, 'tlc')
        os.makedirs(cache)
        clean = os.path.join(tmp, 'clean')
        os.makedirs(clean)
        shutil.copytree(os.path.join(common.REPO, 'hidc'), os.path.join(clean, 'hidc'))
        shutil.copytree(os.path.join(common.REPO, 'tests'), os.path.join(clean, 'tests'))
        rc, base, out = _check_subprocess(clean, cache)
        print('[selftest] unmodified copy: exit %d, %d violation group(s) (baseline = genuine findings)' % (rc, len(base)))
        for b in base:
            print('             %s' % b)
        if rc == 2:
            print(out[-2000:])
            return 2
        for title, rel, old, new in MUTATIONS:
            repo = os.path.join(tmp, 'mut')
            common.rm(repo)
            shutil.copytree(clean, repo)
            path = os.path.join(repo, rel)
            text = open(path).read()
            if text.count(old) != 1:
                print('[selftest] FAIL mutation "%s": anchor text found %d times' % (title, text.count(old)))
                ok = False
                continue
            with open(path, 'w') as f:
                f.write(text.replace(old, new))
            up_ok, up_tail = _upstream_tests(repo)
            rc, viol, out = _check_subprocess(repo, cache)
            new_groups = [v for v in viol if v not in base]
            caught = rc == 1 and bool(new_groups)
            print('[selftest] %s mutation "%s": exit %d, new violation group(s): %s  (upstream tests %s: %s)' % (
                'caught' if caught else 'MISSED', title, rc, new_groups[:3], 'pass' if up_ok else 'fail', up_tail))
            if not caught:
                ok = False
                print(out[-1500:])
        rc, viol, out = _check_subprocess(clean, cache, {'HV_C07_CORRUPT': '1'})
        new_groups = [v for v in viol if v not in base]
        caught = rc == 1 and bool(new_groups)
        print('[selftest] %s corrupted record (one expected verdict flipped): exit %d, new: %s' % (
            'caught' if caught else 'MISSED', rc, new_groups[:2]))
        ok = ok and caught
        rc, again, out = _check_subprocess(clean, cache)
        silent = again == base
        print('[selftest] %s unmodified copy again: same baseline and nothing else' % ('ok' if silent else 'FAIL'))
        ok = ok and silent
    finally:
        common.rm(tmp)
        if keep is not None:
            with open(real_evidence, 'w') as f:
                f.write(keep)
        if os.path.isdir(common.REPLAY):
            for name in set(os.listdir(common.REPLAY)) - replays_before:
                os.remove(os.path.join(common.REPLAY, name))
    print('[selftest] %s in %.0fs' % ('PASSED' if ok else 'FAILED', time.time() - t0))
    return 0 if ok else 1


if __name__ == '__main__':
    import argparse
    ap = argparse.ArgumentParser()
    ap.add_argument('--selftest', action='store_true')
    ap.add_argument('--tier', default='quick', choices=['quick', 'thorough'])
    ap.add_argument('--seed', type=int, default=None)
    a = ap.parse_args()
    if a.selftest:
        common.main_wrapper(selftest)
    else:
        common.main_wrapper(lambda: main(a.tier, a.seed if a.seed is not None else common.seed_from_env()))
