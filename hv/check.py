"""Entry point registered in MANIFEST.json:  /venv/bin/python -m hv.check C07 --tier quick"""
import argparse, importlib, os, sys, time
from . import common


def main():
    ap = argparse.ArgumentParser()
    ap.add_argument('prop')
    ap.add_argument('--tier', default=os.environ.get('VERIF_TIER', 'quick'), choices=['quick', 'thorough'])
    ap.add_argument('--seed', type=int, default=None)
    ap.add_argument('--replay', default=None, help='re-run the case stored in a replay file')
    a = ap.parse_args()
    seed = a.seed if a.seed is not None else common.seed_from_env()
    mod = importlib.import_module('hv.checks.' + a.prop.lower())
    if a.replay:
        if hasattr(mod, 'replay'):
            return mod.replay(a.replay)
        from . import rt
        return rt.replay_generic(a.prop, a.replay)
    return mod.main(a.tier, seed)


if __name__ == '__main__':
    common.main_wrapper(main)
