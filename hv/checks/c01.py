"""C01 Compiled code computes what the source program says (sequential core).
Decided by spec/Refine.tla: Agree between the Sphinx machine on the real compiler output and HiDSem."""
import time
from hv import common, rt, families, fam_seq

PROP = 'C01'
ASSUME = ['Sphinx ISA as reconstructed (A1)', 'assembler directive syntax (A2)',
          'source IR derived from the front end\'s typed tree (front end judged by C06/C07/C11/C12)',
          'stack generous enough for the run (stack exhaustion is C04\'s subject)']


def main(tier, seed):
    t0 = time.time()
    quick = tier == 'quick'
    items = []
    items += families.generated(seed, 110 if quick else 900, w=2, s=300, inputs=3)
    # 24-bit words always (the only size that is not a power of two), plus one of 32/64 bits by seed
    for w in ([3, [4, 8][seed % 2]] if quick else [3, 4, 8]):
        items += families.generated(seed + 1, 10 if quick else 60, w=w, s=300, inputs=2, family='gen_w%d' % w)
    items += families.examples(names={'hello'})
    items += fam_seq.bool_structure(seed, tier)
    items += fam_seq.eval_order(seed, tier)
    items += fam_seq.layout(seed, tier)
    items += fam_seq.entry_binding(seed, tier)
    items += fam_seq.misc(seed, tier)
    items += fam_seq.computed_casts(seed, tier)[::3 if quick else 1]
    items += fam_seq.wide_constants()
    items += [it for it in fam_seq.large_shapes() if it.key[1] != 'tt_odd']
    items += fam_seq.expr_trees(seed, tier)           # every two-operator tree over nine kinds of leaves
    # minimum + 1 word stacks for a few programs
    n_tight = 8 if quick else 60
    tight = []
    for it in families.generated(seed + 2, n_tight, w=2, s=300, inputs=1, family='tight'):
        m = families.min_stack(it.src, it.args)
        if m is not None:
            it2 = families.runner.Item(it.key + ('tight',), it.src, it.args, w=2, s=m + 1, meta=dict(it.meta))
            tight.append(it2)
    items += tight
    return rt.standard(PROP, tier, seed, items,
                       'seeded type-directed random programs without time travel x argument grid; enumerated boolean formulas '
                       '(depth <= 2) in every usage position; every two-operator arithmetic tree over nine kinds of leaves; '
                       'evaluation-order / operand-preservation cases; array layout programs; constants beyond 16 bits; '
                       'W=2, 3 and one of {4,8} (thorough: all); generous and minimum+1 stacks', t0,
                       presize_limit=3500 if quick else 6000, max_level=10000 if quick else 20000)
