---------------------------- MODULE StackProtocol ----------------------------
(* Design-level model of the run-time protocol that hidc's lowering rules implement on the Sphinx stack      *)
(* (generator.py gen_block / eval_func_call / create_new_stack_array / reset_ap / the stop handler), with     *)
(* the "program" abstracted to a nondeterministic sequence of protocol events.  It shows that the monitors    *)
(* of SphinxRT.tla (ApFpOrdered, FrameInGap, extents live and disjoint, LoopFootprint, ReturnBalanced,        *)
(* TryBalanced) are CONSEQUENCES of the lowering rules - i.e. that a violation observed on compiled code       *)
(* means a rule was broken, not that the monitors ask for more than the design gives.                        *)
(*                                                                                                          *)
(* Memory: words 0..S.  Arrays grow up from 0 (`ap` = first free word), frames grow down from S (`fp` = base  *)
(* of the current activation; an activation uses the words fp-used .. fp-1).                                  *)
(* Lowering rules modelled:                                                                                  *)
(*   Enter(f)      function entry guard: fp - ap >= MaxFrame(f) or the run ends in stack_overflow;             *)
(*   Push / Pop    temporaries inside the guarded maximum;                                                    *)
(*   Alloc(n)      array guard: fp - ap - (guarded maximum) >= n or stack_overflow; ap advances; the array      *)
(*                 belongs to the innermost open scope of the current activation;                             *)
(*   Open / Close  block scopes: Close (fall-through) resets ap to its value at Open;                          *)
(*   LoopHead / Break / Continue   a loop remembers ap at entry; leaving or re-entering resets ap to it and    *)
(*                 discards the scopes opened inside;                                                         *)
(*   Call / Return the callee's fp is the caller's fp minus the caller's used words; return resets ap to the  *)
(*                 callee's entry value and restores the caller's fp;                                         *)
(*   TryStop / Defeat / EndTry   a stop-try saves (fp, ap); defeat, raised from any depth, unwinds to it.       *)
EXTENDS Integers, Sequences, FiniteSets, TLC

CONSTANTS S,          \* stack words
          MaxDepth,   \* bound on activations
          MaxFrame,   \* static frame size every function is guarded for
          MaxScopes   \* bound on open block scopes per activation

VARIABLES ap, acts, arrays, status
(* acts: stack of activations [fp, eap (ap at entry), used, scopes, try]                                      *)
(*   scopes: stack of [ap (at open), loop (BOOLEAN: is a loop body)]                                          *)
(*   try: <<>> or <<[fp, ap, depth, nscopes]>> (a you-activation's open stop-try)                               *)
vars == <<ap, acts, arrays, status>>

Cur == acts[Len(acts)]
fp == Cur.fp
Top(s) == s[Len(s)]
Pop1(s) == SubSeq(s, 1, Len(s) - 1)
SetCur(a) == [acts EXCEPT ![Len(acts)] = a]
\* arrays below a new ap value die
Release(v) == SelectSeq(arrays, LAMBDA e : e.hi <= v)

Init == /\ ap = 0 /\ arrays = <<>> /\ status = "run"
        /\ acts = <<[fp |-> S, eap |-> 0, used |-> 0, scopes |-> <<>>, try |-> <<>>]>>

Overflow == status' = "overflow" /\ UNCHANGED <<ap, acts, arrays>>

Push == /\ Cur.used < MaxFrame
        /\ acts' = SetCur([Cur EXCEPT !.used = @ + 1]) /\ UNCHANGED <<ap, arrays, status>>
Pop == /\ Cur.used > 0
       /\ acts' = SetCur([Cur EXCEPT !.used = @ - 1]) /\ UNCHANGED <<ap, arrays, status>>

Alloc(n) == IF fp - ap - MaxFrame >= n
            THEN /\ ap' = ap + n
                 /\ arrays' = Append(arrays, [lo |-> ap, hi |-> ap + n, depth |-> Len(acts)])
                 /\ UNCHANGED <<acts, status>>
            ELSE Overflow

Open(isloop) == /\ Len(Cur.scopes) < MaxScopes
                /\ acts' = SetCur([Cur EXCEPT !.scopes = Append(@, [ap |-> ap, loop |-> isloop])])
                /\ UNCHANGED <<ap, arrays, status>>
\* fall-through end of the innermost scope
Close == /\ Cur.scopes # <<>>
         /\ (IF Cur.try = <<>> THEN TRUE ELSE Len(Cur.scopes) > Cur.try[1].nscopes)
         /\ ap' = Top(Cur.scopes).ap /\ arrays' = Release(Top(Cur.scopes).ap)
         /\ acts' = SetCur([Cur EXCEPT !.scopes = Pop1(@)]) /\ UNCHANGED status
\* break / continue: back to the innermost loop scope (continue keeps it open, break closes it)
LoopIdx == LET idx == {i \in 1..Len(Cur.scopes) : Cur.scopes[i].loop} IN
           IF idx = {} THEN 0 ELSE CHOOSE i \in idx : \A j \in idx : j <= i
LeaveToLoop(closing) ==
   /\ LoopIdx > 0
   /\ LET l == Cur.scopes[LoopIdx]
          keep == IF closing THEN LoopIdx - 1 ELSE LoopIdx
          t == IF Cur.try = <<>> THEN <<>> ELSE IF Cur.try[1].nscopes >= LoopIdx THEN <<>> ELSE Cur.try IN   \* a try opened inside the loop is left
      /\ ap' = l.ap /\ arrays' = Release(l.ap)
      /\ acts' = SetCur([Cur EXCEPT !.scopes = SubSeq(@, 1, keep), !.try = t])
      /\ UNCHANGED status

Call == /\ Len(acts) < MaxDepth
        /\ LET nfp == fp - Cur.used IN
           IF nfp - ap >= MaxFrame
           THEN /\ acts' = Append(acts, [fp |-> nfp, eap |-> ap, used |-> 0, scopes |-> <<>>, try |-> <<>>])
                /\ UNCHANGED <<ap, arrays, status>>
           ELSE Overflow
Return == /\ Len(acts) > 1
          /\ ap' = Cur.eap /\ arrays' = Release(Cur.eap)
          /\ acts' = Pop1(acts) /\ UNCHANGED status

TryStop == /\ Cur.try = <<>>
           /\ \A i \in 1..Len(acts) : acts[i].try = <<>>          \* tries do not nest
           /\ acts' = SetCur([Cur EXCEPT !.try = <<[fp |-> fp, ap |-> ap, nscopes |-> Len(Cur.scopes)]>>])
           /\ UNCHANGED <<ap, arrays, status>>
TryDepth == LET idx == {i \in 1..Len(acts) : acts[i].try # <<>>} IN IF idx = {} THEN 0 ELSE CHOOSE i \in idx : TRUE
\* defeat anywhere at or below the try's activation: the handler restores fp and ap, drops deeper activations
Defeat == /\ TryDepth > 0
          /\ LET d == TryDepth  t == acts[d].try[1] IN
             /\ ap' = t.ap /\ arrays' = Release(t.ap)
             /\ acts' = Append(SubSeq(acts, 1, d - 1), [acts[d] EXCEPT !.try = <<>>, !.scopes = SubSeq(@, 1, t.nscopes)])
             /\ UNCHANGED status
EndTry == /\ Cur.try # <<>>
          /\ (IF Cur.try = <<>> THEN FALSE ELSE Len(Cur.scopes) = Cur.try[1].nscopes)
          /\ acts' = SetCur([Cur EXCEPT !.try = <<>>]) /\ UNCHANGED <<ap, arrays, status>>

Running == status = "run"
APush == Running /\ Push
APop == Running /\ Pop
AAlloc == Running /\ \E n \in 1..2 : Alloc(n)
AOpen == Running /\ \E l \in BOOLEAN : Open(l)
AClose == Running /\ Close
ABreak == Running /\ LeaveToLoop(TRUE)
AContinue == Running /\ LeaveToLoop(FALSE)
ACall == Running /\ Call
AReturn == Running /\ Return
ATryStop == Running /\ TryStop
ADefeat == Running /\ Defeat
AEndTry == Running /\ EndTry
Next == APush \/ APop \/ AAlloc \/ AOpen \/ AClose \/ ABreak \/ AContinue \/ ACall \/ AReturn \/ ATryStop \/ ADefeat
           \/ AEndTry
Spec == Init /\ [][Next]_vars

(* ------------------------------------------------------------------ the monitors, as consequences *)
ApFpOrdered == 0 <= ap /\ ap <= fp /\ fp <= S
\* every word an activation uses lies in the gap [ap, its fp)
FrameInGap == \A i \in 1..Len(acts) : ap <= acts[i].fp - acts[i].used
\* live arrays are disjoint, stacked, and below ap
ExtentsOK == /\ \A i \in 1..Len(arrays) : 0 <= arrays[i].lo /\ arrays[i].lo < arrays[i].hi /\ arrays[i].hi <= ap
             /\ \A i \in 1..(Len(arrays) - 1) : arrays[i].hi <= arrays[i + 1].lo
\* no array outlives its activation
NoLeak == \A i \in 1..Len(arrays) : arrays[i].depth <= Len(acts)
\* scope / loop / try marks never exceed ap (what they will restore is a release, never an allocation)
MarksBelowAp == \A i \in 1..Len(acts) :
                   /\ acts[i].eap <= ap
                   /\ \A k \in 1..Len(acts[i].scopes) : acts[i].scopes[k].ap <= ap
                   /\ (IF acts[i].try = <<>> THEN TRUE ELSE acts[i].try[1].ap <= ap)
\* action property: an array disappears only because ap was lowered below its end - a call, a scope exit or a
\* defeat never takes away an array that is still below the new ap ("a call leaves its caller's arrays untouched,
\* arrays still in scope are never released early")
KeepOlder == [][\A i \in 1..Len(arrays) : arrays[i].hi <= ap' => \E j \in 1..Len(arrays') : arrays'[j] = arrays[i]]_vars
\* action property: a return gives the caller back its frame pointer and the array pointer of the call
ReturnBalanced == [][(Len(acts') = Len(acts) - 1 /\ Len(acts) > 1 /\ ap' = acts[Len(acts)].eap)
                       => acts'[Len(acts')].fp = acts[Len(acts) - 1].fp]_vars
TypeOK == ap \in 0..S /\ status \in {"run", "overflow"}
=============================================================================
