"""Self-test of the C12 binding (CONVENTIONS "Showing the binding works").

  /venv/bin/python -m hv.checks.c12_selftest            (same as  -m hv.checks.c12 --selftest)
  /venv/bin/python -m hv.checks.c12_selftest --full     every run uses the real quick tier (slow)

(a) copies /repo's hidc, tests and examples to a scratch directory; runs the check on the unmodified copy
    (reference run); applies each lexer mutation in turn, confirms that tests/test_lexer.py still passes on
    the mutant, runs the check with HV_REPO=<copy> and requires a VIOLATION that the reference run did not
    produce;
(b) on the unmodified tree, corrupts one recorded field (the end column of one token of one case, after the
    real lexer was recorded) and requires TLC to reject exactly that case.
The reference run must be silent except for violations listed in GENUINE below (defects of the lexer
that the check reports on the unchanged tree).  Evidence and replay files of all these runs go to the scratch
directory, which is removed at the end.
"""
import json, os, shutil, subprocess, sys, time
from .. import common

# what the check reports on the unchanged tree and why it is a genuine defect, not a false alarm
GENUINE = [
    {'exception': 'OverflowError', 'mismatch': 'end',
     'why': r'"\u{80000000}" (any \u{...} value >= 2^31): chr() raises OverflowError, read_char_escape only '
            r'catches ValueError, so an internal exception escapes instead of a LexerError'},
]

MUTATIONS = [
    ('symbols-shortest-first', 'hidc/lexer/readers.py',
     "key=lambda tok: len(str(tok)), reverse=True", "key=lambda tok: len(str(tok)), reverse=False",
     '`<=` lexes as `<` `=`'),
    ('octal-read-as-decimal', 'hidc/lexer/readers.py',
     "return tokens.IntToken(int(lit, 8))", "return tokens.IntToken(int(lit[2:].replace('_', ''), 10))",
     '0o17 = 17'),
    ('escape-r-is-newline', 'hidc/lexer/readers.py',
     "'r\\r'", "'r\\n'", r"'\r' = 10"),
    ('span-starts-before-layout', 'hidc/lexer/__init__.py',
     "        marker = scan.mark()\n        for reader in tok_readers:", "        for reader in tok_readers:",
     'the span of a token starts where the previous one ended'),
    ('hex-upper-case-dropped', 'hidc/lexer/readers.py',
     "hex_literal = re.compile(r'0x(?:[\\da-fA-F]_?)*[\\da-fA-F]')", "hex_literal = re.compile(r'0x(?:[\\da-f]_?)*[\\da-f]')",
     '0xFF lexes as 0 then xFF'),
    ('char-literal-latin1', 'hidc/lexer/readers.py',
     "            byte = char.encode('utf-8')", "            byte = char.encode('latin-1')",
     "a raw non-ASCII character literal is accepted"),
    ('separator-before-prefix-digits', 'hidc/lexer/readers.py',
     "bin_literal = re.compile(r'0b(?:[01]_?)*[01]')", "bin_literal = re.compile(r'0b_?(?:[01]_?)*[01]')",
     '0b_1 becomes a literal'),
]

WORKER = r'''
import sys, json
import hv.common as c
c.EVID, c.REPLAY = sys.argv[1], sys.argv[2]
from hv.checks import c12
tier, seed, corrupt = sys.argv[3], int(sys.argv[4]), sys.argv[5]
hook = None
if corrupt != '-':
    def hook(batch):
        from hv import lexer_record as R
        for i, m in enumerate(batch.meta):
            if m[0] == 'words' and len(m[3]) >= 2 and m[2] == 0 and all(ord(ch) < 128 for ch in m[1]):
                s = batch.cases[i]
                ec = R.DIGITS.index(s[-1])
                batch.cases[i] = s[:-1] + R.DIGITS[(ec + 1) % 64]      # end column of the last token
                print('CORRUPTED case=%d source=%r' % (i + 1, m[1]))
                return
        raise c.Machinery('nothing to corrupt')
def run():
    return c12.main(tier, seed, corrupt=hook)
c.main_wrapper(run)
'''


def run_check(repo, out, tier, seed, corrupt=False):
    """-> (exit code, stdout, [violation dicts])"""
    evid = os.path.join(out, 'evidence')
    rep = os.path.join(out, 'replay')
    shutil.rmtree(rep, ignore_errors=True)
    os.makedirs(evid, exist_ok=True)
    os.makedirs(rep, exist_ok=True)
    env = dict(os.environ, HV_REPO=repo, PYTHONDONTWRITEBYTECODE='1')
    p = subprocess.run([sys.executable, '-c', WORKER, evid, rep, tier, str(seed), 'ec' if corrupt else '-'],
                       cwd=common.VERIF, env=env, stdout=subprocess.PIPE, stderr=subprocess.STDOUT, timeout=3000)
    vs = []
    for name in sorted(os.listdir(rep)):
        with open(os.path.join(rep, name)) as f:
            vs.append(json.load(f))
    return p.returncode, p.stdout.decode('utf-8', 'replace'), vs


def key(v):
    return json.dumps(v['classifier'], sort_keys=True)


def is_genuine(v):
    return any(all(v['classifier'].get(k) == g[k] for k in g if k != 'why') for g in GENUINE)


def unit_tests_pass(copy):
    p = subprocess.run([sys.executable, '-m', 'pytest', '-q', '-p', 'no:cacheprovider', 'tests/test_lexer.py'],
                       cwd=copy, stdout=subprocess.PIPE, stderr=subprocess.STDOUT,
                       env=dict(os.environ, PYTHONDONTWRITEBYTECODE='1'))
    return p.returncode == 0


def main():
    tier = 'quick' if '--full' in sys.argv else 'selftest'
    seed = common.seed_from_env()
    t0 = time.time()
    work = common.scratch('c12self_')
    failures = []
    try:
        copy = os.path.join(work, 'repo')
        os.makedirs(copy)
        for d in ('hidc', 'tests', 'examples'):
            shutil.copytree(os.path.join('/repo', d), os.path.join(copy, d),
                            ignore=shutil.ignore_patterns('__pycache__'))
        out = os.path.join(work, 'out')

        rc, text, ref = run_check(copy, out, tier, seed)
        if rc == 2:
            raise common.Machinery('reference run failed:\n' + text[-2000:])
        refkeys = set(key(v) for v in ref)
        unexplained = [v for v in ref if not is_genuine(v)]
        print('reference run on the unmodified copy: exit %d, %d violation file(s), %d not in GENUINE'
              % (rc, len(ref), len(unexplained)))
        for v in unexplained[:5]:
            print('   NOT SILENT: %s' % v['what'])
        if unexplained:
            failures.append('unmodified copy is not silent')

        for name, rel, old, new, effect in MUTATIONS:
            path = os.path.join(copy, rel)
            with open(path) as f:
                orig = f.read()
            if orig.count(old) != 1:
                failures.append('%s: pattern not found exactly once' % name)
                print('%-32s pattern not found exactly once in %s' % (name, rel))
                continue
            with open(path, 'w') as f:
                f.write(orig.replace(old, new))
            try:
                ut = unit_tests_pass(copy)
                rc, text, vs = run_check(copy, out, tier, seed)
            finally:
                with open(path, 'w') as f:
                    f.write(orig)
            fresh = [v for v in vs if key(v) not in refkeys]
            ok = rc == 1 and bool(fresh) and 'VIOLATION property=C12' in text
            print('%-32s %-9s exit %d, %d new violation class(es); upstream test_lexer.py %s; e.g. %s'
                  % (name, 'DETECTED' if ok else 'MISSED', rc, len(set(key(v) for v in fresh)),
                     'passes' if ut else 'FAILS', fresh[0]['what'][:150] if fresh else text[-300:]))
            if not ok:
                failures.append('%s (%s) not detected' % (name, effect))

        # (b) corrupt one recorded field on the unmodified tree
        rc, text, vs = run_check(copy, out, tier, seed, corrupt=True)
        line = [ln for ln in text.splitlines() if ln.startswith('CORRUPTED')]
        fresh = [v for v in vs if key(v) not in refkeys]
        hit = [v for v in fresh if v['classifier'].get('mismatch') == 'token' and v['classifier'].get('differs') == 'ec']
        ok = rc == 1 and len(line) == 1 and len(hit) == 1 and repr(hit[0]['detail']['source']) in line[0]
        print('%-32s %-9s exit %d; %s; %s' % ('corrupted-recording', 'REJECTED' if ok else 'ACCEPTED', rc,
                                              line[0] if line else 'nothing corrupted',
                                              hit[0]['what'][:150] if hit else text[-300:]))
        if not ok:
            failures.append('corrupted recording not rejected')
    finally:
        common.rm(work)
    print('C12 self-test: %s (%.0fs)' % ('FAILED: ' + '; '.join(failures) if failures else 'passed', time.time() - t0))
    return 1 if failures else 0


if __name__ == '__main__':
    common.main_wrapper(main)
