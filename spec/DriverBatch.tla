---------------------------- MODULE DriverBatch ----------------------------
(* Stand-in for the generated module of recorded traces (hv/driver_trace.py writes  *)
(* the real one into a scratch directory next to a copy of DriverTrace.tla).        *)
EXTENDS Integers
Traces == << >>
=============================================================================
