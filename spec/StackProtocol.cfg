SPECIFICATION Spec
CONSTANTS
 S = 6
 MaxDepth = 2
 MaxFrame = 2
 MaxScopes = 2
INVARIANT TypeOK
INVARIANT ApFpOrdered
INVARIANT FrameInGap
INVARIANT ExtentsOK
INVARIANT NoLeak
INVARIANT MarksBelowAp
PROPERTY ReturnBalanced
PROPERTY KeepOlder
