"""Engine and binding self-checks (DESIGN 3 "Demonstrating the binding", 4.5):
  words      WordMC.tla at W = 1 (exhaustive), 2, 3, 4, 8
  oracle     Sphinx.tla's operational Turing jump == declarative least fixed point (SphinxOracle.tla)
  timetravel HiDSem backtracking == declarative prophecy semantics (TimeTravel.tla)
  upstream   the 52 upstream code generation tests on the verification VM (their expectations come from the real emulator)
  svm        final observables of TLC (Sphinx.tla) == fast VM on the upstream corpus
  specmut    deliberately broken specs must be REJECTED by the model checks above (non-vacuity)
  protocol   StackProtocol.tla: ap/fp discipline invariants follow from the lowering rules
  corrupt    a corrupted artifact (one opcode of the assembled code) must be rejected by Refine
Usage: /venv/bin/python -m hv.selftest [names...]"""
import json, os, sys, time
from . import common, wordmc, oracle_mc, tt_mc, upstream, runner, export, hidc_api, svm, sasm


def words():
    out = {}
    for w, ex in ((1, True), (2, False), (3, False), (4, False), (8, False)):
        r, n = wordmc.run(w, exhaustive=ex, extra=4 if w >= 4 else 8, timeout=1800)
        out['W=%d' % w] = {'pairs': n * n, 'ok': r.ok, 'wall_s': round(r.wall, 1), 'problems': (r.errors + r.violated)[:3]}
        if not r.ok:
            return False, out
    return True, out


def oracle():
    r, k = oracle_mc.run(4, timeout=1800)
    return r.ok, {'programs': k, 'runs': 4 * k, 'states': r.distinct, 'wall_s': round(r.wall, 1), 'problems': (r.errors + r.violated)[:3]}


def timetravel():
    r, k = tt_mc.run(3, 'quick', timeout=1800)
    return r.ok, {'programs': k, 'runs': 2 * k, 'states': r.distinct, 'wall_s': round(r.wall, 1), 'problems': (r.errors + r.violated)[:3]}


def upstream_tests():
    rc, txt = upstream.run_shim()
    tail = txt.strip().splitlines()[-1] if txt.strip() else ''
    return rc == 0, {'pytest_exit': rc, 'summary': tail}


def svm_vs_tlc():
    cases = []
    for i, r in enumerate(upstream.corpus()):
        if r['w'] != 2:
            continue
        try:
            lines = hidc_api.compile_src(r['source'], w=r['w'], s=r['s'], unchecked=r['unchecked'], **r['options'])
        except Exception:
            continue
        vm = svm.VM(sasm.Program(lines, r['args']), max_steps=4000, full_cycle=False).run()
        if vm.status == 'fuel':
            continue
        c = export.Case(i, lines, r['args'])
        c.meta['vm'] = vm
        cases.append(c)
    res, t = runner.run_machine(cases, max_level=4500, timeout=1200)
    bad = [c.key for c in cases if res[c.key] is None or res[c.key]['obs'] != c.meta['vm'].observable()]
    return not bad, {'cases': len(cases), 'states': t.distinct, 'disagreements': bad[:5]}


def specmut():
    out = {}
    ok = True
    # Sphinx: forget to rewind the anchors on backtrack -> a stale anchor declares "forever" wrongly
    def m1(spec):
        return spec
    d = common.scratch('specmut_')
    try:
        sph = open(os.path.join(common.SPEC, 'Sphinx.tla')).read()
        bad = sph.replace("/\\ anchors' = SubSeq(anchors, 1, c.al)", "/\\ anchors' = anchors")
        assert bad != sph
        old = oracle_mc.common.SPEC
        # run the oracle check with a shadowing copy of Sphinx.tla in the scratch dir
        r = _oracle_with(bad)
        out['sphinx_anchors_not_rewound'] = {'rejected': not r.ok, 'violated': r.violated[:2]}
        ok &= not r.ok
        bad2 = sph.replace('IF old = bs THEN UNCHANGED <<mem, trail>>', 'IF FALSE THEN UNCHANGED <<mem, trail>>')
        # logging no-op stores is harmless for meaning but defeats the cheap anchor: must still agree (equivalent variant)
        r = _oracle_with(bad2)
        out['sphinx_log_noop_stores(equivalent)'] = {'accepted': r.ok}
        ok &= r.ok
    finally:
        common.rm(d)
    hs = lambda s: s.replace('ELSE [PushChoice(hh, "preempt", Goto(hh, Items(s.body) \\o K)) EXCEPT !.k = K])',
                             'ELSE Goto(hh, K))')
    r, k = tt_mc.run(3, 'quick', mutate=hs)
    out['hidsem_preempt_never_taken'] = {'rejected': not r.ok, 'violated': r.violated[:2]}
    ok &= not r.ok
    hs2 = lambda s: s.replace('ELSE [hh EXCEPT !.k = inside, !.mode = "virtual"]', 'ELSE [hh EXCEPT !.k = Items(s.handler) \\o K]')
    r, k = tt_mc.run(3, 'quick', mutate=hs2)
    out['hidsem_stop_behaves_like_undo'] = {'rejected': not r.ok, 'violated': r.violated[:2]}
    ok &= not r.ok
    return ok, out


def _oracle_with(sphinx_text):
    from . import tlc
    d = common.scratch('oraclemut_')
    try:
        orig_run = tlc.run

        def run(module_dir, module, **kw):
            with open(os.path.join(module_dir, 'Sphinx.tla'), 'w') as f:
                f.write(sphinx_text)
            return orig_run(module_dir, module, **kw)
        tlc.run = run
        try:
            r, k = oracle_mc.run(4, timeout=900)
        finally:
            tlc.run = orig_run
        return r
    finally:
        common.rm(d)


def corrupt():
    src = 'empty @is_you(int a) { int b = a * 3 + 1; if (b > 4) { write(\'y\'); } else { write(\'n\'); } write(b); }'
    it = runner.Item('c', src, ['4'], s=60)
    orig = hidc_api.compile_src

    def patched(*a, **k):
        lines = orig(*a, **k)
        out = []
        done = False
        for l in lines:
            if not done and l.strip().startswith(b'hgt '):
                l = l.replace(b'hgt ', b'hge ', 1)
                done = True
            out.append(l)
        return out
    good = runner.Item('g', src, ['5'], s=60)
    runner.run_refine([good])
    hidc_api.compile_src = patched
    try:
        bad_items = [runner.Item(('b', v), src, [str(v)], s=60) for v in range(0, 4)]
        runner.run_refine(bad_items)
    finally:
        hidc_api.compile_src = orig
    rejected = any(b.result and b.result['cls'] == 'differ' for b in bad_items)
    return good.result['cls'] == 'agree' and rejected, {'unmodified': good.result['cls'],
                                                         'one_opcode_swapped': [b.result and b.result['cls'] for b in bad_items]}


def hidsem_upstream():
    """HiDSem agrees with the compiled upstream test programs, whose printed output the upstream assertions (run on
    the shimmed VM above) pin to what the real emulator produced: an anchor for the source semantics itself."""
    from . import families, rt
    items = families.upstream_corpus(skip_tests=('stack_overflow', 'early_stack', 'uninitialized'))
    items = rt.presize(items, 4000)
    st = rt.Stats()
    rt.run(items, st, max_level=14000, timeout=1500)
    bad = [(it.meta['family'], it.result['cls']) for it in items if it.result and it.result['cls'] not in ('agree',)]
    return st.cases > 30 and not bad, {'cases': st.cases, 'classes': dict(st.classes), 'not_agreeing': bad[:5], 'states': st.states}


def protocol():
    """spec/StackProtocol.tla: the SphinxRT monitors are consequences of the lowering rules (design-level model)"""
    from . import tlc
    r = tlc.run(common.SPEC, 'StackProtocol', timeout=1200, coverage=True)
    acts = {k: v[1] for k, v in r.coverage.items() if k.startswith('A')}
    never = [k for k, v in acts.items() if not v]
    return r.ok and not never, {'states': r.distinct, 'transitions': r.generated, 'actions_taken': acts,
                                'never_taken': never, 'wall_s': round(r.wall, 1), 'problems': (r.errors + r.violated)[:3]}


ALL = [('protocol', protocol), ('words', words), ('oracle', oracle), ('timetravel', timetravel), ('upstream', upstream_tests),
       ('svm', svm_vs_tlc), ('hidsem_upstream', hidsem_upstream), ('specmut', specmut), ('corrupt', corrupt)]


def main():
    want = sys.argv[1:]
    path = os.path.join(common.VERIF, 'evidence', 'selftest.json')
    res = json.load(open(path)) if os.path.exists(path) else {}
    ok = True
    for name, fn in ALL:
        if want and name not in want:
            continue
        t = time.time()
        good, info = fn()
        info['ok'] = good
        info['wall_s_total'] = round(time.time() - t, 1)
        res[name] = info
        print('%-10s %s %s' % (name, 'OK ' if good else 'FAIL', json.dumps(info)[:300]), flush=True)
        ok &= good
    with open(path, 'w') as f:
        json.dump(res, f, indent=1)
    return 0 if ok else 1


if __name__ == '__main__':
    sys.exit(main())
