"""C11: run the real parser (working tree of common.REPO) on expression text and serialise what it returns
in the tree shape of spec/Precedence.tla.  Two routes:
  rule - the expression rule itself, in a you-context (the way tests/test_parser.py parses expressions):
         parse(SourceCode.from_string(text), expect(ps_expr(BlockContext.YOU)))
  prog - a whole program  `empty @is_you() { x = <text>; }`  parsed with the default rule; the tree is the
         right-hand side of the one assignment.
Only the parser runs: no typechecker, so ill-typed but well-formed strings (a < b < c) give trees.
"""
import multiprocessing, os
from . import common, hidc_api

_mods = None


def _load():
    global _mods
    if _mods is None:
        hidc_api.load()
        import hidc.ast as A
        from hidc.lexer import SourceCode
        from hidc.parser import parse, grammar
        from hidc.parser.rules import expect
        from hidc.errors import CompilerError
        from hidc.lexer.tokens import DataType
        _mods = (A, SourceCode, parse, grammar, expect, CompilerError, DataType)
    return _mods


class Unserialisable(Exception):
    pass


def _type_text(tp, A, DataType):
    if isinstance(tp, A.ArrayType):
        return tp.el_type.value + '[]'
    if isinstance(tp, DataType):
        return tp.value
    raise Unserialisable('type %r' % (tp,))


def serialise(e):
    """hidc expression AST -> (k, t, children).  Operators by their token, operands by name / literal text."""
    A, _S, _p, _g, _e, _C, DataType = _load()
    if isinstance(e, A.Binary):
        return ('bin', e.token.value, (serialise(e.left), serialise(e.right)))
    if isinstance(e, A.Unary):
        return ('un', e.token.value, (serialise(e.arg),))
    if isinstance(e, A.Is):
        return ('is', _type_text(e.type, A, DataType), (serialise(e.expr),))
    if isinstance(e, A.ArrayLookup):
        return ('ix', '', (serialise(e.source), serialise(e.index)))
    if isinstance(e, A.LengthLookup):
        return ('len', '', (serialise(e.source),))
    if isinstance(e, A.ArrayLiteral):
        return ('arr', '', tuple(serialise(x) for x in e.values))
    if isinstance(e, A.FuncCall):
        return ('call', e.func.name, tuple(serialise(x) for x in e.args))
    if isinstance(e, A.VariableLookup):
        return ('id', e.var.name, ())
    if isinstance(e, A.BoolValue):
        return ('bool', 'true' if e.data else 'false', ())
    if isinstance(e, A.ByteValue):
        return ('char', "'%s'" % chr(e.data), ())
    if isinstance(e, A.IntValue):
        return ('int', str(e.data), ())
    if isinstance(e, A.StringValue):
        return ('str', '"%s"' % e.data.decode('utf-8'), ())
    raise Unserialisable('node %s' % type(e).__name__)


def parse_one(job):
    """job = (route, text) -> (st, tree, note)   st in tree / reject / crash"""
    route, text = job
    A, SourceCode, parse, grammar, expect, CompilerError, _D = _load()
    try:
        if route == 'rule':
            ast = parse(SourceCode.from_string(text), expect(grammar.ps_expr(grammar.BlockContext.YOU)))
        else:
            prog = parse(SourceCode.from_string('empty @is_you() { x = %s; }' % text))
            stmts = prog.func_decls[0].body.stmts
            if len(prog.func_decls) != 1 or prog.var_decls or len(stmts) != 1 or not isinstance(stmts[0], A.Assignment):
                return ('crash', None, 'program shape: %d statements' % len(stmts))
            ast = stmts[0].expr
        return ('tree', serialise(ast), '')
    except CompilerError as e:
        return ('reject', None, '%s: %s' % (type(e).__name__, e))
    except RecursionError as e:
        return ('crash', None, 'RecursionError')
    except Unserialisable as e:
        return ('crash', None, 'unserialisable %s' % e)
    except Exception as e:      # anything that is not a located diagnostic
        return ('crash', None, '%s: %s' % (type(e).__name__, e))


def parse_many(jobs, procs=None):
    jobs = list(jobs)
    if not jobs:
        return []
    procs = procs or common.NPROC
    if len(jobs) < 200 or procs == 1:
        return [parse_one(j) for j in jobs]
    ctx = multiprocessing.get_context('fork')
    _load()
    with ctx.Pool(procs) as pool:
        return pool.map(parse_one, jobs, chunksize=max(1, len(jobs) // (procs * 8)))
