"""Running TLC / SANY and parsing what they print."""
import os, re, subprocess, time
from . import common

JAR = '/opt/veriftools/tla/tla2tools.jar:/opt/veriftools/tla/CommunityModules-deps.jar'


class Result:
    def __init__(self):
        self.out = ''
        self.generated = 0
        self.distinct = 0
        self.depth = 0
        self.errors = []       # TLC "Error:" blocks (first lines)
        self.violated = []     # names of violated invariants/properties reported by TLC itself
        self.timed_out = False
        self.rc = None
        self.wall = 0.0
        self.prints = []       # parsed PrintT values (python objects)
        self.coverage = {}     # action name -> (distinct, total) when -coverage was on

    @property
    def ok(self):
        return (not self.errors and not self.timed_out and not self.violated
                and 'Model checking completed' in self.out)


def java_cmd(extra_lib=None, heap='8g', deque=False, props=()):
    libs = [common.SPEC] + ([extra_lib] if extra_lib else [])
    cmd = ['java', '-XX:+UseParallelGC', '-XX:-UseGCOverheadLimit', '-Xmx' + heap, '-Xss64m', '-DTLA-Library=' + os.pathsep.join(libs)]
    if deque:
        cmd.append('-Dtlc2.tool.queue.IStateQueue=StateDeque')
    cmd += list(props)
    cmd += ['-cp', JAR]
    return cmd


def parse_value(s, start=0):
    """Parse a TLA+ value printed by TLC (tuples, records, sets, strings, ints, booleans, functions
    printed as (a :> b @@ c :> d)) into python: tuple->list, record->dict, set->('set',[...]).
    Returns (value, end position)."""
    pos = start
    n = len(s)

    def ws():
        nonlocal pos
        while pos < n and s[pos] in ' \t\r\n':
            pos += 1

    def val():
        nonlocal pos
        ws()
        if s.startswith('<<', pos):
            pos += 2
            items = []
            ws()
            if s.startswith('>>', pos):
                pos += 2
                return items
            while True:
                items.append(val())
                ws()
                if s.startswith('>>', pos):
                    pos += 2
                    return items
                if s[pos] != ',':
                    raise ValueError('tuple at %d' % pos)
                pos += 1
        if s[pos] == '[':
            pos += 1
            d = {}
            ws()
            if s[pos] == ']':
                pos += 1
                return d
            while True:
                ws()
                m = re.compile(r'[A-Za-z_][A-Za-z_0-9]*').match(s, pos)
                key = m.group(0)
                pos = m.end()
                ws()
                if not s.startswith('|->', pos):
                    raise ValueError('record at %d' % pos)
                pos += 3
                d[key] = val()
                ws()
                if s[pos] == ']':
                    pos += 1
                    return d
                if s[pos] != ',':
                    raise ValueError('record sep at %d' % pos)
                pos += 1
        if s[pos] == '{':
            pos += 1
            items = []
            ws()
            if s[pos] == '}':
                pos += 1
                return ('set', items)
            while True:
                items.append(val())
                ws()
                if s[pos] == '}':
                    pos += 1
                    return ('set', items)
                if s[pos] != ',':
                    raise ValueError('set at %d' % pos)
                pos += 1
        if s[pos] == '(':
            pos += 1
            d = {}
            while True:
                k = val()
                ws()
                if not s.startswith(':>', pos):
                    raise ValueError('fun at %d' % pos)
                pos += 2
                d[k if not isinstance(k, list) else tuple(k)] = val()
                ws()
                if s.startswith('@@', pos):
                    pos += 2
                    continue
                if s[pos] == ')':
                    pos += 1
                    return ('fun', d)
                raise ValueError('fun sep at %d' % pos)
        if s[pos] == '"':
            j = pos + 1
            buf = []
            while s[j] != '"':
                if s[j] == '\\':
                    j += 1
                buf.append(s[j])
                j += 1
            pos = j + 1
            return ''.join(buf)
        m = re.compile(r'-?\d+').match(s, pos)
        if m:
            pos = m.end()
            return int(m.group(0))
        m = re.compile(r'TRUE|FALSE').match(s, pos)
        if m:
            pos = m.end()
            return m.group(0) == 'TRUE'
        m = re.compile(r'[A-Za-z_][A-Za-z_0-9]*').match(s, pos)
        if m:
            pos = m.end()
            return ('id', m.group(0))
        raise ValueError('value at %d: %r' % (pos, s[pos:pos + 20]))

    v = val()
    return v, pos


def extract_prints(out, tag='HV'):
    """All printed tuples whose first element is the string `tag`, found by bracket matching so that
    interleaved worker output cannot split or merge them.  Handles both PrintT(<<...>>) (pretty printed over
    several lines) and PrintT(ToString(<<...>>)) (one quoted line with escaped quotes)."""
    res = []
    out = out.replace('\\"', '"')
    pat = re.compile(r'<<\s*"%s"' % re.escape(tag))
    i = 0
    while True:
        m = pat.search(out, i)
        if not m:
            break
        i = m.start()
        try:
            v, end = parse_value(out, i)
            res.append(v)
            i = end
        except (ValueError, IndexError, AttributeError):
            i = m.end()
    return res


def _die_with_parent():
    """a TLC whose checking process is killed must not keep running (Linux: PR_SET_PDEATHSIG = SIGKILL)"""
    try:
        import ctypes, signal
        ctypes.CDLL('libc.so.6', use_errno=True).prctl(1, signal.SIGKILL)
    except Exception:
        pass


def run(module_dir, module, cfg=None, workers=None, timeout=600, heap='8g', coverage=False,
        simulate=None, depth=None, deque=False, extra=(), tag='HV', deadlock=False, seed=None):
    """Run TLC on module_dir/module.tla with module_dir/<cfg or module>.cfg."""
    r = Result()
    meta = common.scratch('tlcmeta_')
    cmd = java_cmd(extra_lib=module_dir, heap=heap, deque=deque, props=['-Djava.io.tmpdir=' + meta])
    cmd += ['tlc2.TLC', '-workers', str(workers or common.NPROC), '-metadir', meta, '-noGenerateSpecTE',
            '-config', os.path.join(module_dir, (cfg or module) + ('' if (cfg or module).endswith('.cfg') else '.cfg'))]
    if not deadlock:
        cmd.append('-deadlock')
    if coverage:
        cmd += ['-coverage', '1']
    if simulate:
        cmd += ['-simulate', simulate]
    if depth:
        cmd += ['-depth', str(depth)]
    if seed is not None:
        cmd += ['-seed', str(seed)]
    cmd += list(extra)
    cmd.append(os.path.join(module_dir, module + '.tla'))
    t0 = time.time()
    try:
        p = subprocess.run(cmd, stdout=subprocess.PIPE, stderr=subprocess.STDOUT, timeout=timeout, cwd=module_dir,
                           preexec_fn=_die_with_parent)
        r.out = p.stdout.decode('utf-8', 'replace')
        r.rc = p.returncode
    except subprocess.TimeoutExpired as e:
        r.out = (e.stdout or b'').decode('utf-8', 'replace')
        r.timed_out = True
    finally:
        common.rm(meta)
    r.wall = time.time() - t0
    m = None
    for m in re.finditer(r'(\d+) states generated, (\d+) distinct states found', r.out):
        pass
    if m:
        r.generated, r.distinct = int(m.group(1)), int(m.group(2))
    m = re.search(r'The depth of the complete state graph search is (\d+)', r.out)
    if m:
        r.depth = int(m.group(1))
    for m in re.finditer(r'Error: (.*)', r.out):
        r.errors.append(m.group(1).strip())
    for m in re.finditer(r'(?:Invariant|Action property|Temporal properties?) (\S+) (?:is|was) violated', r.out):
        r.violated.append(m.group(1))
    r.prints = extract_prints(r.out, tag)
    if coverage:
        for m in re.finditer(r'<(\w+) line \d+, col \d+ to line \d+, col \d+ of module (\w+)>: (\d+):(\d+)', r.out):
            r.coverage[m.group(1)] = (int(m.group(3)), int(m.group(4)))
    return r


def sany(path):
    tmp = common.scratch('sany_')
    try:
        cmd = java_cmd(extra_lib=os.path.dirname(path), props=['-Djava.io.tmpdir=' + tmp]) + ['tla2sany.SANY', path]
        p = subprocess.run(cmd, stdout=subprocess.PIPE, stderr=subprocess.STDOUT, cwd=os.path.dirname(path))
    finally:
        common.rm(tmp)
    out = p.stdout.decode('utf-8', 'replace')
    ok = p.returncode == 0 and 'Semantic errors' not in out and 'Parse Error' not in out and 'Fatal' not in out \
        and '***' not in out.replace('****** SANY2', '')
    return ok, out


# ---- rendering python values as TLA+ text
def tla(v):
    if isinstance(v, bool):
        return 'TRUE' if v else 'FALSE'
    if isinstance(v, int):
        return str(v) if v >= 0 else '(%d)' % v
    if isinstance(v, str):
        return '"%s"' % v.replace('\\', '\\\\').replace('"', '\\"')
    if isinstance(v, (list, tuple)):
        return '<<' + ', '.join(tla(x) for x in v) + '>>'
    if isinstance(v, dict):
        return '[' + ', '.join('%s |-> %s' % (k, tla(x)) for k, x in v.items()) + ']'
    if isinstance(v, (set, frozenset)):
        return '{' + ', '.join(tla(x) for x in sorted(v)) + '}'
    if isinstance(v, Raw):
        return v.text
    raise TypeError('cannot render %r' % (v,))


class Raw:
    def __init__(self, text):
        self.text = text
