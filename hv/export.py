"""Assembled programs -> TLA+ constants for spec/Sphinx.tla / SphinxRT.tla (the binding "by construction":
the constants TLC checks ARE the output of the working-tree compiler)."""
import re
from . import sasm
from .tlc import tla, Raw

FLAG_IDX = {'win': 1, 'error': 2, 'debug': 3, 'progress': 4, 'stack_overflow': 5, 'division_by_zero': 6,
            'out_of_bounds': 7, 'nonlocal_preempt': 8}
FLAG_NAME = {v: k for k, v in FLAG_IDX.items()}
STDLIB_ENTRIES = ('all_is_win', 'all_is_broken', 'stack_overflow', 'division_by_zero', 'out_of_bounds',
                  'nonlocal_preempt', 'write_const_byte_array', 'write_string', 'write_state_byte_array',
                  'write_bool', 'write_int')
TERMINALS = ('all_is_win', 'all_is_broken', 'stack_overflow', 'division_by_zero', 'out_of_bounds', 'nonlocal_preempt')
STEMS = ('loop', 'continue', 'break', 'end_try', 'try_handler', 'begin_try', 'end_call')

NTAG = {'t': 'N', 'x': 0, 'y': 0}


def word(v, w):
    return [(v >> (8 * i)) & 255 for i in range(w)]


def label_tag(p, lab):
    sec = p.labels[lab][0]
    if sec == 'code' or lab in ('stack_start', 'stack_end'):
        return NTAG
    s, lo, hi = p.ext[lab]
    return {'t': 'G' if s == 'state' else 'C', 'x': lo, 'y': hi}


def operand(p, pc, k, o):
    kind, v = o
    if kind == 'i':
        lab = p.imm_label.get((pc, k))
        return {'k': 'i', 'v': v if v < (1 << 24) else -1, 'w': word(v, p.word),
                'tg': label_tag(p, lab) if lab else NTAG}
    return {'k': kind, 'v': v, 'w': [], 'tg': NTAG}


DUMMY = {'k': 'n', 'v': 0, 'w': [], 'tg': NTAG}


def operand_txt(o):
    if o['k'] == 'i':
        if o['tg']['t'] == 'N':
            return 'OI(%d, %s)' % (o['v'], tla(o['w']))
        return 'OIT(%d, %s, "%s", %d, %d)' % (o['v'], tla(o['w']), o['tg']['t'], o['tg']['x'], o['tg']['y'])
    return '%s(%d)' % ('OS' if o['k'] == 's' else 'OC', o['v'])


def code_records(p):
    """-> list of Raw TLA+ texts built from the constructors in Sphinx.tla (I0..I3, IFlag, OI, OS, OC)."""
    recs = []
    for pc, ins in enumerate(p.ops):
        op = ins[0]
        if op == 'flag':
            recs.append(Raw('IFlag(%d)' % FLAG_IDX[ins[1]]))
            continue
        ops = [operand_txt(operand(p, pc, k, o)) for k, o in enumerate(ins[1:])]
        recs.append(Raw('I%d(%s)' % (len(ops), ', '.join(['"%s"' % op] + ops))))
    return recs


def rt_record(p):
    """ABI probe points read off the label table (DESIGN 2.3, A5).  Missing labels -> -1 / empty."""
    L = p.labels

    def st(n):
        return L[n][1] if n in L and L[n][0] == 'state' else -1

    def cd(n):
        return L[n][1] if n in L and L[n][0] == 'code' else -1

    entries = sorted({a for n, (s, a) in L.items() if s == 'code' and (n.startswith('func_') or n in STDLIB_ENTRIES)})
    userfuncs = sorted({a for n, (s, a) in L.items() if s == 'code' and n.startswith('func_')})
    terminals = sorted({cd(n) for n in TERMINALS if cd(n) >= 0})
    stems = {}
    for n, (s, a) in L.items():
        if s == 'code':
            m = re.fullmatch(r'(%s)_(\d+)' % '|'.join(STEMS), n)
            if m:
                stems.setdefault(a, []).append({'s': m.group(1), 'k': int(m.group(2))})
    # a label that closes a function body (end_try_, break_, ...) shares its address with the next function's
    # entry label; such an address is only ever reached as a function entry, so its stems are dropped
    for a in entries:
        stems.pop(a, None)
    # stack guards, read off the code in front of each `no_overflow_N` label:
    #   entry guard      sub [r1], [fp], [ap] ; hgeu [r1], K ; j stack_overflow ; halt ; no_overflow_N:
    #   dynamic array    sub [r1], [fp], [ap] ; sub [r1], [r1], X ; hgeu [r1], <size> ; j stack_overflow ; halt ; no_overflow_N:
    # (a label whose neighbourhood looks different is left out: the GuardCovers monitor is then silent for it)
    guards = {}
    r1 = st('r1')
    for n, (sct, a) in L.items():
        if sct == 'code' and re.fullmatch(r'no_overflow_\d+', n) and a >= 4:
            h = p.ops[a - 3]
            if h[0] != 'hgeu' or h[1] != ('s', r1):
                continue
            x = p.ops[a - 4]
            gap = ('sub', ('s', r1), ('s', st('fp')), ('s', st('ap')))
            if x == gap and h[2][0] == 'i':
                guards[a] = ('e', h[2][1])
            elif a >= 5 and p.ops[a - 5] == gap and x[0] == 'sub' and x[1] == ('s', r1) and x[2] == ('s', r1) and x[3][0] == 'i':
                guards[a] = ('v', x[3][1])         # the size compared against (register or constant) is added to ap next
    guard_txt = '<<>>' if not guards else '(' + ' @@ '.join(
        '%d :> [k |-> "%s", v |-> %d]' % (a, k, v) for a, (k, v) in sorted(guards.items())) + ')'
    stem_txt = '<<>>' if not stems else '(' + ' @@ '.join(
        '%d :> %s' % (a, tla(sorted(v, key=lambda d: (d['s'], d['k'])))) for a, v in sorted(stems.items())) + ')'
    return {'ap': st('ap'), 'fp': st('fp'), 'r0': st('r0'), 'r1': st('r1'), 'r2': st('r2'),
            'tryfp': st('try_fp'), 'defeat': st('defeat'), 'sstart': st('stack_start'), 'send': st('stack_end'),
            'halt': cd('halt'), 'entries': set(entries), 'userfuncs': set(userfuncs), 'terminals': set(terminals),
            'libent': set(sorted({cd(n) for n in STDLIB_ENTRIES if cd(n) >= 0})),
            'stems': Raw(stem_txt), 'stempcs': set(stems.keys()), 'guards': Raw(guard_txt), 'guardpcs': set(guards.keys())}


def init_record(p, hcase=0):
    tags = {}
    for (sec, off), lab in p.data_label.items():
        if sec == 'state':
            t = label_tag(p, lab)
            if t['t'] != 'N':
                tags[off] = t
    tag_txt = '<<>>' if not tags else '(' + ' @@ '.join(
        '%d :> TG("%s", %d, %d)' % (a, t['t'], t['x'], t['y']) for a, t in sorted(tags.items())) + ')'
    return {'m': list(p.state), 'c': list(p.const), 'tags': Raw(tag_txt), 'tagdom': set(tags.keys()), 'hcase': hcase}


class Case:
    """One (program image, argument vector).  `prog`/`inp` are its indices in the exported batch."""
    def __init__(self, key, lines, args, meta=None):
        self.key = key
        self.lines = lines
        self.args = list(args)
        self.meta = meta or {}
        self.program = None
        self.prog = self.inp = None


def export_batch(cases):
    """cases: list of Case (lines = assembly).  Assembles each, groups cases with identical code + probe
    points into one Progs entry, returns TLA+ text of the Progs tuple.  Raises sasm.AsmError."""
    groups = []
    index = {}
    for c in cases:
        if c.program is None:
            c.program = sasm.Program(c.lines, c.args)
        code = code_records(c.program)
        rt = rt_record(c.program)
        c.meta['guard_labels'] = len(rt['guardpcs'])
        gkey = (id(c.lines), tla(code), tla(rt), c.program.word)
        if gkey not in index:
            index[gkey] = len(groups)
            groups.append({'code': code, 'rt': rt, 'inits': [], 'w': c.program.word})
        g = groups[index[gkey]]
        g['inits'].append(init_record(c.program, c.meta.get('hcase', 0)))
        c.prog = index[gkey] + 1
        c.inp = len(g['inits'])
    parts = []
    for g in groups:
        parts.append('[code |-> %s,\n  rt |-> %s,\n  inits |-> %s]' % (
            '<<' + ',\n    '.join(tla(r) for r in g['code']) + '>>', tla(g['rt']),
            '<<' + ',\n    '.join(tla(i) for i in g['inits']) + '>>'))
    return '<<\n ' + ',\n '.join(parts) + '\n>>', groups


def decode_events(ev):
    """TLA+ event records (parsed by tlc.parse_value) -> svm-style event list."""
    out = []
    for e in ev:
        k, v = e['k'], e['v']
        if k == 'y':
            out.append(('y', v[0]))
        elif k == 'f':
            out.append(('f', FLAG_NAME.get(v[0], v[0])))
        else:
            u = sum(b << (8 * i) for i, b in enumerate(v))
            out.append(('s', u - (1 << (8 * len(v))) if v and v[-1] >= 128 else u))     # signed: width independent
    return out
