\* quick tier: every add/update/push/pop sequence of length <= 6 over sizes 0..3
\* (hv/tracker_replay.py generates the configurations of both tiers: see TIERS there)
SPECIFICATION Spec
CONSTANTS
    MaxLen = 6
    MaxSize = 3
    Look = 1
    FirstOps = {0, 1, 2, 3, 4, 5, 6, 7, 8}
    Emit = TRUE
INVARIANTS EmitInv MeaningInv StructInv
