"""Shared driver for the run-time properties: items -> Refine (TLC) -> violations + evidence numbers."""
import os, time, collections
from . import common, runner, hidc_api, svm, sasm


class Stats:
    def __init__(self):
        self.states = 0
        self.transitions = 0
        self.tlc_wall = 0.0
        self.cases = 0            # (program, config, input) runs judged by TLC
        self.classes = collections.Counter()
        self.skipped = collections.Counter()
        self.features = collections.Counter()
        self.programs = set()
        self.samples = []
        self.batches = 0

    def coverage(self, extra=None):
        cov = {'states': self.states, 'transitions': self.transitions,
               'traces_validated_against_impl': self.cases, 'programs': len(self.programs),
               'classes': dict(self.classes), 'skipped': dict(self.skipped),
               'constructs_covered': dict(self.features), 'tlc_wall_s': round(self.tlc_wall, 1),
               'tlc_batches': self.batches, 'samples': self.samples[:6]}
        if extra:
            cov.update(extra)
        return cov


def presize(items, max_steps, limit_factor=1):
    """Accelerator (never decides): drop cases whose machine run is too long for TLC, using the fast VM."""
    items = list(items)
    par = min(int(os.environ.get('HV_PRESIZE_PAR', '8')), common.NPROC)
    if len(items) < 300 or par <= 1:
        return _presize(items, max_steps, limit_factor)
    import concurrent.futures, multiprocessing
    n = (len(items) + par * 4 - 1) // (par * 4)
    parts = [items[i:i + n] for i in range(0, len(items), n)]
    with concurrent.futures.ProcessPoolExecutor(max_workers=par, mp_context=multiprocessing.get_context('fork')) as pool:
        backs = list(pool.map(_presize_job, [(p, max_steps, limit_factor) for p in parts]))
    for part, back in zip(parts, backs):
        for it, (skip, extra) in zip(part, back):
            it.skip = skip
            it.meta.update(extra)
    return items


def _presize_job(a):
    part, max_steps, limit_factor = a
    before = [set(it.meta) for it in part]
    _presize(part, max_steps, limit_factor)
    return [(it.skip, {k: v for k, v in it.meta.items() if k not in b}) for it, b in zip(part, before)]


def _presize(items, max_steps, limit_factor=1):
    keep = []
    cache = {}
    for it in items:
        ck, cache[ck] = runner.compile_cached(it)
        if isinstance(cache[ck], Exception):
            it.skip = 'compile: %s' % cache[ck]
            it.meta['compile_kind'] = type(cache[ck]).__name__
            keep.append(it)          # let prepare() record the skip reason
            continue
        try:
            vm = svm.VM(sasm.Program(cache[ck], it.args), max_steps=max_steps * limit_factor + 1, full_cycle=False).run()
            it.meta['svm_steps'] = vm.steps
            it.meta['svm_status'] = vm.status
            if vm.status == 'fuel':
                it.skip = 'too long for TLC (> %d machine steps)' % (max_steps * limit_factor)
        except sasm.AsmError as e:
            it.skip = 'asm: %s' % e
        except Exception as e:
            it.skip = 'svm: %r' % e
        keep.append(it)
    return keep


class _R:
    """what the parent needs of a tlc.Result"""
    def __init__(self, r):
        self.distinct, self.generated, self.wall, self.timed_out = r.distinct, r.generated, r.wall, r.timed_out
        self.broken = bool(r.errors) or r.timed_out        # TLC stopped early (out of memory, killed): verdicts may be missing


def _batch_job(chunk, w, monitors, max_level, timeout, max_alloc, workers):
    before = [set(it.meta) for it in chunk]
    r = runner.run_refine(chunk, w=w, monitors=monitors, max_level=max_level, timeout=timeout, max_alloc=max_alloc,
                          workers=workers, heap='8g')
    back = [(it.skip, it.result, it.meta.get('features'), {k: v for k, v in it.meta.items() if k not in b and k != 'features'})
            for it, b in zip(chunk, before)]
    return (None if r is None else _R(r)), back


def run(items, stats, monitors=True, max_level=9000, batch=400, timeout=900, max_alloc=256, _retry=True):
    """Run items through Refine in batches per word size.  Fills it.result / it.skip and stats."""
    by_w = collections.defaultdict(list)
    for it in items:
        if it.skip:
            stats.skipped[it.skip.split(':')[0]] += 1
            continue
        by_w[it.w].append(it)
    chunks = [(w, its[i:i + batch]) for w, its in sorted(by_w.items()) for i in range(0, len(its), batch)]
    # several TLC processes side by side (the compiler/translator part of a batch is serialised by runner.PREP_LOCK):
    # start-up, parsing and the evaluation of the batch constants of one batch overlap with the search of another
    par = max(1, min(int(os.environ.get('HV_PAR', '3')), len(chunks)))
    workers = max(4, common.NPROC // par)
    import concurrent.futures, multiprocessing
    if par == 1:
        results = [_batch_job(chunk, w, monitors, max_level, timeout, max_alloc, workers) for w, chunk in chunks]
    else:
        # one forked child per batch: it compiles, translates, exports, runs TLC and decodes the verdicts
        with concurrent.futures.ProcessPoolExecutor(max_workers=par, mp_context=multiprocessing.get_context('fork')) as pool:
            futs = [pool.submit(_batch_job, chunk, w, monitors, max_level, timeout, max_alloc, workers) for w, chunk in chunks]
            results = [f.result() for f in futs]
    for (w, chunk), (r, back) in zip(chunks, results):
        for it, (skip, result, feats, extra) in zip(chunk, back):
            it.skip, it.result = skip, result
            if feats is not None:
                it.meta['features'] = feats
            it.meta.update(extra)
    # a batch that TLC did not finish (out of memory on an oversubscribed machine, timeout): its unjudged cases get one
    # more chance in small batches, one at a time
    if _retry:
        again = [it for (w, chunk), (r, back) in zip(chunks, results) if r is not None and r.broken
                 for it in chunk if not it.skip and it.result is None]
        if again:
            stats.skipped['retried_after_incomplete_batch'] += len(again)
            sub = Stats()
            old_par = os.environ.get('HV_PAR')
            os.environ['HV_PAR'] = '1'
            try:
                run(again, sub, monitors=monitors, max_level=max_level, batch=100, timeout=timeout, max_alloc=max_alloc, _retry=False)
            finally:
                if old_par is None:
                    os.environ.pop('HV_PAR', None)
                else:
                    os.environ['HV_PAR'] = old_par
            stats.batches += sub.batches
            stats.states += sub.states
            stats.transitions += sub.transitions
            stats.tlc_wall += sub.tlc_wall
    for (w, chunk), (r, back) in zip(chunks, results):
        if True:
            if r is None:
                for it in chunk:
                    if it.skip:
                        stats.skipped[it.skip.split(':')[0]] += 1
                continue
            stats.batches += 1
            stats.states += r.distinct
            stats.transitions += r.generated
            stats.tlc_wall += r.wall
            if r.timed_out:
                stats.skipped['tlc_timeout_batches'] += 1
            for it in chunk:
                if it.skip:
                    stats.skipped[it.skip.split(':')[0]] += 1
                    continue
                if it.result is None:
                    stats.classes['out_of_fuel'] += 1
                    continue
                stats.cases += 1
                stats.classes[it.result['cls']] += 1
                stats.programs.add(hash(it.src))
                for f in it.meta.get('features', ()):
                    stats.features[f] += 1
                if monitors and it.meta.get('guard_labels'):
                    stats.features['stack_guards_tracked_by_GuardCovers'] += it.meta['guard_labels']
                if len(stats.samples) < 6 and it.result['cls'] == 'agree':
                    stats.samples.append({'source': it.src[:600], 'args': it.args, 'w': it.w, 's': it.s,
                                          'unchecked': it.unchecked, 'machine_steps': it.result['level'],
                                          'observable': show(it.result['mobs'])})


def show(obs):
    if obs is None:
        return None
    ev, end = obs
    s = ''.join((chr(v) if 32 <= v < 127 else '\\x%02x' % v) if k == 'y' else '<%s>' % v if k == 'f' else '<sleep %s>' % v
                for k, v in ev)
    return [s, end]


def violations(prop, items, allow_exhausted=False, family_of=None):
    """Translate Refine results into Violation objects.  Every anomaly kind is a violation of the property
    under check (the monitors are conjuncts of every run-time property, DESIGN 5/C03)."""
    out = []
    for it in items:
        x = it.result
        if it.skip or x is None:
            continue
        kinds = []
        if x['halted']:
            kinds.append('real_halt')
        if x['fault']:
            kinds.append('machine_fault')
        if x['alarm']:
            kinds.append('monitor:' + x['alarm'])
        if x['cls'] == 'differ':
            kinds.append('differ')
        if x['cls'] in ('exhausted_prefix', 'exhausted_other') and not allow_exhausted:
            kinds.append('unexpected_stack_overflow')
        elif x['cls'] == 'exhausted_other' and allow_exhausted == 'prefix':
            # C04 differential clause (programs without time travel): what was printed before the overflow must
            # be a prefix of what the source semantics prints
            kinds.append('overflow_output_not_a_prefix')
        if x['hst'] == 'halted' and not kinds:
            kinds.append('source_semantics_halts')
        for kd in kinds:
            fam = it.meta.get('family', '')
            out.append(common.Violation(prop, '%s in %s args=%s w=%d s=%d%s' % (
                kd, fam or 'program', it.args, it.w, it.s, ' unchecked' if it.unchecked else ''),
                classifier=dict({'kind': kd, 'family': fam, 'w': it.w, 'unchecked': it.unchecked,
                                 'wraps': bool(x.get('wrap'))},
                                **it.meta.get('classifier', {})),
                detail={'source': it.src, 'args': it.args, 'w': it.w, 's': it.s, 'unchecked': it.unchecked,
                        'options': it.opt, 'machine_status': x['status'], 'source_status': x['hst'],
                        'class': x['cls'], 'alarm': x['alarm'], 'pc': x['pc'], 'level': x['level'],
                        'machine_observable': show(x['mobs']), 'source_observable': show(x['hobs']),
                        'features': it.meta.get('features')}))
    return out


ASSUME = ['Sphinx ISA as reconstructed (A1) - validated against the 52 upstream code generation tests',
          'assembler directive/expression syntax (A2)',
          'source IR derived from the front end\'s typed tree (the front end is judged by C06/C07/C11/C12)',
          'TLC, SANY, CommunityModules']


MUST_FINISH = ('tt_', 'exit_', 'misc_', 'eval_order', 'computed_casts', 'fold:', 'fault:', 'op:', 'write_bool', 'write_string',
               'write_int_constants', 'write_byte', 'write_empty_arrays', 'write_long_string', 'expr_trees', 'bool_structure')


def _must_finish(it):
    f = it.meta.get('family', '')
    return f.startswith(MUST_FINISH) and not f.endswith(':unchecked') and 'vla_len' not in f and not it.meta.get('allow_exhausted')


def standard(prop, tier, seed, items, rule, t0, kinds=None, allow_exhausted=False, presize_limit=None, max_level=None,
             extra_violations=(), extra_cov=None, monitors=True, postfilter=None, assumptions=()):
    """Common tail of the run-time checks: size, run under TLC, judge, write evidence."""
    quick = tier == 'quick'
    presize_limit = presize_limit or (3000 if quick else 6000)
    max_level = max_level or (10000 if quick else 20000)
    items = presize(items, presize_limit)
    st = Stats()
    run(items, st, monitors=monitors, max_level=max_level, timeout=900 if quick else 3300)
    if st.cases == 0:
        raise common.Machinery('no case was judged (%s)' % dict(st.skipped))
    vs = []
    for it in items:
        one = violations(prop, [it], allow_exhausted=allow_exhausted or it.meta.get('allow_exhausted', False))
        vs += one
    if kinds is not None:
        vs = [v for v in vs if v.classifier['kind'] in kinds]
    # hand-written families finish within 3 000 machine steps on a correct tree (largest: 2 938).  One of their cases
    # that the fast VM cannot finish, or that TLC cuts at the fuel bound, is given to TLC alone with a bound ten times
    # that: still no terminal state = the compiled program does not terminate (or takes ten times longer) - a violation
    # of whatever run-time property is being checked, decided by TLC
    late = [it for it in items if _must_finish(it) and not it.unchecked and
            ((it.skip or '').startswith('too long') or (not it.skip and it.result is None))]
    for it in late[:6]:
        it.skip = None
        sub = Stats()
        old_par = os.environ.get('HV_PAR')
        os.environ['HV_PAR'] = '1'
        try:
            run([it], sub, monitors=monitors, max_level=30000, timeout=900, _retry=False)
        finally:
            os.environ.pop('HV_PAR', None) if old_par is None else os.environ.__setitem__('HV_PAR', old_par)
        if it.result is None:
            v = common.Violation(prop, 'no terminal state within 30000 machine steps in %s args=%s w=%d s=%d' % (it.meta.get('family'), it.args, it.w, it.s),
                                 classifier={'kind': 'no_terminal_state', 'family': it.meta.get('family', ''), 'w': it.w},
                                 detail={'source': it.src, 'args': it.args, 'w': it.w, 's': it.s, 'unchecked': it.unchecked, 'options': it.opt})
            if kinds is None or 'real_halt' not in kinds:
                vs.append(v)
        else:
            st.cases += 1
            st.classes[it.result['cls']] += 1
            one = violations(prop, [it], allow_exhausted=allow_exhausted or it.meta.get('allow_exhausted', False))
            vs += one if kinds is None else [v for v in one if v.classifier['kind'] in kinds]
    # output the assembler rejects, or an internal exception of the compiler, on a program of these families
    # (all well-typed by construction) is a violation in its own right: nothing can be "computed as the source says"
    seen_bad = set()
    for it in items:
        if it.skip and (it.skip.startswith('asm:') or (it.skip.startswith('compile:') and 'Crashed' in it.meta.get('compile_kind', ''))):
            kd = 'not_assemblable' if it.skip.startswith('asm:') else 'compiler_crash'
            key = (kd, it.src, it.w, it.unchecked)
            if key in seen_bad or (kinds is not None and kd not in kinds and 'real_halt' in kinds):
                continue
            seen_bad.add(key)
            vs.append(common.Violation(prop, '%s: %s (w=%d%s)' % (kd, it.skip[:160], it.w, ' unchecked' if it.unchecked else ''),
                                       classifier={'kind': kd, 'family': it.meta.get('family', ''), 'w': it.w},
                                       detail={'source': it.src, 'args': it.args, 'w': it.w, 's': it.s, 'unchecked': it.unchecked,
                                               'error': it.skip}))
    if postfilter:
        vs = postfilter(vs, items)
    vs += list(extra_violations)
    cov = st.coverage(dict({'rule': rule, 'exhaustive': False}, **(extra_cov or {})))
    return common.finish(prop, tier, seed, 'model_checking', cov, vs, t0, list(ASSUME) + list(assumptions))


def replay_generic(prop, path):
    """Re-run the single case of a replay file under TLC and print the verdict (exit 1 if it still violates)."""
    import json
    with open(path) as f:
        d = json.load(f)
    x = d['detail']
    if 'source' not in x:
        print('replay file has no single program case: %s' % path)
        return 2
    it = runner.Item('replay', x['source'], x.get('args', []), w=x.get('w', 2), s=x.get('s', 500),
                     unchecked=x.get('unchecked', False), opt=x.get('options') or {})
    st = Stats()
    run([it], st, max_level=20000, timeout=1200)
    if it.skip or it.result is None:
        print('replay inconclusive: %s' % (it.skip or 'out of fuel'))
        return 2
    r = it.result
    print('class=%s machine=%s source=%s alarm=%r halted=%s fault=%s' % (r['cls'], r['status'], r['hst'], r['alarm'], r['halted'], r['fault']))
    print('machine observable:', show(r['mobs']))
    print('source  observable:', show(r['hobs'] or r['mobs']))
    vs = violations(prop, [it], allow_exhausted=True)
    for v in vs:
        print('VIOLATION property=%s replay=%s  # %s' % (prop, path, v.what))
    return 1 if vs else 0
