------------------------------- MODULE Lexer -------------------------------
(***************************************************************************)
(* Character-level maximal-munch tokenizer of "Halt is Defeat" (property   *)
(* C12), written as a state machine shaped like hidc/lexer:                *)
(*                                                                         *)
(*   lex()             hidc/lexer/__init__.py:14-36   -> InitAt, Step      *)
(*   SourceCode/Scanner hidc/lexer/scanner.py:5-96    -> pos, cur (the     *)
(*                     current line), line, col, At, Text, HasNextLine     *)
(*   skip_whitespace   hidc/lexer/readers.py:6-11     -> Skip* actions,    *)
(*                     one regex match + linebreak() per step              *)
(*   read_*_token      hidc/lexer/readers.py:55-151   -> Read* actions,    *)
(*                     one token (or the lexical error) per step           *)
(* Variables: the cursor (line, col), the text of the current line, the    *)
(* phase of lex()'s loop, the number of tokens produced and the event the  *)
(* last step produced (a token with kind, value and span; end of input;    *)
(* lexical error; dontcare).  LexerTrace compares these events with the    *)
(* recording of the real lexer; Lexer.cfg checks the machine's own         *)
(* properties (TypeOK, ReaderAgrees, SpanExact, CursorForward, Terminates).*)
(*                                                                         *)
(* A source text is a sequence of code points (integers).  A token value   *)
(* is a sequence of small integers (code points of a name, bytes of a      *)
(* string, base-256 little-endian limbs of an integer) so that nothing     *)
(* depends on TLC's 32-bit integers.                                       *)
(*                                                                         *)
(* RULES (R = README.rst "Language reference"; code = evident intent of    *)
(* the code where the README is silent; T = tests/test_lexer.py pins it)   *)
(*                                                                         *)
(* L1  lines   The text is cut into lines at LF (10) only; CR is ordinary  *)
(*             in-line whitespace.  No token spans lines.                  *)
(*             [code: SourceCode.from_string, scanner.py:16; T "\n" in a   *)
(*             string/char literal is an error]                            *)
(* L2  layout  Between tokens: whitespace (TAB LF VT FF CR SPACE) and      *)
(*             comments from "//" to the end of the line are skipped; the  *)
(*             end of input is reached when only layout remains.           *)
(*             [R examples use // comments; code: readers.py:6-11]         *)
(* L3  order   At a token start the readers are tried in the order symbol, *)
(*             identifier/keyword, integer, string, character; the first   *)
(*             that applies decides; if none applies: lexical error.       *)
(*             [code: __init__.py:15-36]                                   *)
(* L4  symbol  Longest match first: a two-character symbol                 *)
(*             == != <= >= ?? += -= *= /= %=  wins over a one-character    *)
(*             symbol  + - * / % < > = ; , . ( ) { } [ ]                   *)
(*             [R "Operators", "Augmented assignments"; code:              *)
(*             readers.py:142-151, tokens.py]                              *)
(* L5  ident   [A-Za-z_][A-Za-z0-9_]* maximal.  If the word is one of the  *)
(*             23 keywords (and break bool byte const continue else empty  *)
(*             false for if int is not or preempt return stop string true  *)
(*             try undo while) it is that keyword, else a plain identifier.*)
(*             [R "Operators", "Types", "Blocks and functions";            *)
(*             code: readers.py:117-131; T forever/for]                    *)
(* L6  flavour "@" / "!" (not followed by "=", see L4) must be followed    *)
(*             immediately by an identifier that is not a keyword: a YOU / *)
(*             DEFEAT identifier; anything else is a lexical error.        *)
(*             [R "@is_you", "!is_defeat"; code: readers.py:123-139;       *)
(*             T "@for", "!42" errors]                                     *)
(* L7  int     0x HEX, 0o OCT, 0b BIN or DEC, where the digit string is    *)
(*             D(_?D)* (single "_" separators strictly between digits),    *)
(*             taken maximal; prefix letters are lower case only.  When a  *)
(*             prefix is not followed by a digit of its base the literal   *)
(*             is the decimal "0" ("0x" = 0 then identifier x; "1_" = 1    *)
(*             then identifier _; "0b12" = 0b1 then 2).  The value is the  *)
(*             positional value in the base, separators ignored, unbounded.*)
(*             [R "5, 0xFF, 1_000"; code: readers.py:103-115;              *)
(*             T test_lex_int, test_weird_int]                             *)
(* L8  string  '"' ... '"' on one line.  Raw characters other than " and \ *)
(*             contribute their UTF-8 encoding; escapes per L10; a missing *)
(*             closing quote is a lexical error.                           *)
(*             [R "string - Nominally utf-8 encoded byte-string";          *)
(*             code: readers.py:86-100]                                    *)
(* L9  char    "'" then one escape (L10) or one raw character other than   *)
(*             "'", then "'".  The item must encode to exactly one byte:   *)
(*             that byte is the value; otherwise lexical error.  "''" and  *)
(*             an unclosed literal are errors.                             *)
(*             [R "Byte/character literals"; code: readers.py:55-83]       *)
(* L10 escape  \a \b \f \n \r \t \0 \' \" \\ = 7 8 12 10 13 9 0 39 34 92;  *)
(*             \xHH (exactly two hex digits) = that byte;                  *)
(*             \u{H+} (one or more hex digits) = UTF-8 of that code point; *)
(*             code points > 10FFFF and surrogates D800-DFFF (not          *)
(*             encodable) and every other "\" sequence: lexical error.     *)
(*             [R '\n', "\u{1F30E}"; code: readers.py:14-53;               *)
(*             T test_lex_string "HiD is strict about escape sequences"]   *)
(* L11 utf8    1/2/3/4-byte encodings with boundaries 80, 800, 10000.      *)
(* L12 span    A token's span is (line, col) of its first character and    *)
(*             (line, col) just past its last one, 0-based, col counted in *)
(*             code points: exactly the token text.                        *)
(*             [code: __init__.py:29-33, scanner.py Marker.advance]        *)
(* L13 error   A lexical error ends the token stream; the tokens before it *)
(*             stand.  [code: lex is a generator]                          *)
(*                                                                         *)
(* DONTCARE (exercised for totality only, never a verdict)                 *)
(* D1  Outside string/char literals and comments the documented language   *)
(*     is ASCII.  Python's \s \d \w also accept Unicode spaces, digits and *)
(*     letters and the separators 1C-1F.  Whenever a decision of the       *)
(*     machine would depend on such a character (a token start, the        *)
(*     character after an identifier or an integer or after "_" in an      *)
(*     integer, a hex-digit position of \xHH or \u{...}) the outcome is    *)
(*     "dontcare" from that point on (tokens before it stand).             *)
(* D2  A raw surrogate code point in a literal (not a Unicode scalar       *)
(*     value, cannot come from a UTF-8 file): dontcare.                    *)
(***************************************************************************)
EXTENDS Integers, Sequences, LexerData
(* LexerData supplies the source texts: NCases, TextLen(i), TextAt(i, p) = p-th code point (1-based) *)

VARIABLES inp,           \* which input is being lexed (constant along a behaviour)
          pos,           \* number of code points of the text before the current line
          cur,           \* the current line: a sequence of code points without its LF
          line, col,     \* Scanner cursor, 0-based
          phase,         \* "skip" (inside skip_whitespace) | "read" (at a token start) | "done"
          ntok,          \* number of tokens produced so far
          out            \* what the last step produced: none | tok | eof | error | dontcare
vars == <<inp, pos, cur, line, col, phase, ntok, out>>

-----------------------------------------------------------------------------
(* A note on style.  TLC evaluates operator arguments and LET definitions by name, i.e. again at
   every use; in a recursion that makes the work quadratic or worse (measured: 76 s instead of 4 s
   for one 1,300-character line).  Let1(x, F) evaluates x once (as the element of a singleton set)
   and applies F to the value; it is used wherever a computed position, accumulator or reader
   result is handed on.  Let1(x, LAMBDA v : e) means: LET v == x IN e. *)
Let1(x, F(_)) == CHOOSE r \in {F(v) : v \in {x}} : TRUE

(* L1: SourceCode.from_string cuts the text at LF only.  The machine holds one line at a time. *)

RECURSIVE LineStop(_, _)           \* 1-based position of the first LF at or after q, or TextLen + 1
LineStop(i, q) ==
    IF q > TextLen(i) THEN q
    ELSE IF TextAt(i, q) = 10 THEN q
    ELSE Let1(q + 1, LAMBDA x : LineStop(i, x))

(* the line that starts after p code points, as an explicit tuple *)
LineBetween(i, p, e) == SubSeq([k \in 1..(e - p - 1) |-> TextAt(i, p + k)], 1, e - p - 1)
LineAfter(i, p) == Let1(<<p, LineStop(i, p + 1)>>, LAMBDA t : LineBetween(i, t[1], t[2]))
HasNextLine     == pos + Len(cur) < TextLen(inp)       \* an LF follows the current line

(* Scanner primitives on one line L; columns are 0-based *)
EOL        == -1
At(L, c)   == IF c < Len(L) THEN L[c + 1] ELSE EOL
Text(L, c, e) == SubSeq(L, c + 1, e)        \* columns c .. e-1

-----------------------------------------------------------------------------
(* character classes (ASCII) *)
IsSpace(c)      == c \in {9, 10, 11, 12, 13, 32}
IsDigit(c)      == c \in 48..57
IsHexDigit(c)   == c \in 48..57 \/ c \in 65..70 \/ c \in 97..102
IsBaseDigit(c, b) == CASE b = 16 -> IsHexDigit(c)
                       [] b = 10 -> IsDigit(c)
                       [] b = 8  -> (c \in 48..55)
                       [] b = 2  -> (c \in 48..49)
IsIdentStart(c) == c \in 65..90 \/ c \in 97..122 \/ c = 95
IsIdentCont(c)  == IsIdentStart(c) \/ IsDigit(c)
DigitVal(c)     == IF c <= 57 THEN c - 48 ELSE IF c <= 70 THEN c - 55 ELSE c - 87
NonAscii(c)     == c > 127
Murky(c)        == c > 127 \/ c \in 28..31                    \* D1
IsSurrogate(c)  == c \in 55296..57343

(* L4 *)
Sym2 == { <<61, 61>>,   \* ==
          <<33, 61>>,   \* !=
          <<60, 61>>,   \* <=
          <<62, 61>>,   \* >=
          <<63, 63>>,   \* ??
          <<43, 61>>,   \* +=
          <<45, 61>>,   \* -=
          <<42, 61>>,   \* *=
          <<47, 61>>,   \* /=
          <<37, 61>> }  \* %=
Sym1 == { 43, 45, 42, 47, 37,        \* + - * / %
          60, 62, 61,                \* < > =
          59, 44, 46,                \* ; , .
          40, 41, 123, 125, 91, 93 } \* ( ) { } [ ]

(* L5 *)
Keywords == {
    <<97, 110, 100>>,                          \* and
    <<98, 111, 111, 108>>,                     \* bool
    <<98, 114, 101, 97, 107>>,                 \* break
    <<98, 121, 116, 101>>,                     \* byte
    <<99, 111, 110, 115, 116>>,                \* const
    <<99, 111, 110, 116, 105, 110, 117, 101>>, \* continue
    <<101, 108, 115, 101>>,                    \* else
    <<101, 109, 112, 116, 121>>,               \* empty
    <<102, 97, 108, 115, 101>>,                \* false
    <<102, 111, 114>>,                         \* for
    <<105, 102>>,                              \* if
    <<105, 110, 116>>,                         \* int
    <<105, 115>>,                              \* is
    <<110, 111, 116>>,                         \* not
    <<111, 114>>,                              \* or
    <<112, 114, 101, 101, 109, 112, 116>>,     \* preempt
    <<114, 101, 116, 117, 114, 110>>,          \* return
    <<115, 116, 111, 112>>,                    \* stop
    <<115, 116, 114, 105, 110, 103>>,          \* string
    <<116, 114, 117, 101>>,                    \* true
    <<116, 114, 121>>,                         \* try
    <<117, 110, 100, 111>>,                    \* undo
    <<119, 104, 105, 108, 101>> }              \* while

(* L10 *)
SimpleEscChars == {97, 98, 102, 110, 114, 116, 48, 39, 34, 92}
SimpleEscVal(c) == CASE c = 97  -> 7      \* \a
                     [] c = 98  -> 8      \* \b
                     [] c = 102 -> 12     \* \f
                     [] c = 110 -> 10     \* \n
                     [] c = 114 -> 13     \* \r
                     [] c = 116 -> 9      \* \t
                     [] c = 48  -> 0      \* \0
                     [] c = 39  -> 39     \* \'
                     [] c = 34  -> 34     \* \"
                     [] c = 92  -> 92     \* \\

(* L11 *)
Utf8(cp) ==
    IF cp < 128 THEN << cp >>
    ELSE IF cp < 2048 THEN << 192 + (cp \div 64), 128 + (cp % 64) >>
    ELSE IF cp < 65536 THEN << 224 + (cp \div 4096), 128 + ((cp \div 64) % 64), 128 + (cp % 64) >>
    ELSE << 240 + (cp \div 262144), 128 + ((cp \div 4096) % 64),
            128 + ((cp \div 64) % 64), 128 + (cp % 64) >>

-----------------------------------------------------------------------------
(* reader results; e = column just past the token *)
None         == [r |-> "none"]
Err          == [r |-> "err"]
DC           == [r |-> "dc"]
Tok(k, v, e) == [r |-> "tok", k |-> k, v |-> v, e |-> e]

(* L4: read_symbol_token *)
SymbolApplies(L, c) == << At(L, c), At(L, c + 1) >> \in Sym2 \/ At(L, c) \in Sym1

Symbol(L, c) ==
    IF << At(L, c), At(L, c + 1) >> \in Sym2 THEN Tok("sym", << At(L, c), At(L, c + 1) >>, c + 2)
    ELSE IF At(L, c) \in Sym1 THEN Tok("sym", << At(L, c) >>, c + 1)
    ELSE None

(* L5, L6: read_ident_or_keyword_token *)
IdentApplies(L, c) == At(L, c) \in {64, 33} \/ IsIdentStart(At(L, c))

RECURSIVE IdentEnd(_, _)
IdentEnd(L, c) == IF IsIdentCont(At(L, c)) THEN Let1(c + 1, LAMBDA d : IdentEnd(L, d)) ELSE c

IdentWord(L, s, e, flav) ==            \* the word in columns s .. e-1
    IF NonAscii(At(L, e)) THEN DC                                            \* D1
    ELSE IF Text(L, s, e) \in Keywords THEN (IF flav = "id" THEN Tok("kw", Text(L, s, e), e) ELSE Err)
    ELSE Tok(flav, Text(L, s, e), e)

IdentFrom(L, s, flav) ==               \* s = column where the base name must start
    IF ~IsIdentStart(At(L, s)) THEN (IF flav = "id" THEN None ELSE Err)
    ELSE Let1(IdentEnd(L, s + 1), LAMBDA e : IdentWord(L, s, e, flav))

IdentOrKeyword(L, c) ==
    IF At(L, c) = 64 THEN IdentFrom(L, c + 1, "you")            \* @
    ELSE IF At(L, c) = 33 THEN IdentFrom(L, c + 1, "defeat")    \* !
    ELSE IdentFrom(L, c, "id")

(* L7: read_int_token.  Values are base-256 little-endian limbs, no trailing zero limb *)
IntApplies(L, c) == IsDigit(At(L, c))

RECURSIVE MulAdd(_, _, _)              \* V * m + carry, for m <= 16 and carry <= 16
MulAdd(V, m, carry) ==
    IF V = << >> THEN (IF carry = 0 THEN << >> ELSE << carry >>)
    ELSE Let1(<< Head(V) * m + carry, Tail(V) >>,
              LAMBDA t : << t[1] % 256 >> \o MulAdd(t[2], m, t[1] \div 256))

RECURSIVE DigitsEnd(_, _, _)           \* c = column just past a digit of base b
DigitsEnd(L, c, b) ==
    IF IsBaseDigit(At(L, c), b) THEN Let1(c + 1, LAMBDA d : DigitsEnd(L, d, b))
    ELSE IF At(L, c) = 95 /\ IsBaseDigit(At(L, c + 1), b) THEN Let1(c + 2, LAMBDA d : DigitsEnd(L, d, b))
    ELSE c

RECURSIVE IntValue(_, _, _, _, _)      \* digits in columns c .. e-1, acc = value of the digits before c
IntValue(L, c, e, b, acc) ==
    IF c >= e THEN acc
    ELSE IF At(L, c) = 95 THEN Let1(c + 1, LAMBDA d : IntValue(L, d, e, b, acc))
    ELSE Let1(<< c + 1, MulAdd(acc, b, DigitVal(At(L, c))) >>, LAMBDA t : IntValue(L, t[1], e, b, t[2]))

IntDigits(L, s, e, b) ==               \* the digit string in columns s .. e-1
    IF NonAscii(At(L, e)) \/ (At(L, e) = 95 /\ NonAscii(At(L, e + 1))) THEN DC    \* D1
    ELSE Tok("int", IntValue(L, s, e, b, << >>), e)

IntFrom(L, s, b) ==                    \* s = column of the first digit
    Let1(DigitsEnd(L, s + 1, b), LAMBDA e : IntDigits(L, s, e, b))

IntLit(L, c) ==
    LET c0 == At(L, c)
        c1 == At(L, c + 1)
        c2 == At(L, c + 2)
        b  == IF c0 = 48 /\ c1 = 120 THEN 16         \* 0x
              ELSE IF c0 = 48 /\ c1 = 111 THEN 8     \* 0o
              ELSE IF c0 = 48 /\ c1 = 98 THEN 2      \* 0b
              ELSE 10
    IN  IF ~IsDigit(c0) THEN None
        ELSE IF b # 10 /\ NonAscii(c2) THEN DC                                           \* D1
        ELSE IF b # 10 /\ IsBaseDigit(c2, b) THEN IntFrom(L, c + 2, b)
        ELSE IntFrom(L, c, 10)

(* L10: read_escape_bytes; At(L, c) = "\" *)
EscOk(bytes, e) == [r |-> "ok", bytes |-> bytes, e |-> e]

RECURSIVE HexRunEnd(_, _)
HexRunEnd(L, c) == IF IsHexDigit(At(L, c)) THEN Let1(c + 1, LAMBDA d : HexRunEnd(L, d)) ELSE c

CpCap == 1114112                       \* 0x110000; everything from here up is invalid
RECURSIVE CodePoint(_, _, _, _)        \* saturating, so arbitrarily long digit strings stay in range
CodePoint(L, c, e, acc) ==
    IF c >= e THEN acc
    ELSE Let1(<< c + 1, acc * 16 + DigitVal(At(L, c)) >>,
              LAMBDA t : CodePoint(L, t[1], e, IF t[2] > CpCap THEN CpCap ELSE t[2]))

UnicodeEscape(L, c, e) ==              \* \u{ then hex digits up to column e
    IF NonAscii(At(L, e)) THEN DC                                                        \* D1
    ELSE IF e = c + 3 \/ At(L, e) # 125 THEN Err
    ELSE Let1(CodePoint(L, c + 3, e, 0),
              LAMBDA cp : IF cp >= CpCap \/ IsSurrogate(cp) THEN Err ELSE EscOk(Utf8(cp), e + 1))

Escape(L, c) ==
    LET n == At(L, c + 1)
    IN  IF n = 120 THEN                                         \* \xHH
            LET h1 == At(L, c + 2)
                h2 == At(L, c + 3)
            IN  IF IsHexDigit(h1) /\ IsHexDigit(h2)
                    THEN EscOk(<< 16 * DigitVal(h1) + DigitVal(h2) >>, c + 4)
                ELSE IF NonAscii(h1) \/ (IsHexDigit(h1) /\ NonAscii(h2)) THEN DC         \* D1
                ELSE Err
        ELSE IF n = 117 THEN                                    \* \u{H+}
            IF At(L, c + 2) # 123 THEN Err
            ELSE Let1(HexRunEnd(L, c + 3), LAMBDA e : UnicodeEscape(L, c, e))
        ELSE IF n \in SimpleEscChars THEN EscOk(<< SimpleEscVal(n) >>, c + 2)
        ELSE Err                                                \* includes "\" at end of line

(* L8: read_string_token; c = column just past the opening quote or past what was read so far *)
RECURSIVE StringBody(_, _, _)
StringAfterEscape(L, esc, acc) ==
    IF esc.r = "ok" THEN Let1(acc \o esc.bytes, LAMBDA a : StringBody(L, esc.e, a)) ELSE esc

StringBody(L, c, acc) ==
    IF At(L, c) = EOL THEN Err                                  \* unclosed
    ELSE IF At(L, c) = 34 THEN Tok("str", acc, c + 1)
    ELSE IF At(L, c) = 92 THEN Let1(Escape(L, c), LAMBDA esc : StringAfterEscape(L, esc, acc))
    ELSE IF IsSurrogate(At(L, c)) THEN DC                                                \* D2
    ELSE Let1(<< c + 1, acc \o Utf8(At(L, c)) >>, LAMBDA t : StringBody(L, t[1], t[2]))

StringLit(L, c) == IF At(L, c) = 34 THEN Let1(c + 1, LAMBDA d : StringBody(L, d, << >>)) ELSE None

(* L9: read_char_token *)
CharClose(L, bytes, e) ==
    IF At(L, e) # 39 THEN Err
    ELSE IF Len(bytes) # 1 THEN Err
    ELSE Tok("chr", bytes, e + 1)

CharAfterEscape(L, esc) == IF esc.r = "ok" THEN CharClose(L, esc.bytes, esc.e) ELSE esc

CharLit(L, c) ==
    IF At(L, c) # 39 THEN None
    ELSE LET n == At(L, c + 1)
         IN  IF n = 39 \/ n = EOL THEN Err
             ELSE IF n = 92 THEN Let1(Escape(L, c + 1), LAMBDA esc : CharAfterEscape(L, esc))
             ELSE IF IsSurrogate(n) THEN DC                                              \* D2
             ELSE CharClose(L, Utf8(n), c + 2)

(* L3: which reader decides at column c (each reader's result is "none" exactly when its cheap
   applicability test fails, so the order of the tests is the order of the readers) *)
Reader(L, c) ==
    IF SymbolApplies(L, c) THEN "symbol"
    ELSE IF IdentApplies(L, c) THEN "ident"
    ELSE IF IntApplies(L, c) THEN "int"
    ELSE IF At(L, c) = 34 THEN "string"
    ELSE IF At(L, c) = 39 THEN "char"
    ELSE "none"

(* L2: one match of the `ignore` pattern from column c *)
RECURSIVE SpaceEnd(_, _)
SpaceEnd(L, c) == IF IsSpace(At(L, c)) THEN Let1(c + 1, LAMBDA d : SpaceEnd(L, d)) ELSE c

IgnoreFrom(L, s) == IF At(L, s) = 47 /\ At(L, s + 1) = 47 THEN Len(L) ELSE s
IgnoreEnd(L, c)  == Let1(SpaceEnd(L, c), LAMBDA s : IgnoreFrom(L, s))

-----------------------------------------------------------------------------
(* the machine *)
NoOut    == [t |-> "none"]
EofOut   == [t |-> "eof"]
ErrorOut == [t |-> "error"]
DcOut    == [t |-> "dontcare"]

(* lex(): Scanner(source) starts at line 0, column 0 of input i *)
InitAt(i) == /\ inp = i
             /\ pos = 0
             /\ cur = LineAfter(i, 0)
             /\ line = 0 /\ col = 0
             /\ phase = "skip"
             /\ ntok = 0
             /\ out = NoOut

Init == \E i \in 1..NCases : InitAt(i)

Stop(o) == /\ phase' = "done"
           /\ out' = o
           /\ UNCHANGED <<inp, pos, cur, line, col, ntok>>

(* skip_whitespace: the line is exhausted and another follows -> Scanner.linebreak() *)
SkipLinebreak ==
    /\ phase = "skip"
    /\ IgnoreEnd(cur, col) >= Len(cur)
    /\ HasNextLine
    /\ pos' = pos + Len(cur) + 1
    /\ cur' = LineAfter(inp, pos + Len(cur) + 1)
    /\ line' = line + 1 /\ col' = 0
    /\ out' = NoOut
    /\ UNCHANGED <<inp, phase, ntok>>

(* skip_whitespace ends in front of a token *)
SkipToToken ==
    /\ phase = "skip"
    /\ \E s \in {IgnoreEnd(cur, col)} :
           /\ s < Len(cur)
           /\ ~Murky(At(cur, s))
           /\ col' = s
    /\ phase' = "read"
    /\ out' = NoOut
    /\ UNCHANGED <<inp, pos, cur, line, ntok>>

(* D1: the next significant character is outside the documented language *)
SkipToMurky ==
    /\ phase = "skip"
    /\ \E s \in {IgnoreEnd(cur, col)} : s < Len(cur) /\ Murky(At(cur, s))
    /\ Stop(DcOut)

(* `if not scan: return` *)
AtEnd ==
    /\ phase = "skip"
    /\ IgnoreEnd(cur, col) >= Len(cur)
    /\ ~HasNextLine
    /\ Stop(EofOut)

Emit(res) ==
    CASE res.r = "tok" ->
            (/\ out' = [t |-> "tok", k |-> res.k, v |-> res.v,
                        sl |-> line, sc |-> col, el |-> line, ec |-> res.e]       \* L12
             /\ col' = res.e
             /\ ntok' = ntok + 1
             /\ phase' = "skip"
             /\ UNCHANGED <<inp, pos, cur, line>>)
      [] res.r = "err" -> Stop(ErrorOut)                                            \* L13
      [] res.r = "dc"  -> Stop(DcOut)

ReadSymbol ==
    /\ phase = "read"
    /\ Reader(cur, col) = "symbol"
    /\ \E res \in {Symbol(cur, col)} : Emit(res)

ReadIdentOrKeyword ==
    /\ phase = "read"
    /\ Reader(cur, col) = "ident"
    /\ \E res \in {IdentOrKeyword(cur, col)} : Emit(res)

ReadInt ==
    /\ phase = "read"
    /\ Reader(cur, col) = "int"
    /\ \E res \in {IntLit(cur, col)} : Emit(res)

ReadString ==
    /\ phase = "read"
    /\ Reader(cur, col) = "string"
    /\ \E res \in {StringLit(cur, col)} : Emit(res)

ReadChar ==
    /\ phase = "read"
    /\ Reader(cur, col) = "char"
    /\ \E res \in {CharLit(cur, col)} : Emit(res)

(* no reader applies: LexerError.unhelpful *)
NoReader ==
    /\ phase = "read"
    /\ Reader(cur, col) = "none"
    /\ Stop(ErrorOut)

Done == phase = "done" /\ UNCHANGED vars

Step == \/ SkipLinebreak \/ SkipToToken \/ SkipToMurky \/ AtEnd
        \/ ReadSymbol \/ ReadIdentOrKeyword \/ ReadInt \/ ReadString \/ ReadChar \/ NoReader

Next == Step \/ Done

Spec == Init /\ [][Next]_vars /\ WF_vars(Step)

-----------------------------------------------------------------------------
(* properties of the machine itself (checked by LexerMC on small inputs) *)
TypeOK ==
    /\ inp \in 1..NCases
    /\ pos \in 0..TextLen(inp)
    /\ cur = LineAfter(inp, pos)
    /\ line \in Nat
    /\ col \in 0..Len(cur)
    /\ phase \in {"skip", "read", "done"}
    /\ ntok \in Nat
    /\ out.t \in {"none", "tok", "eof", "error", "dontcare"}

(* the cheap applicability tests agree with the readers (justifies Reader) *)
ReaderAgrees ==
    phase = "read" =>
        /\ SymbolApplies(cur, col) <=> (Symbol(cur, col).r # "none")
        /\ IdentApplies(cur, col) <=> (IdentOrKeyword(cur, col).r # "none")
        /\ IntApplies(cur, col) <=> (IntLit(cur, col).r # "none")

(* L12: a produced span is non-empty, inside one line, ends at the cursor, starts at a
   non-layout character, and for words is literally the value *)
SpanExact ==
    out.t = "tok" =>
        /\ out.sl = line /\ out.el = line
        /\ 0 <= out.sc /\ out.sc < out.ec /\ out.ec <= Len(cur)
        /\ out.ec = col
        /\ ~IsSpace(At(cur, out.sc))
        /\ (out.k \in {"sym", "kw", "id"}) => (out.v = Text(cur, out.sc, out.ec))
        /\ (out.k \in {"you", "defeat"}) => (out.v = Text(cur, out.sc + 1, out.ec))

(* the cursor only moves forward: every behaviour is finite *)
CursorForward ==
    [][ \/ line' > line
        \/ (line' = line /\ col' >= col) ]_vars

Terminates == <>(phase = "done")
=============================================================================
