"""C04 Checked builds are memory safe, even with the stack exactly full.  Decided by the SphinxRT monitors NoFault,
FrameInGap, GuardCovers, ElemInExtent, Unclassified, AbiWordsSafe, ApFpOrdered in every machine state, by the differential
clause on programs without time travel (for every stack size from generous down to below the minimum, the
observable is the source semantics' or a prefix of it followed by stack_overflow, error) and by the replay of
Tracker.tla into hidc.codegen.tracker.Tracker."""
import time
from hv import rt, fam_tt, fam_ops, families, tracker_replay, common

PROP = 'C04'


def main(tier, seed):
    t0 = time.time()
    quick = tier == 'quick'
    items = fam_tt.sweep_family(tier)
    items += [it for it in fam_ops.write_family(seed, 'quick', [2]) if 'tight' in it.meta['family']]
    items += [it for it in fam_ops.fault_family(seed, tier) if it.meta['family'].startswith(('fault:idx', 'fault:vla'))][::2 if quick else 1]
    from hv import fam_seq
    # every element of zero-initialised globals and of dynamic arrays is written: an extent that is too small shows as a
    # store outside it (ElemInExtent) or in what the neighbours then hold
    items += [it for it in fam_seq.misc(seed, tier) if it.key[1] in ('global_arrays_sized', 'vla_length_sources', 'zeros_over_used_stack')]
    # entry arrays with scalar parameters after them, written through their own length and probed one past the end; try/stop
    # with the defeat raised in callees that hold arrays, followed by fresh allocations (wave 10: both were missed without)
    items += fam_seq.entry_bounds(seed, tier)
    items += fam_tt.template_family(seed, tier, only=fam_tt.SCOPE_TEMPLATES)
    gen = families.generated(seed + 4, 25 if quick else 300, feat={'faults': 0.2}, inputs=2, family='gen4')
    items += gen
    # random programs at every stack size from their minimum down to several words below
    for it in gen[::5 if quick else 2]:
        m = families.min_stack(it.src, it.args)
        if m:
            # a guard that is too small by k bytes shows in a window of k bytes below the minimum (finding F11)
            for s in range(max(1, m - (6 if quick else 12)), m + 1):
                items.append(families.runner.Item(it.key + ('s', s), it.src, it.args, w=2, s=s,
                                                  meta=dict(it.meta, family=it.meta['family'] + ':tight', allow_exhausted='prefix')))
    tr = tracker_replay.run(tier, seed)
    extra = list(tr.get('violations', []))
    for v in extra:
        v.prop = PROP
    cov = {'tracker_sequences_replayed': tr.get('cases'), 'tracker_states': tr.get('states')}

    def post(vs, its):
        # exhausted_other (overflow whose prefix is not the source's prefix) is a violation for programs without time travel
        return vs
    return rt.standard(PROP, tier, seed, items,
                       'stack sweep (generous down to below the minimum) of programs with arrays of every element type, nested '
                       'calls in array literals, every library routine with the frame adjacent to a live array; index/length fault '
                       'sites with negative and huge values; random programs at and below their minimum stack; Tracker.tla replay',
                       t0, extra_violations=extra, extra_cov=cov)
