"""AsmText: what the compiler emits as string / character literals, unescaped by TLC (spec/AsmText.tla).

    pairs = asmtext.record_pairs(tier, seed)            # from the tree under test
    res = asmtext.run_trace(pairs)                      # TLC decides Unescape(text) = bytes per pair
    res = {'cases', 'accepted', 'rejected': [{'id', 'position', 'clause', 'text', 'want', 'got', 'origin'}],
           'states', 'transitions', 'tlc_wall_s', 'samples'}

A pair is a dict {'text': bytes between the quotes, 'want': bytes the compiler was asked to emit,
'quote': 34 | 39, 'char': bool, 'n': length prefix or -1, 'origin': str}.  `pairs_from_assembly` extracts
pairs from compiled output (`.word N` + `.ascii "..."` in the const section) for callers that know which
bytes each literal denotes (C13).  Command line:  python -m hv.asmtext [--tier quick|thorough] [--seed N]
"""
import argparse, os, random, re, sys, time

from . import common, tlc, sasm
from .driver_trace import prints

SPECIAL = [0x5c, 0x22, 0x27, 0x0a, 0x0d, 0x00, 0x20, 0x7e, 0x7f, 0x80, 0xff, 0x41]   # \ " ' \n \r \0 sp ~ DEL 80 ff A


def pair(text, want, quote=34, char=False, n=-1, origin=''):
    return {'text': bytes(text), 'want': bytes(want), 'quote': quote, 'char': char, 'n': n, 'origin': origin}


def _asm():
    common.use_repo()
    import hidc.codegen.asm as A
    return A


def _strip(line, prefix, q):
    """text between the delimiting quotes of `prefix"..."` (by position: first and last byte)"""
    assert line.startswith(prefix + q) and line.endswith(q) and len(line) >= len(prefix) + 2, line
    return line[len(prefix) + 1:-1]


def record_direct(datas, chars=range(256)):
    """pairs recorded from hidc.codegen.asm: _escape_bytes with both quotes, AsciiDirective lines, and
    character immediates IntLiteral(b, is_char=True)"""
    A = _asm()
    out = []
    for d in datas:
        out.append(pair(A._escape_bytes(d, b'"'), d, 34, origin='_escape_bytes(%r, dq)' % d))
        out.append(pair(A._escape_bytes(d, b"'"), d, 39, origin='_escape_bytes(%r, sq)' % d))
        lines = list(A.AsciiDirective(d).lines())
        if len(lines) == 1:
            out.append(pair(_strip(lines[0], b'.ascii ', b'"'), d, 34, origin='AsciiDirective(%r)' % d))
        else:
            # a directive split over several .ascii lines: every line must be well formed on its own (a cut inside
            # an escape leaves a dangling backslash), and the concatenation must denote the data
            inner = [_strip(l, b'.ascii ', b'"') for l in lines]
            for k, t in enumerate(inner):
                q = pair(t, b'', 34, origin='AsciiDirective(%r) line %d of %d' % (d, k + 1, len(inner)))
                q['wf_only'] = True
                out.append(q)
            out.append(pair(b''.join(inner), d, 34, origin='AsciiDirective(%r) all lines' % d))
    for b in chars:
        imm = bytes(A.IntLiteral(b, is_char=True))
        if imm.startswith(b"'"):
            out.append(pair(_strip(imm, b'', b"'"), bytes([b]), 39, char=True, origin='IntLiteral(%d, is_char)' % b))
    return out


_WORD = re.compile(rb'^\s*\.word (\d+)\s*$')


def pairs_from_assembly(lines, wants):
    """the i-th `.ascii` line of the const section paired with wants[i] (bytes), with its `.word N` prefix"""
    out = []
    k = 0
    prev = None
    for l in lines:
        t = l.strip()
        if t.startswith(b'.ascii '):
            n = -1
            m = _WORD.match(prev or b'')
            if m:
                n = int(m.group(1))
            if k < len(wants):
                out.append(pair(_strip(t, b'.ascii ', b'"'), wants[k], 34, n=n, origin='compiled .ascii #%d' % k))
            k += 1
        prev = l
    return out, k


REJECTED_PROGRAMS = []       # filled by record_compiled


def _hid_string(data):
    return '"' + ''.join('\\x%02x' % b for b in data) + '"'


def _hid_raw_string(data):
    """the literal spelled with the characters themselves wherever the language allows it (printable ASCII except quote
    and backslash, TAB, well-formed UTF-8), \\xHH otherwise: what the bytes are is known here, independently of the lexer"""
    try:
        text = data.decode('utf-8')
    except UnicodeDecodeError:
        return _hid_string(data)
    out = []
    for ch in text:
        o = ord(ch)
        if ch in '"\\' or (o < 32 and ch != '\t') or o == 127:
            out.append(''.join('\\x%02x' % b for b in ch.encode('utf-8')))
        else:
            out.append(ch)
    return '"' + ''.join(out) + '"'


RAW_DATAS = [b'\t', b'a\tb', b'\t\t', b' \t ', b'tab\tafter\ttwo', 'é'.encode(), '世界'.encode(), 'a é\t世 z'.encode(), b' ', b'~!#$%&()*+,-./:;<=>?@[]^_`{|}', b"it's", b'0123456789',
             '\U0001F30E'.encode(), 'x\u00a0y'.encode(), 'x\u2028y'.encode()]


def record_compiled(datas, render=None):
    """end to end: a program printing each string (written with \\xHH escapes), `.ascii` lines paired by order
    of first use"""
    from . import hidc_api
    out = []
    uniq = []
    for d in datas:
        if d not in uniq:
            uniq.append(d)
    for i in range(0, len(uniq), 40):
        part = uniq[i:i + 40]
        src = 'empty @is_you() {\n' + ''.join('    write(%s);\n' % (render or _hid_string)(d) for d in part) + '}\n'
        try:
            lines = hidc_api.compile_src(src)
        except (hidc_api.Rejected, hidc_api.Crashed) as e:
            # a program that only writes string literals spelled with \\xHH escapes is valid: the caller reports it
            REJECTED_PROGRAMS.append({'source': src, 'error': '%s: %s' % (type(e).__name__, e), 'bytes': [list(d) for d in part]})
            continue
        ps, k = pairs_from_assembly(lines, part)
        if k != len(part):
            # the compiler lays strings out differently (e.g. several .ascii lines per string): the pairing by
            # order is lost, the direct recordings above and the run-time families still judge the data
            continue
        out += ps
    return out


def record_pairs(tier='quick', seed=0):
    rng = random.Random(seed)
    singles = [bytes([b]) for b in range(256)]
    pairs2 = [bytes([a, b]) for a in SPECIAL for b in SPECIAL]
    rnd = []
    for _ in range(150 if tier == 'quick' else 1500):
        n = rng.choice([0, 1, 2, 3, 5, 8, 16, 40])
        if rng.random() < 0.5:
            rnd.append(bytes(rng.choice(SPECIAL + [0x78, 0x30, 0x6e]) for _ in range(n)))
        else:
            rnd.append(bytes(rng.randrange(256) for _ in range(n)))
    datas = [b''] + singles + pairs2 + rnd
    out = record_direct(datas)
    out += record_compiled(singles + pairs2 + rnd[:60 if tier == 'quick' else 400])
    # the same route with the characters written raw in the source: tabs, wide characters, punctuation
    out += record_compiled(RAW_DATAS + [bytes([b]) for b in range(32, 127)], render=_hid_raw_string)
    return out


def _seq(b):
    return '<<' + ','.join(str(x) for x in b) + '>>'


def run_trace(pairs, workdir=None, timeout=600, coverage=False):
    """TLC (spec/AsmText.tla) decides each pair.  Raises Machinery if TLC fails or a pair gets no verdict."""
    pairs = list(pairs)
    if not pairs:
        raise common.Machinery('no (text, bytes) pairs recorded')
    own = workdir is None
    d = common.scratch('hv_asmtext_') if own else workdir
    try:
        os.makedirs(d, exist_ok=True)
        body = ',\n'.join('[id|->%d, q|->%d, t|->%s, w|->%s, ch|->%s, n|->%s]' % (
            i, p['quote'], _seq(p['text']), _seq(p['want']), 'TRUE' if p['char'] else 'FALSE', tlc.tla(p['n']))
            for i, p in enumerate(pairs, 1))
        with open(os.path.join(d, 'AsmTextBatch.tla'), 'w') as f:
            f.write('---- MODULE AsmTextBatch ----\nEXTENDS Integers\nPairs == <<\n%s\n>>\n====\n' % body)
        with open(os.path.join(common.SPEC, 'AsmText.tla')) as f:
            spec = f.read()
        with open(os.path.join(d, 'AsmText.tla'), 'w') as f:
            f.write(spec)
        r = tlc.run(d, 'AsmText', cfg=os.path.join(common.SPEC, 'AsmText.cfg'), timeout=timeout, coverage=coverage,
                    tag='NOPRINTS')
        if not r.ok:
            raise common.Machinery('TLC failed on AsmText: %s\n%s' % (r.errors[:3], r.out[-1200:]))
        acc = set(int(x) for x in re.findall(r'<<\s*"AC",\s*(\d+)\s*>>', r.out))
        rej = {}
        for p in prints(r.out):
            if len(p) >= 5 and p[2] == 'REJECTED':
                rej[p[1]] = (p[3], p[4])
        res = {'cases': len(pairs), 'accepted': len(acc), 'rejected': [], 'states': r.distinct,
               'transitions': r.generated, 'tlc_wall_s': round(r.wall, 1),
               'action_counts': {k: v[1] for k, v in r.coverage.items()}}
        for i, p in enumerate(pairs, 1):
            if i in acc:
                continue
            if i not in rej:
                raise common.Machinery('pair %d got no verdict from TLC' % i)
            pos, clause = rej[i]
            try:          # display only: what hv.sasm makes of the text
                got = sasm.unescape(p['text'].decode('latin-1'))
            except sasm.AsmError as e:
                got = 'sasm: %s' % e
            res['rejected'].append({'id': i, 'position': pos, 'clause': clause, 'text': p['text'], 'want': p['want'],
                                    'got': got, 'quote': p['quote'], 'char': p['char'], 'origin': p['origin'],
                                    'has_backslash': 0x5c in p['want'], 'wf_only': bool(p.get('wf_only'))})
        res['samples'] = [{'text': repr(p['text']), 'want': repr(p['want']), 'origin': p['origin']}
                          for p in pairs[:2] + pairs[len(pairs) // 2:len(pairs) // 2 + 2]]
        return res
    finally:
        if own:
            common.rm(d)


def main(argv=None):
    ap = argparse.ArgumentParser(description='check the literals hidc emits against spec/AsmText.tla')
    ap.add_argument('--tier', default='quick', choices=['quick', 'thorough'])
    ap.add_argument('--seed', type=int, default=common.seed_from_env())
    ap.add_argument('--show', type=int, default=12)
    a = ap.parse_args(argv)
    t0 = time.time()
    pairs = record_pairs(a.tier, a.seed)
    res = run_trace(pairs, coverage=True)
    print('AsmText: %d pairs, %d accepted, %d rejected; TLC %d states / %d transitions in %.1fs (total %.1fs)' % (
        res['cases'], res['accepted'], len(res['rejected']), res['states'], res['transitions'], res['tlc_wall_s'],
        time.time() - t0))
    print('  rejected pairs whose wanted bytes contain no backslash: %d' % sum(
        1 for r in res['rejected'] if not r['has_backslash']))
    by = {}
    for r in res['rejected']:
        by.setdefault(r['clause'], []).append(r)
    for clause, rs in sorted(by.items()):
        print('  %s: %d' % (clause, len(rs)))
        for r in rs[:a.show]:
            print('    want %r  emitted %r  (position %d, unescaped so far %r)  %s' % (
                r['want'], r['text'], r['position'], r['got'], r['origin']))
    return 1 if res['rejected'] else 0


if __name__ == '__main__':
    common.main_wrapper(main)
