"""Input families for C10 / C18(a,d): corpus extraction, token-level mutation, random text and bytes,
pathological files, nesting, option grids.  Everything random is drawn from a seeded `random.Random`."""
import ast as pyast
import glob, os, random

from . import common
from .driver_soup import ALPHABET

EXTRA_TOKENS = ['const', 'byte', 'bool', 'string', 'if', 'else', 'while', 'for', 'break', 'continue', 'stop',
                'true', 'false', 'not', 'and', 'or', '-', '*', '/', '%', '<', '<=', '==', '!=', '-=', '*=',
                'length', 'writeln', 'write', '!is_defeat', '@all_is_win', '0', '255', '256', '65536',
                'print', 'println', 'printf', '"\\x00"', '"\\\\"', "'\\''", "'\\\\'", '0x', '1_', '@', '!', '"', "'", '\\', '#', '$', '/*']


# ---------------------------------------------------------------- corpus
def examples():
    out = []
    for p in sorted(glob.glob(os.path.join(common.REPO, 'examples', '*.hid'))):
        with open(p, encoding='utf-8') as f:
            out.append(('examples/' + os.path.basename(p), f.read()))
    return out


def _const_str(node, env):
    """evaluate a python AST node that denotes a source string (constants, `utils + "..."`, names bound to
    constants at module level); f-strings and anything else -> None"""
    if isinstance(node, pyast.Constant) and isinstance(node.value, str):
        return node.value
    if isinstance(node, pyast.Name) and node.id in env:
        return env[node.id]
    if isinstance(node, pyast.BinOp) and isinstance(node.op, pyast.Add):
        a, b = _const_str(node.left, env), _const_str(node.right, env)
        if a is not None and b is not None:
            return a + b
    return None


def extract_calls(path, funcs):
    """source strings passed as first argument to calls of the given function names in a test file.
    -> list of (label, source, function name)"""
    with open(path, encoding='utf-8') as f:
        tree = pyast.parse(f.read())
    env = {}
    for node in tree.body:
        if isinstance(node, pyast.Assign) and len(node.targets) == 1 and isinstance(node.targets[0], pyast.Name):
            v = _const_str(node.value, env)
            if v is not None:
                env[node.targets[0].id] = v
    out = []
    for node in pyast.walk(tree):
        if isinstance(node, pyast.Call) and isinstance(node.func, pyast.Name) and node.func.id in funcs and node.args:
            s = _const_str(node.args[0], env)
            if s is not None:
                out.append(('%s:%d' % (os.path.basename(path), node.lineno), s, node.func.id))
    return out


def codegen_programs():
    p = os.path.join(common.REPO, 'tests', 'test_codegen.py')
    return [(l, s) for l, s, _ in extract_calls(p, {'compile'})] if os.path.exists(p) else []


def typecheck_snippets():
    """every accepted and rejected snippet of tests/test_typecheck.py: (label, source, 'good'|'bad')"""
    p = os.path.join(common.REPO, 'tests', 'test_typecheck.py')
    if not os.path.exists(p):
        return []
    return [(l, s, 'good' if fn == 'assert_good' else 'bad')
            for l, s, fn in extract_calls(p, {'assert_good', 'assert_bad'})]


def generated_programs(rng, count=4):
    """programs with many globals / strings / functions / overloads (stress the order of tables)"""
    out = []
    for k in range(count):
        n = 12 + 6 * k
        names = ['v%d_%s' % (i, ''.join(rng.choice('abcxyz') for _ in range(3))) for i in range(n)]
        rng.shuffle(names)
        lines = []
        for i, nm in enumerate(names):
            kind = i % 4
            if kind == 0:
                lines.append('int %s = %d;' % (nm, rng.randrange(1000)))
            elif kind == 1:
                lines.append('const string %s = "s%s";' % (nm, nm))
            elif kind == 2:
                lines.append('byte[] %s = [%s];' % (nm, ', '.join(str(rng.randrange(256)) for _ in range(1 + i % 5))))
            else:
                lines.append('bool %s = %s;' % (nm, rng.choice(['true', 'false'])))
        fnames = ['f%d' % i for i in range(n // 2)]
        rng.shuffle(fnames)
        for fn in fnames:
            lines.append('empty %s(int a) { write("%s:i:"); writeln(a); }' % (fn, fn))
            lines.append('empty %s(byte a) { write("%s:b:"); writeln(a); }' % (fn, fn))
            lines.append('empty %s(string a) { write("%s:s:"); writeln(a); }' % (fn, fn))
            lines.append('empty %s(const int[] a) { write("%s:a:"); writeln(a.length); }' % (fn, fn))
            lines.append('empty !%s(int a) { if (a == %d) { !is_defeat(); } }' % (fn, rng.randrange(9)))
        body = []
        order = list(fnames)
        rng.shuffle(order)
        for fn in order:
            body.append('    %s(%d);' % (fn, rng.randrange(300, 999)))
            body.append("    %s('%s');" % (fn, rng.choice('abcdef')))
            body.append('    %s("lit_%s_%d");' % (fn, fn, rng.randrange(99)))
            body.append('    %s([%d, %d]);' % (fn, rng.randrange(9), rng.randrange(9)))
            body.append('    try { !%s(%d); } undo { writeln("u_%s"); }' % (fn, rng.randrange(9), fn))
        for i, nm in enumerate(names):
            if i % 4 in (0, 1, 3):
                body.append('    writeln(%s);' % nm)
            else:
                body.append('    writeln(%s.length);' % nm)
        lines.append('empty @is_you() {')
        lines += body
        lines.append('}')
        out.append(('generated_%d' % k, '\n'.join(lines) + '\n'))
    return out


# ---------------------------------------------------------------- token-level mutation
def tokenize(src):
    """token texts of a program (via the lexer of the tree under test; None if it does not lex)"""
    from . import driver_run
    H = driver_run.hidc()
    import hidc.lexer as L
    source = H['SourceCode'].from_string(src)
    toks = []
    try:
        for lx in L.lex(source):
            s, e = lx.span.start, lx.span.end
            if s.line != e.line:
                return None
            toks.append(source.lines[s.line][s.col:e.col])
    except Exception:
        return None
    return toks


def join_tokens(toks):
    out, line = [], []
    for t in toks:
        line.append(t)
        if t in (';', '{', '}'):
            out.append(' '.join(line))
            line = []
    if line:
        out.append(' '.join(line))
    return '\n'.join(out) + '\n'


def mutate(toks, rng, pool):
    """one seeded mutation: deletion, duplication, swap, replacement, insertion, truncation"""
    t = list(toks)
    if not t:
        return [rng.choice(pool)], 'insert'
    op = rng.choice(['delete', 'duplicate', 'swap_adjacent', 'swap_any', 'replace', 'replace', 'insert',
                     'truncate', 'delete_range'])
    i = rng.randrange(len(t))
    if op == 'delete':
        del t[i]
    elif op == 'duplicate':
        t.insert(i, t[i])
    elif op == 'swap_adjacent' and len(t) > 1:
        i = rng.randrange(len(t) - 1)
        t[i], t[i + 1] = t[i + 1], t[i]
    elif op == 'swap_any' and len(t) > 1:
        j = rng.randrange(len(t))
        t[i], t[j] = t[j], t[i]
    elif op == 'replace':
        t[i] = rng.choice(pool) if rng.random() < 0.7 else rng.choice(toks)
    elif op == 'insert':
        t.insert(i, rng.choice(pool))
    elif op == 'truncate':
        t = t[:i]
    elif op == 'delete_range':
        j = min(len(t), i + rng.randrange(1, 6))
        del t[i:j]
    return t, op


def mutants(label, src, rng, count):
    """-> list of (label, mutated source)"""
    toks = tokenize(src)
    if toks is None:
        return []
    pool = ALPHABET + EXTRA_TOKENS
    out = []
    for k in range(count):
        t, op = mutate(toks, rng, pool)
        if rng.random() < 0.25:
            t, op2 = mutate(t, rng, pool)
            op += '+' + op2
        out.append(('%s~%s#%d' % (label, op, k), join_tokens(t)))
    return out


# ---------------------------------------------------------------- random text / bytes / pathological files
TEXT_ALPHABET = list('abxyz_019 \n\t(){}[];,=+-*/%<>!@?.:"\'\\#&|~^') + ['é', '٣', '\x00', '\r', ' ', '𝒳']


def random_texts(rng, count):
    out = []
    for k in range(count):
        n = rng.choice([1, 2, 3, 5, 8, 13, 21, 40, 80])
        kind = rng.random()
        if kind < 0.5:
            s = ''.join(rng.choice(TEXT_ALPHABET) for _ in range(n))
        elif kind < 0.8:
            s = ' '.join(rng.choice(ALPHABET + EXTRA_TOKENS) for _ in range(n))
        else:
            s = 'empty @is_you() { ' + ' '.join(rng.choice(ALPHABET + EXTRA_TOKENS) for _ in range(n)) + ' }'
        out.append(('random_text#%d' % k, s))
    return out


def random_bytes(rng, count):
    out = []
    for k in range(count):
        n = rng.choice([1, 2, 4, 16, 64, 200])
        if rng.random() < 0.5:
            b = bytes(rng.randrange(256) for _ in range(n))
        else:   # mostly a program, a few corrupted bytes
            b = bytearray(b'empty @is_you() {\n    writeln("hello");\n}\n')
            for _ in range(rng.randrange(1, 4)):
                b[rng.randrange(len(b))] = rng.randrange(128, 256)
            b = bytes(b)
        out.append(('random_bytes#%d' % k, b))
    return out


def diagnostic_texts():
    """calls that match no function, under names near and far from the builtins (the diagnostics carry hints that are
    computed from the name), with literal / variable / array / no arguments"""
    names = ['print', 'println', 'printf', 'print_all', 'printline', 'prints', 'print_', 'writes', 'write_all', 'writeln2',
             'writel', 'puts', 'echo', 'len', 'length', 'main', 'exit', 'halt', 'defeat', 'is_defeat', 'truth_is_defeat',
             'all_is_win', 'all_is_broken', 'sleep', 'debug', 'progress', 'is_you', 'f', 'Write', 'WRITELN']
    out = []
    for n in names:
        for fl in ('', '!', '@'):
            for k, args in enumerate(('', '"x"', '3', 'v', 'arr', '3, "x"', 'true', "'c'", '[1, 2]')):
                body = 'int v = 1; int[] arr = [1, 2]; %s%s(%s);' % (fl, n, args)
                if fl == '!':
                    body = 'int v = 1; int[] arr = [1, 2]; try { !%s(%s); } undo { }' % (n, args)
                out.append(('diag_%s%s_%d' % (fl, n, k), 'empty @is_you() { %s }' % body))
        # a user function of that name exists, but not with these parameters
        out.append(('diag_user_%s' % n, 'empty %s(const int[] a) { }\nempty @is_you() { %s(3); }' % (n, n)))
        out.append(('diag_user2_%s' % n, 'int %s(int a, int b) { return a; }\nempty @is_you() { write(%s("s")); }' % (n, n)))
        out.append(('diag_value_%s' % n, 'empty @is_you() { int q = %s(2) + 1; write(q); }' % n))
    # global arrays whose constant length is negative, zero, huge or just inside the limits, referenced so that they are laid out
    for k, (decl, use) in enumerate((('int a[-1];', 'a[0] = 1;'), ('byte a[0 - 5];', 'write(a.length);'), ('bool a[-9];', 'a[0] = true;'), ('string a[-2];', 'write(a.length);'),
                                     ('int a[70000];', 'a[0] = 1;'), ('int a[32767];', 'a[0] = 1;'), ('int a[16384];', 'a[1] = 1;'), ('int a[0];', 'write(a.length);'),
                                     ('byte a[65536];', 'write(a.length);'), ('int a[-32768];', 'write(a.length);'), ('bool a[-1]; int b[2];', 'b[1] = 2; write(a.length);'),
                                     ('const int N = -3; int a[N];', 'write(a.length);'), ('int a[2 - 5];', 'write(a.length);'))):
        out.append(('diag_global_length_%d' % k, '%s\nempty @is_you() { %s }' % (decl, use)))
        out.append(('diag_local_length_%d' % k, 'empty @is_you() { %s %s }' % (decl, use)))
    return out


def special_texts():
    """empty file, no trailing newline, only comments, unterminated literals at end of file, odd line ends"""
    ok = 'empty @is_you() { writeln("hi"); }'
    return [
        ('empty_file', ''), ('only_newline', '\n'), ('only_spaces', '   \t  '), ('only_newlines', '\n\n\n'),
        ('no_trailing_newline', ok), ('trailing_newline', ok + '\n'), ('crlf', ok.replace(' ', '\r\n')),
        ('cr_only', ok + '\r'), ('only_comment', '// nothing'), ('only_comments', '// a\n// b\n'),
        ('comment_no_newline', ok + ' // trailing'), ('comment_then_eof_in_block', 'empty @is_you() { // x'),
        ('unterminated_string_eof', 'empty @is_you() { writeln("abc'),
        ('unterminated_string_eol', 'empty @is_you() { writeln("abc\n); }'),
        ('unterminated_char_eof', "empty @is_you() { write('"), ('unterminated_char2', "empty @is_you() { write('a"),
        ('backslash_eof_in_string', 'empty @is_you() { writeln("abc\\'),
        ('backslash_eof_in_char', "empty @is_you() { write('\\"),
        ('bad_hex_escape', 'empty @is_you() { writeln("\\xZZ"); }'), ('short_hex_escape', 'empty @is_you() { writeln("\\x1'),
        ('bad_unicode_escape', 'empty @is_you() { writeln("\\u{110000}"); }'),
        ('surrogate_escape', 'empty @is_you() { writeln("\\u{D800}"); }'),
        ('unclosed_unicode_escape', 'empty @is_you() { writeln("\\u{41'),
        ('huge_unicode_escape', 'empty @is_you() { writeln("\\u{' + 'F' * 40 + '}"); }'),
        ('unicode_escape_2_31', 'int x = "\\u{80000000}";'), ('unicode_escape_2_31_char', "byte b = '\\u{80000000}';"),
        ('unicode_escape_max_int', 'int x = "\\u{7FFFFFFF}";'),
        ('wide_char_literal', "empty @is_you() { write('é'); }"), ('empty_char', "empty @is_you() { write(''); }"),
        ('lone_at', '@'), ('lone_bang', '!'), ('flavor_keyword', 'empty @while() {}'), ('lone_quote', '"'),
        ('eof_after_type', 'int'), ('eof_after_name', 'int x'), ('eof_after_eq', 'int x ='),
        ('eof_in_params', 'empty @is_you('), ('eof_in_block', 'empty @is_you() {'), ('eof_in_call', 'empty @is_you() { f('),
        ('eof_in_index', 'empty @is_you() { int[] a = [1]; a['), ('eof_in_array', 'int[] a = [1, 2'),
        ('eof_after_try', 'empty @is_you() { try'), ('eof_after_undo', 'empty @is_you() { try {} undo'),
        ('stray_close', '}'), ('stray_closes', ')]}'), ('nul_byte', 'int x\x00= 1;'), ('form_feed', 'int x\x0c= 1;'),
        ('unicode_digit', 'int x = ٣;'), ('unicode_ident', 'int é = 1;'), ('bom', '﻿int x = 1;'),
        ('huge_int', 'int x = ' + '9' * 400 + ';'), ('huge_int_entry', 'empty @is_you() { writeln(' + '9' * 60 + '); }'),
        ('string_with_backslash', 'empty @is_you() { writeln("a\\\\x"); }'),
        ('char_backslash', "empty @is_you() { write('\\\\'); }"),
        ('string_element_assign', 'empty @is_you() { string s = "abc"; s[0] = \'x\'; }'),
        ('string_quote_bytes', 'empty @is_you() { writeln("q\\"q\\\'q"); write(\'"\'); write(\'\\\'\'); }'),
        ('string_all_escapes', 'empty @is_you() { writeln("\\a\\b\\f\\n\\r\\t\\0\\x7f\\x80\\xff\\u{e9}"); }'),
        ('long_line', 'empty @is_you() { ' + 'writeln(1); ' * 300 + '}'),
        ('many_lines', 'empty @is_you() {\n' + 'writeln(1);\n' * 300 + '}\n'),
    ]


def edge_texts():
    """small programs at the edges of constant folding, literals, entry points and assignment targets"""
    body = [
        'int x = 1 % 0;', 'int x = 1 / 0;', 'writeln(5 % 0);', 'int a[-3];', 'int a[0];', 'bool b[-7];', 'bool[] b = [];',
        'int[] a = [];', 'write();', 'writeln(1, 2);', 'string s = "a" + "b";', 'writeln("abc"[5]);', 'writeln("abc"[-1]);',
        'writeln([1,2,3][7]);', 'writeln("abc".length);', 'writeln([1,2].length);', 'int x = (1 ?? 2) ?? 3;',
        'int x = 99999999999999999999; writeln(x);', 'byte b = 300;', 'byte b = -1;', "write('a' + 'b');",
        'int[] a = [1]; a = [2];', 'const int[] a = [1]; a[0] = 2;', 'string s = "abc"; s = "d"; writeln(s);',
        'string[] ss = ["a", "b"]; ss[0] = "c"; writeln(ss[0]);', 'bool[] b = [true]; b[0] = false;',
        'string s = "abc"; s[0] += 1;', '"abc"[0] = 1;', '[1,2][0] = 1;', 'g[0] = 5;', 'gs[0] = 5;', 'writeln(gc[0]);',
        'int x = 1; x = x ?? 2;', 'try { } undo { }', 'try { !is_defeat(); } stop { }', 'preempt { }', 'break;', 'continue;',
        'return 1;', 'while (true) { }', 'for (;;) { }', 'int x; writeln(x);', 'int x = x;', 'const int c; ', 'h();', 'h(1, 2);',
        'int is_you = 1;', 'writeln(true); writeln(not true); writeln(1 is bool);', 'writeln("" is bool);', 'writeln(1 is string);',
        'all_is_win();', 'all_is_broken();', '!is_defeat();', '@is_you();', 'int write = 3; write(write);',
    ]
    pre = 'int[] g = [1,2];\nstring gs = "ab";\nconst string gc = "ab";\nint h(int a) { return a; }\n'
    out = [('edge_%d' % i, pre + 'empty @is_you() {\n    %s\n}\n' % b) for i, b in enumerate(body)]
    out += [('edge_entry_%d' % i, 'empty @is_you(%s) { }\n' % ps) for i, ps in enumerate([
        'bool b', 'bool[] b', 'string s, string t', 'string[] a', 'const string[] a, int[] b', 'int a, int a', 'const int a',
        'int[] a, byte b, string s', 'byte[] a', 'const byte[] a', 'empty e'])]
    out += [('edge_global_%d' % i, g + '\nempty @is_you() { }\n') for i, g in enumerate([
        'int x = y; int y = 1;', 'int x = f(); int f() { return 1; }', 'int x = x;', 'string s = "a"; string t = s;',
        'int[] a = [1, 2]; int b = a[0];', 'const int c = 1 / 0;', 'int @x = 1;', 'int !x = 1;', 'empty f() {} empty f() {}',
        'int f(int a) { return a; } byte f(int a) { return 1; }', 'empty @f() { @f(); }', 'empty !f() { !f(); }',
        'int f() { while (true) { } }', 'int f() { all_is_win(); }', 'int f() { !is_defeat(); }'])]
    return out


def nested_texts(max_depth=30):
    """every nesting construct at depths 1, 2, 5, 10, 20, 30 (bounded: deeper inputs are out of scope)"""
    out = []
    for dpt in (1, 2, 5, 10, 20, max_depth):
        body = {
            'parens': 'int y = ' + '(' * dpt + '1' + ')' * dpt + ';',
            'parens_open': 'int y = ' + '(' * dpt + '1;',
            'blocks': '{' * dpt + ' writeln(1); ' + '}' * dpt,
            'blocks_open': '{' * dpt,
            'arrays_bad': 'int y = ' + '[' * dpt + '1' + ']' * dpt + ';',
            'index': 'int[] a = [0]; int y = ' + 'a[' * dpt + '0' + ']' * dpt + ';',
            'calls': 'int y = ' + 'h(' * dpt + '1' + ')' * dpt + ';',
            'unary': 'int y = ' + '-' * dpt + '1;',
            'unary_sp': 'int y = ' + '- ' * dpt + '1;',
            'nots': 'bool y = ' + 'not ' * dpt + 'true;',
            'binary_right': 'int y = ' + '1 + (' * dpt + '1' + ')' * dpt + ';',
            'binary_chain': 'int y = ' + '1 + ' * dpt + '1;',
            'casts': 'int y = 1' + ' is byte is int' * dpt + ';',
            'ifs': 'if (x == 0) { ' * dpt + 'writeln(1);' + ' }' * dpt,
            'else_chain': ''.join('if (x == %d) { writeln(%d); } else ' % (i, i) for i in range(dpt)) + '{ writeln(0); }',
            'whiles': 'while (x < 0) { ' * dpt + 'x += 1;' + ' }' * dpt,
            'fors': ''.join('for (int i%d = 0; i%d < 1; i%d += 1) { ' % (i, i, i) for i in range(dpt)) + 'x += 1;' + ' }' * dpt,
            'tries': 'try { ' * dpt + '!f();' + ' } undo { }' * dpt,
            'coalesce_parens': 'int y = ' + '(1 ?? ' * dpt + '2' + ')' * dpt + ';',
        }
        for name, b in body.items():
            out.append(('nest_%s_%d' % (name, dpt),
                        'empty !f() { }\nint h(int a) { return a; }\nempty @is_you() {\n    int x = 2;\n    %s\n}\n' % b))
        out.append(('nest_params_%d' % dpt, 'empty @is_you() { }\nempty g(' + ', '.join('int p%d' % i for i in range(dpt)) + ') { }\n'))
    return out


# ---------------------------------------------------------------- option grids
M_GRID = [8, 16, 24, 64, 12, 0, -8]
S_GRID = [-5, 0, 5, 500, 10 ** 9]

OPTION_PROGRAMS = [
    ('opt_hello', 'empty @is_you() {\n    writeln("Hello world!");\n}\n'),
    ('opt_mixed', '''int counter = 0;
const string greeting = "hi";
int fib(int n) { if (n < 2) { return n; } return fib(n - 1) + fib(n - 2); }
empty !check(int v) { if (v > 3) { !is_defeat(); } }
empty @is_you(int n, const string[] rest) {
    int[] a = [1, 2, 3];
    bool[] flags = [true, false, true];
    byte b = 'x';
    for (int i = 0; i < a.length; i += 1) { counter += a[i] * n; }
    try { !check(counter); writeln(greeting); } undo { writeln("undone"); }
    preempt { counter = 0; }
    writeln(fib(5) / (n + 1));
    writeln(rest.length);
    if (flags[1]) { return; }
    write(b);
}
'''),
    ('opt_unreachable', 'empty @is_you() {\n    writeln(1);\n    return;\n    writeln(2);\n}\n'),
    ('opt_error', 'empty @is_you() {\n    int x = "s";\n}\n'),
]
