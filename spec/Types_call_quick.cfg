\* C07: family "call", tier "quick" (see Types.tla sections 5-8 for what is enumerated)
CONSTANTS
    Tier = "quick"
    Family = "call"
SPECIFICATION Spec
INVARIANT TypeOK
