"""C02 try/undo, try/stop, preempt and ?? follow their time-travel semantics.
Decided by Refine.tla against HiDSem (explicit backtracking over a choice stack), with TryBalanced on."""
import time
from hv import rt, fam_tt, families, tt_mc, common

PROP = 'C02'


def main(tier, seed):
    t0 = time.time()
    quick = tier == 'quick'
    items = fam_tt.core_family(seed, tier)
    if quick:
        # keep the quick tier inside its budget: seeded slice of the enumerated core
        import random
        rnd = random.Random(seed)
        core1 = [it for it in items if it.meta['family'] == 'tt_core1']
        hist = [it for it in items if it.meta['family'] != 'tt_core1']
        rnd.shuffle(core1)
        rnd.shuffle(hist)
        items = core1[:280] + hist[:220]
    items += fam_tt.template_family(seed, tier)
    items += fam_tt.random_tt(seed, 30 if quick else 400)
    from hv import fam_seq
    items += [it for it in fam_seq.large_shapes() if it.key[1] == 'tt_odd']
    # the general program generator with time travel switched on: arbitrary typed expressions, arrays, strings, loops and
    # calls inside try bodies, defeat functions, handlers and `??` operands
    items += families.generated(seed, 70 if quick else 1500, {'tt': 0.8}, family='gentt', inputs=2 if quick else 3)
    if not quick:
        items += families.generated(seed + 1, 300, {'tt': 0.8}, family='gentt', w=3, inputs=2)
    from hv import fam_ops
    items += [it for it in fam_ops.fold_family([2]) if 'spec' in it.meta['family']]      # `??` with a constant operand, against its run-time twin
    items += families.examples(names={'max', 'factor', 'mergesort', 'optional_max', 'ouroboros'}, s=120)
    # the oracle itself: HiDSem's backtracking against the declarative semantics of TimeTravel.tla
    mc, nprog = tt_mc.run(2 if quick else 3, tier, timeout=900)
    if not mc.ok:
        raise common.Machinery('TimeTravel.tla model check failed: %s' % (mc.errors + mc.violated)[:3])
    return rt.standard(PROP, tier, seed, items,
                       'enumerated time-travel core (all try bodies up to a node bound over out/set/defeat/truth_is_defeat/'
                       'preempt/if/calls of plain, preemptive and recursive defeat functions; both handlers; histories of two '
                       '(thorough: three) consecutive tries); templates (exits from a try in a loop, return from try, preempt in '
                       'recursive defeat functions, ?? in every position, truth_is_defeat lowerings, the halting example, try in a '
                       'handler); seeded random time-travel programs; generated typed programs with time travel (hv/gen.py tt); shipped examples', t0,
                       extra_cov={'oracle_model_check': {'spec': 'TimeTravel.tla TTAgree', 'programs': nprog, 'states': mc.distinct}})
