----------------------------- MODULE LexerData -----------------------------
(***************************************************************************)
(* Inputs of the Lexer machine and recordings of the real lexer (C12).     *)
(*                                                                         *)
(* This file is both the default (three sample cases, so that Lexer.tla    *)
(* and LexerTrace.tla parse and run on their own) and the template of the  *)
(* module hv/checks/c12.py generates for every TLC run: it copies this     *)
(* text and replaces what stands between the BEGIN DATA / END DATA lines.  *)
(* The generated copy lies next to the root module of the run, where SANY  *)
(* looks first, so it shadows this one.  (Data are definitions of a module *)
(* that Lexer EXTENDS, not CONSTANTS overridden in a cfg: TLC evaluates a  *)
(* definition once, in module order, but re-evaluates an overridden        *)
(* constant at every reference.)                                           *)
(*                                                                         *)
(* TRANSPORT.  SANY spends ~10 us per token of a module, so a case is a     *)
(* string of base-64 digits 0-9 a-z A-Z - _ , cut into chunks of ChunkSize *)
(* digits (TLC's SubSeq on a string costs time proportional to its length, *)
(* so chunks are short): CasePacked[i] = << chunk_1, ..., chunk_c >>, and  *)
(* the digits of a case are                                                *)
(*    n(3)  cp_1(4) .. cp_n(4)  end(1)  base(4)  tok_1(11) .. tok_m(11)    *)
(*    n     number of code points of the input text, then the code points  *)
(*    end   0 the token generator finished, 1 LexerError raised after the  *)
(*          m tokens, 2 any other exception escaped                        *)
(*    base  0, or the index of another case that is the same token         *)
(*          sequence in another layout                                     *)
(*    tok   val(3) startLine(2) startCol(2) endLine(2) endCol(2)           *)
(*          val indexes CaseVals, whose entries are << kind, value >>;     *)
(*          a span field that does not fit 0..4094 is written as 4095      *)
(*    kind  1 keyword/symbol (value = its text)                            *)
(*          2 / 3 / 4 plain / YOU / DEFEAT identifier (value = base name)  *)
(*          5 integer (value = base-256 little-endian limbs)               *)
(*          6 string (value = bytes)   7 character (value = << byte >>)    *)
(*          0 something else                                               *)
(* CaseDigests = << <<name, digestBefore, digestAfter>>, ... >>: digests   *)
(* of the instruction streams the real compiler emitted for a program      *)
(* before and after a re-layout of its source.                             *)
(* CaseLogActions: print one line per step taken (small runs only).        *)
(*                                                                         *)
(* The sample: 1  x += 0x1F // c <LF> !go("h\u{e9}")                       *)
(*             2  '\n' @if          (lexical error after the character)    *)
(*             3  a followed by U+00E9 (dontcare D1)                       *)
(***************************************************************************)
EXTENDS Integers, Sequences, TLC

DigitTable ==
       ("0" :> 0) @@ ("1" :> 1) @@ ("2" :> 2) @@ ("3" :> 3) @@ ("4" :> 4) @@ ("5" :> 5) @@ ("6" :> 6) @@ ("7" :> 7)
    @@ ("8" :> 8) @@ ("9" :> 9) @@ ("a" :> 10) @@ ("b" :> 11) @@ ("c" :> 12) @@ ("d" :> 13) @@ ("e" :> 14) @@ ("f" :> 15)
    @@ ("g" :> 16) @@ ("h" :> 17) @@ ("i" :> 18) @@ ("j" :> 19) @@ ("k" :> 20) @@ ("l" :> 21) @@ ("m" :> 22) @@ ("n" :> 23)
    @@ ("o" :> 24) @@ ("p" :> 25) @@ ("q" :> 26) @@ ("r" :> 27) @@ ("s" :> 28) @@ ("t" :> 29) @@ ("u" :> 30) @@ ("v" :> 31)
    @@ ("w" :> 32) @@ ("x" :> 33) @@ ("y" :> 34) @@ ("z" :> 35) @@ ("A" :> 36) @@ ("B" :> 37) @@ ("C" :> 38) @@ ("D" :> 39)
    @@ ("E" :> 40) @@ ("F" :> 41) @@ ("G" :> 42) @@ ("H" :> 43) @@ ("I" :> 44) @@ ("J" :> 45) @@ ("K" :> 46) @@ ("L" :> 47)
    @@ ("M" :> 48) @@ ("N" :> 49) @@ ("O" :> 50) @@ ("P" :> 51) @@ ("Q" :> 52) @@ ("R" :> 53) @@ ("S" :> 54) @@ ("T" :> 55)
    @@ ("U" :> 56) @@ ("V" :> 57) @@ ("W" :> 58) @@ ("X" :> 59) @@ ("Y" :> 60) @@ ("Z" :> 61) @@ ("-" :> 62) @@ ("_" :> 63)

ChunkSize == 256

\* BEGIN DATA
CasePacked == <<
<<"00t001U000w000H000Z000w000M001U000N0016000w000L000L000w001z000a000x001D001L000E000y001E001s001R001X001B000V001Z000y000F0000000100000001002000200040030005000900401000103005010301040060104010d007010d010e">>,
<<"008000D001s001K000D000w0010001F001C1000000800000004">>,
<<"002001x003F0000000900000002">>
>>
CaseVals == <<
<<2,<<120>>>>,
<<1,<<43,61>>>>,
<<5,<<31>>>>,
<<4,<<103,111>>>>,
<<1,<<40>>>>,
<<6,<<104,195,169>>>>,
<<1,<<41>>>>,
<<7,<<10>>>>,
<<2,<<97,233>>>>
>>
CaseDigests == <<

>>
CaseLogActions == FALSE
\* END DATA

NCases == Len(CasePacked)

(* i = case; p = 1-based position of a digit in the case; w = number of digits *)
Dig(i, p) ==
    LET q == ((p - 1) % ChunkSize) + 1
    IN  DigitTable[SubSeq(CasePacked[i][((p - 1) \div ChunkSize) + 1], q, q)]
Num(i, p, w) ==
    CASE w = 1 -> Dig(i, p)
      [] w = 2 -> (Dig(i, p) * 64 + Dig(i, p + 1))
      [] w = 3 -> ((Dig(i, p) * 64 + Dig(i, p + 1)) * 64 + Dig(i, p + 2))
      [] w = 4 -> (((Dig(i, p) * 64 + Dig(i, p + 1)) * 64 + Dig(i, p + 2)) * 64 + Dig(i, p + 3))
NDigits(i) == ChunkSize * (Len(CasePacked[i]) - 1) + Len(CasePacked[i][Len(CasePacked[i])])

(* the source texts, read in place *)
TextLen(i)    == Num(i, 1, 3)
TextAt(i, p)  == Num(i, 4 * p, 4)          \* p-th code point, 1-based
=============================================================================
