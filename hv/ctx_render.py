"""C06: render a (nesting path, construct) case of spec/Context.tla as a complete HiD program.

Pure syntax: this module knows how each frame and construct is *written*, never whether it is allowed
(the verdict comes from TLC).  Every rendered program is well-formed apart from the placement under test
and is kept well typed where the language allows it (all expressions are `int`).

Layout choices (which handler keyword, braces or a bare block after a control block, padding
statements, which operator wraps an operand...) are drawn from a generator seeded by
(seed, path, construct), so a case always renders to the same text for the same seed.
"""
import random, zlib

BLOCK_FRAMES = {'blk', 'ifB', 'elseB', 'whileB', 'forB', 'tryB', 'undoH', 'stopH', 'preB'}
ENTRY_FRAMES = {'ifC', 'whileC', 'forI', 'forC', 'forS', 'retV', 'asgR', 'asgL', 'incR', 'declI', 'vlaL'}
EXPR_FRAMES = {'par', 'argO', 'argY', 'argD', 'idx', 'elem', 'op', 'qL', 'qR'}
ROOTS = {'fO', 'fY', 'fD', 'gInit', 'gLen'}
EXPR_CONSTRUCTS = {'lit', 'ocall', 'ycall', 'dcall', 'qq'}

HELPERS = {
    'f': 'int f() {return 1;}',
    'f2': 'int f2(int x) {return x;}',
    'f3': 'int f3(int a, int b) {return a + b;}',
    'g': 'int @g() {return 1;}',
    'g2': 'int @g2(int x) {return x;}',
    'h': 'int !h() {return 1;}',
    'h2': 'int !h2(int x) {return x;}',
}


class _R:
    def __init__(self, seed, path, construct):
        # the skeleton (everything but the leaf) depends on (seed, path) only, so all constructs placed at
        # the end of one path share it; in particular the neutral `lit` case validates the skeleton of
        # every case that is expected to be rejected
        self.rng = random.Random(zlib.crc32(repr((seed, path)).encode()))
        self.leaf = random.Random(zlib.crc32(repr((seed, path, construct)).encode()))
        self.used = set()
        self.glob = path[0] in ('gInit', 'gLen')

    def pick(self, *xs):
        return xs[self.rng.randrange(len(xs))]

    def lpick(self, *xs):
        return xs[self.leaf.randrange(len(xs))]

    # names that exist at the place we are writing
    def var(self):
        return 'gx' if self.glob else 'x'

    def arr(self):
        return 'garr' if self.glob else 'arr'

    def atom(self):
        return self.lpick('1', self.var(), '7', '0')


def _leaf_expr(r, k):
    if k == 'lit':
        return r.atom()
    if k == 'ocall':
        r.used.add('f')
        return 'f()'
    if k == 'ycall':
        if r.lpick(0, 1, 2, 3) == 0:
            return '@is_you()'          # the entry point is a you-function like any other (the placement rules are syntactic)
        r.used.add('g')
        return '@g()'
    if k == 'dcall':
        r.used.add('h')
        return '!h()'
    if k == 'qq':
        if r.glob:
            return r.lpick('1 ?? 2', 'gx ?? 1', 'gx + 1 ?? 0')
        v = r.lpick(0, 1, 2, 3)
        if v == 0:
            return 'x ?? 1'
        r.used.add('f')
        return ('f() ?? 2', 'x + 1 ?? f()', 'f() ?? f()')[v - 1]
    raise ValueError('construct %r cannot be written as an expression' % k)


def _expr(r, frames, k):
    """frames: remaining expression frames (outermost first)."""
    if not frames:
        return _leaf_expr(r, k)
    f, rest = frames[0], frames[1:]
    if f == 'op':
        # choose the operator before rendering the operand so the stream of choices is stable
        form = r.pick('-{}', '+{}', '{} + 1', '1 + {}', '2 * {}', '{} - ' + r.var(), '{} / 1', '{} % 5',
                      '3 - {}', '{} * ' + r.var())
        return form.format(_expr(r, rest, k))
    if f == 'qL':
        rhs = r.pick('1', r.var(), 'f()')
        if rhs == 'f()':
            r.used.add('f')
        return '%s ?? %s' % (_expr(r, rest, k), rhs)
    if f == 'qR':
        lhs = r.pick('1', r.var(), 'f()', r.var() + ' + 1')
        if lhs == 'f()':
            r.used.add('f')
        return '%s ?? %s' % (lhs, _expr(r, rest, k))
    inner = _expr(r, rest, k)
    if f == 'par':
        return '(%s)' % inner
    if f == 'argO':
        v = r.pick(0, 1, 2)
        if v == 0:
            r.used.add('f2')
            return 'f2(%s)' % inner
        r.used.add('f3')
        return ('f3(%s, 1)' if v == 1 else 'f3(2, %s)') % inner
    if f == 'argY':
        r.used.add('g2')
        return '@g2(%s)' % inner
    if f == 'argD':
        r.used.add('h2')
        return '!h2(%s)' % inner
    if f == 'idx':
        return '%s[%s]' % (r.arr(), inner)
    if f == 'elem':
        return r.pick('[%s, 2][0]', '[1, %s][1]', '[%s][0]', '[1, %s, 3][2]') % inner
    raise ValueError('not an expression frame: %r' % f)


def _pad(r):
    return r.pick('', '', '', 'x += 1; ', '; ', '{} ', 'x = x; ')


def _body(r, item, is_block):
    """What follows a control keyword: a braced block, or the bare block statement itself."""
    bare = r.rng.random() < 0.35            # always drawn: the skeleton stream must not depend on the leaf
    before, after = _pad(r), _pad(r)
    if is_block and bare:
        return item
    return '{ %s%s %s}' % (before, item, after)


def _leaf_stmt(r, k):
    """-> (text, is_block_statement)"""
    if k == 'lit':
        return r.lpick('x += 1;', 'x = 2;', 'x = x;'), False
    if k in EXPR_CONSTRUCTS:
        return _leaf_expr(r, k) + ';', False
    if k == 'isdef':
        return '!is_defeat();', False
    if k == 'try':
        return r.lpick('try {} undo {}', 'try {} stop {}', 'try { x += 1; } undo { x = 0; }',
                      'try { x += 1; } stop { }'), True
    if k == 'preempt':
        return r.lpick('preempt {}', 'preempt { x += 1; }', 'preempt { return x; }'), True
    if k == 'break':
        return 'break;', False
    if k == 'continue':
        return 'continue;', False
    if k == 'return':
        return r.lpick('return 1;', 'return x;', 'return x + 1;'), False
    raise ValueError('unknown construct %r' % k)


def _entry(r, f, e, d):
    """A statement hosting the full expression e.  -> (text, is_block_statement)"""
    if f == 'ifC':
        c = r.pick('%s != 0', '%s > 0 and true', 'false or %s == 1', '%s < 2 and not false', '%s >= x')
        tail = r.pick('{}', '{ x += 1; }', '{} else {}')
        return 'if (%s) %s' % (c % e, tail), True
    if f == 'whileC':
        c = r.pick('%s < 0', '%s != x and false', 'x > 9 or %s == 3')
        return 'while (%s) {}' % (c % e), True
    if f == 'forI':
        init = r.pick('int i%d = %s' % (d, e), 'x = %s' % e, '%s' % e, 'x += %s' % e)
        return 'for (%s; x < 2; x += 1) {}' % init, True
    if f == 'forC':
        return r.pick('for (; %s < 2;) {}', 'for (x = 0; x < %s; x += 1) {}', 'for (;%s != 0;) { x += 1; }') % e, True
    if f == 'forS':
        step = r.pick('x = %s', 'x += %s', '%s', 'x *= %s') % e
        return r.pick('for (;; %s) {}', 'for (x = 0; x < 2; %s) {}') % step, True
    if f == 'retV':
        return 'return %s;' % e, False
    if f == 'asgR':
        return 'x = %s;' % e, False
    if f == 'asgL':
        return 'arr[%s] = 1;' % e, False
    if f == 'incR':
        return 'x %s %s;' % (r.pick('+=', '-=', '*=', '/=', '%='), e), False
    if f == 'declI':
        return 'int v%d = %s;' % (d, e), False
    if f == 'vlaL':
        return 'int v%d[%s];' % (d, e), False
    raise ValueError('not an entry frame: %r' % f)


def _stmt(r, frames, k, d):
    """frames: remaining frames below a block position.  -> (text, is_block_statement)"""
    if not frames:
        return _leaf_stmt(r, k)
    f, rest = frames[0], frames[1:]
    if f in ENTRY_FRAMES:
        return _entry(r, f, _expr(r, rest, k), d)
    if f not in BLOCK_FRAMES:
        raise ValueError('frame %r cannot follow a block position' % f)
    # layout choices first, then the child
    handler = r.pick('undo', 'stop')
    loop = r.pick(0, 1, 2)
    tail = r.pick('', '', ' else {}')
    item, is_block = _stmt(r, rest, k, d + 1)
    body = _body(r, item, is_block)
    if f == 'blk':
        return '{ %s%s %s}' % (_pad(r), item, _pad(r)), True
    if f == 'ifB':
        return 'if (x > %d) %s%s' % (d, body, tail), True
    if f == 'elseB':
        return 'if (x > %d) {} else %s' % (d, body), True
    if f == 'whileB':
        return 'while (x < %d) %s' % (d + 3, body), True
    if f == 'forB':
        head = ('for (int i%d = 0; i%d < 2; i%d += 1)' % (d, d, d), 'for (;;)', 'for (x = 0; x < 3; x += 1)')[loop]
        return '%s %s' % (head, body), True
    if f == 'tryB':
        return 'try %s %s {}' % (body, handler), True
    if f == 'undoH':
        return 'try {} undo %s' % body, True
    if f == 'stopH':
        return 'try { x += 1; } stop %s' % body, True
    if f == 'preB':
        return 'preempt %s' % body, True
    raise ValueError(f)


def render(path, construct, seed=0):
    """-> source text of the program for the case (path, construct)."""
    path = tuple(path)
    r = _R(seed, path, construct)
    root, frames = path[0], path[1:]
    if root not in ROOTS:
        raise ValueError('path must start with a root frame: %r' % (path,))
    if r.glob:
        e = _expr(r, frames, construct)
        decl = 'int G = %s;' % e if root == 'gInit' else 'int GA[%s];' % e
        test = 'int gx = 2;\nconst int[] garr = [1, 2, 3];\n' + decl
    else:
        item, _ = _stmt(r, frames, construct, 1)
        name = {'fO': 't', 'fY': '@t', 'fD': '!t'}[root]
        test = 'int %s(int x) {\n    int arr[3];\n    %s%s\n    return x;\n}' % (name, _pad(r), item)
    helpers = [HELPERS[h] for h in sorted(r.used)]
    if r.rng.random() < 0.5:
        parts = helpers + [test]
    else:
        parts = [test] + helpers
    parts.append('empty @is_you() {}')
    return '\n'.join(parts) + '\n'
