"""MANIFEST.setup_cmd: parse every specification with SANY so that a broken spec is a setup failure,
not a check failure.  Nothing is downloaded or cached."""
import glob, os, sys
from . import common, tlc


def main():
    bad = 0
    for path in sorted(glob.glob(os.path.join(common.SPEC, '*.tla'))):
        ok, out = tlc.sany(path)
        print('%-28s %s' % (os.path.basename(path), 'ok' if ok else 'FAILED'))
        if not ok:
            bad += 1
            print(out[-2000:])
    return 1 if bad else 0


if __name__ == '__main__':
    sys.exit(main())
