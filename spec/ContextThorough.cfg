\* C06: exhaustive enumeration of every nesting path with 4 frames below the root
CONSTANTS
    MaxDepth = 4
    Emit = TRUE
INIT Init
NEXT Next
INVARIANTS TypeOK FlagsMatchPath EmitLeaf
