"""Fast Sphinx VM (accelerator, DESIGN 4.4): same algorithm as spec/Sphinx.tla - choice stack, undo trail,
cycle detection at backward `j`.  It never decides a verdict; it selects and sizes cases for TLC and
produces replays."""
from .sasm import ARITH, HCOND


class Fault(Exception):
    pass


class VM:
    def __init__(self, prog, max_steps=2_000_000, full_cycle=True):
        self.p = prog
        self.W = prog.word
        self.bits = 8 * self.W
        self.mask = prog.wmask
        self.sign = 1 << (self.bits - 1)
        self.mem = bytearray(prog.state)
        self.const = bytes(prog.const)
        self.pc = 0
        self.trail = []
        self.choices = []
        self.out = []
        self.seen = {}
        self.seen_log = []
        self.steps = 0
        self.max_steps = max_steps
        self.status = None  # 'halt' | 'cycle' | 'fuel' | 'fault'
        self.fault = None
        self.full_cycle = full_cycle
        self.max_choices = 0

    def s(self, v):
        return v - (1 << self.bits) if v & self.sign else v

    def rdw(self, buf, a):
        if a < 0 or a + self.W > len(buf):
            raise Fault('read word oob %d' % a)
        return int.from_bytes(buf[a:a + self.W], 'little')

    def rdb(self, buf, a):
        if a < 0 or a >= len(buf):
            raise Fault('read byte oob %d' % a)
        return buf[a]

    def wr(self, a, v, n):
        if a < 0 or a + n > len(self.mem):
            raise Fault('write oob %d' % a)
        new = (v & ((1 << (8 * n)) - 1)).to_bytes(n, 'little')
        old = bytes(self.mem[a:a + n])
        if old != new:
            self.trail.append((a, old))
            self.mem[a:a + n] = new

    def val(self, o):
        k, x = o
        if k == 'i':
            return x
        if k == 's':
            return self.rdw(self.mem, x)
        return self.rdw(self.const, x)

    def backtrack(self):
        if not self.choices:
            self.status = 'halt'
            return
        target, tl, ol, sl = self.choices.pop()
        while len(self.trail) > tl:
            a, old = self.trail.pop()
            self.mem[a:a + len(old)] = old
        del self.out[ol:]
        while len(self.seen_log) > sl:
            del self.seen[self.seen_log.pop()]
        self.pc = target

    def cond(self, op, a, b):
        if not op.endswith('u'):
            a = self.s(a)
            b = self.s(b)
            c = op
        else:
            c = op[:-1]
        return {'heq': a == b, 'hne': a != b, 'hlt': a < b, 'hgt': a > b, 'hle': a <= b, 'hge': a >= b}[c]

    def arith(self, op, a, b):
        if op == 'add':
            r = a + b
        elif op == 'sub':
            r = a - b
        elif op == 'mul':
            r = a * b
        elif op == 'div':
            if self.s(b) == 0:
                raise Fault('div by zero')
            r = self.s(a) // self.s(b)
        elif op == 'mod':
            if self.s(b) == 0:
                raise Fault('mod by zero')
            r = self.s(a) % self.s(b)
        elif op == 'and':
            r = a & b
        elif op == 'or':
            r = a | b
        elif op == 'xor':
            r = a ^ b
        elif op == 'asl':
            r = a << min(b, self.bits)
        elif op == 'asr':
            r = self.s(a) >> min(b, self.bits)
        return r & self.mask

    def step(self):
        code = self.p.ops
        if not (0 <= self.pc < len(code)):
            raise Fault('pc out of code %d' % self.pc)
        ins = code[self.pc]
        op = ins[0]
        if op == 'j':
            target = self.val(ins[1])
            if target <= self.pc:
                key = (self.pc, bytes(self.mem)) if self.full_cycle else (self.pc, len(self.trail))
                if key in self.seen:
                    self.status = 'cycle'
                    return
                self.seen[key] = True
                self.seen_log.append(key)
            self.choices.append((target, len(self.trail), len(self.out), len(self.seen_log)))
            if len(self.choices) > self.max_choices:
                self.max_choices = len(self.choices)
            self.pc += 1
        elif op == 'halt':
            self.backtrack()
        elif op in HCOND:
            if self.cond(op, self.val(ins[1]), self.val(ins[2])):
                self.backtrack()
            else:
                self.pc += 1
        elif op == 'mov':
            self.wr(ins[1][1], self.val(ins[2]), self.W)
            self.pc += 1
        elif op in ARITH:
            self.wr(ins[1][1], self.arith(op, self.val(ins[2]), self.val(ins[3])), self.W)
            self.pc += 1
        elif op[0] == 'l':
            addr = self.val(ins[2])
            if op.endswith('o'):
                addr = (addr + self.val(ins[3])) & self.mask
            buf = self.mem if op[2] == 's' else self.const
            v = self.rdw(buf, addr) if op[1] == 'w' else self.rdb(buf, addr)
            self.wr(ins[1][1], v, self.W)
            self.pc += 1
        elif op[0] == 's' and op != 'sleep':
            addr = self.val(ins[1])
            if op.endswith('o'):
                addr = (addr + self.val(ins[2])) & self.mask
                v = self.val(ins[3])
            else:
                v = self.val(ins[2])
            self.wr(addr, v, self.W if op[1] == 'w' else 1)
            self.pc += 1
        elif op == 'yield':
            self.out.append(('y', self.val(ins[1]) & 0xFF))
            self.pc += 1
        elif op == 'sleep':
            self.out.append(('s', self.s(self.val(ins[1]))))
            self.pc += 1
        elif op == 'flag':
            self.out.append(('f', ins[1]))
            self.pc += 1
        else:
            raise Fault('unknown op ' + op)

    def run(self):
        while self.status is None:
            if self.steps >= self.max_steps:
                self.status = 'fuel'
                break
            self.steps += 1
            try:
                self.step()
            except Fault as e:
                self.status = 'fault'
                self.fault = str(e)
        return self

    def output(self):
        return bytes(v for k, v in self.out if k == 'y')

    def flags(self):
        return [v for k, v in self.out if k == 'f']

    def observable(self):
        return observable(self.out, self.status)


TERMINAL = ('win', 'error')


def observable(events, status):
    """Event list cut after the first terminal flag; sleeps of the terminal loop are not observable."""
    obs = []
    for k, v in events:
        obs.append((k, v))
        if k == 'f' and v in TERMINAL:
            return obs, 'ended'
    return obs, {'cycle': 'forever', 'halt': 'halted', 'fuel': 'fuel', 'fault': 'fault'}.get(status, status)


def run(lines, args=(), **kw):
    from .sasm import Program
    vm = VM(Program(lines, args), **kw)
    vm.run()
    return vm
