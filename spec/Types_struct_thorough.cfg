\* C07: family "struct", tier "thorough" (see Types.tla sections 5-8 for what is enumerated)
CONSTANTS
    Tier = "thorough"
    Family = "struct"
SPECIFICATION Spec
INVARIANT TypeOK
