\* C07: family "struct", tier "quick" (see Types.tla sections 5-8 for what is enumerated)
CONSTANTS
    Tier = "quick"
    Family = "struct"
SPECIFICATION Spec
INVARIANT TypeOK
