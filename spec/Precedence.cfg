\* Stand-alone run of the built-in batch (upstream parser tests + one example per rule).
SPECIFICATION TraceSpec
CONSTANTS
  Cases <- SelfCases
  Trees <- SelfTrees
  NChunks = 4
INVARIANT TypeOK
