"""C18 Builds are reproducible and options do not change meaning.
(a) byte-identical assembly across processes / hash seeds and (d) --lint rejects or leaves the code unchanged:
    Driver.tla trace validation of recorded digests (hv/repro.py);
(b) stack monotonicity: Refine.tla at a ladder of stack sizes - once a run completes without stack_overflow, every
    larger stack gives the source semantics' observable as well;
(c) word monotonicity: when the HiDSem run at W ends with its `wrap` history bit FALSE (no arithmetic result left
    the signed range) the observables TLC reports at W' > W equal the ones at W."""
import time, collections
from hv import rt, repro, families, fam_tt, runner, common

PROP = 'C18'


def main(tier, seed):
    t0 = time.time()
    quick = tier == 'quick'
    rp = repro.run(tier, seed)
    extra = list(rp.get('violations', []))
    for v in extra:
        v.prop = PROP
    # (b) stack ladder
    base = families.generated(seed + 8, 14 if quick else 120, inputs=1, family='gen8')
    base += fam_tt.random_tt(seed + 8, 6 if quick else 60)[::3]
    ladder = []
    for it in base:
        m = families.min_stack(it.src, it.args)
        if not m:
            continue
        for s in sorted({max(1, m - 2), m, m + 1, m + 7, 300}):
            ladder.append(runner.Item(it.key + ('S', s), it.src, it.args, w=2, s=s,
                                      meta=dict(it.meta, family=it.meta['family'] + ':ladder', allow_exhausted=True, ladder=(it.key, s))))
    # the largest stacks 16 bits allow: globals and the top of the stack then live at addresses around and above 2^15,
    # where signed and unsigned address arithmetic part
    HIGH = '''byte[] G = ['a', 'b', 'c', 'd', 'e', 'f']; int[] GI = [1, 2, 3]; string[] GS = ["x", "yz"]; bool[] GO = [true, false, true]; int gv = 5; byte gb = 'q';
empty bump(byte[] p) { p[0] += 1; }
empty @is_you(int n) { byte[] loc = ['l', 'm']; write(G); bump(G); writeln(G); for (int i = 0; i < GI.length; i += 1) { GI[i] += n; write(GI[i]); } write(GS[1]); GS[0] = "w"; write(GS[0]); write(GO[2]); GO[1] = true;
  write(GO[1]); gv += n; gb += 1; write(gv); write(gb); write(G[5]); write(loc); write(n); byte d[n]; for (int k = 0; k < n; k += 1) { d[k] = 'd'; } write(d); write("lit"); write(G is bool); }'''
    for sz in (60, 16300, 16370, 16376, 16378):
        ladder.append(runner.Item(('high', sz), HIGH, ['4'], w=2, s=sz,
                                  meta={'family': 'high_addresses:ladder', 'allow_exhausted': True, 'ladder': (('high',), sz)}))
    # (c) word ladder: the same text at W = 2 and at wider words
    words = []
    wsel = [3, 8] if quick else [3, 4, 8]
    wbase = families.generated(seed + 9, 22 if quick else 300, inputs=2, family='gen9', feat={'faults': 0.05})
    from hv import fam_seq
    wbase += [it for it in fam_seq.layout(seed, 'quick') if it.w == 2] + [it for it in fam_seq.misc(seed, 'quick') if it.w == 2]
    for it in wbase:
        words.append(it)
        for w in wsel:
            words.append(runner.Item(it.key + ('W', w), it.src, it.args, w=w, s=it.s, meta=dict(it.meta, wide_of=it.key)))
    # constants that need more than 16 bits: 24 bits is the narrow word, 32 and 64 the wide ones
    for it in fam_seq.wide_constants(ws=(3,)):
        words.append(it)
        for w in (4, 8):
            words.append(runner.Item(it.key + ('W', w), it.src, it.args, w=w, s=it.s, meta=dict(it.meta, wide_of=it.key)))
    items = ladder + words

    def post(vs, its):
        res = list(vs)
        # (b): completes at S  =>  completes identically at every S' > S
        groups = collections.defaultdict(list)
        for it in its:
            if 'ladder' in it.meta and it.result:
                groups[it.meta['ladder'][0]].append(it)
        for key, g in groups.items():
            g.sort(key=lambda it: it.s)
            done = None
            for it in g:
                c = it.result['cls']
                if c == 'agree':
                    done = done or it
                elif done is not None and c.startswith('exhausted'):
                    res.append(common.Violation(PROP, 'run completes at stack %d but overflows at larger stack %d' % (done.s, it.s),
                                                classifier={'kind': 'stack_not_monotone', 'family': it.meta['family']},
                                                detail={'source': it.src, 'args': it.args, 'small': done.s, 'large': it.s}))
        # (c)
        bykey = {it.key: it for it in its}
        for it in its:
            if 'wide_of' in it.meta and it.result:
                nar = bykey.get(it.meta['wide_of'])
                if not nar or not nar.result:
                    continue
                if nar.result['cls'] != 'agree' or it.result['cls'] != 'agree':
                    continue
                if nar.result['wrap'] or it.result['wrap']:
                    continue
                if 'literal_exceeds_word' in (nar.meta.get('features') or ()) or 'literal_exceeds_word' in (it.meta.get('features') or ()):
                    continue          # a (folded) constant of the text does not fit the narrower word
                if nar.result['mobs'] != it.result['mobs']:
                    res.append(common.Violation(PROP, 'no value wrapped at W=%d, yet the observable differs at W=%d' % (nar.w, it.w),
                                                classifier={'kind': 'word_not_monotone', 'family': it.meta['family'], 'w': it.w},
                                                detail={'source': it.src, 'args': it.args, 'narrow': rt.show(nar.result['mobs']),
                                                        'wide': rt.show(it.result['mobs'])}))
        return res
    cov = {'repro_cases': rp.get('cases'), 'repro_states': rp.get('states'), 'ladder_runs': len(ladder), 'word_runs': len(words)}
    return rt.standard(PROP, tier, seed, items,
                       '(a,d) corpus compiled in >= 4 processes with different PYTHONHASHSEED and with/without --lint, digests '
                       'validated by Driver.tla; (b) random programs at their minimum stack -2, +0, +1, +7 and 300 words; (c) random '
                       'programs at W=2 and wider words, compared when no arithmetic wrapped', t0,
                       extra_violations=extra, extra_cov=cov, postfilter=post)
