------------------------------ MODULE BatchData ------------------------------
(* Stand-in for the generated batch module (see hv/runner.py): an empty batch.  During a check a module *)
(* of the same name in the scratch directory of the run shadows this one.                                *)
(*   MCProgs    compiled programs: sequence of [code, rt, inits] (hv/export.py)                          *)
(*   MCSources  source programs in the HiDIR representation (hv/ir.py)                                   *)
(*   MCCases    one record per (source, input): [src, frame0, store0, g0, strs]                          *)
EXTENDS SphinxCode, HiDIR
MCProgs == <<>>
MCSources == <<>>
MCCases == <<>>
=============================================================================
