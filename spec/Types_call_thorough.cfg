\* C07: family "call", tier "thorough" (see Types.tla sections 5-8 for what is enumerated)
CONSTANTS
    Tier = "thorough"
    Family = "call"
SPECIFICATION Spec
INVARIANT TypeOK
