\* code -> spec: the generated root module (EXTENDS Precedence) defines BatchCases / BatchTrees.
SPECIFICATION TraceSpec
CONSTANTS
  Cases <- BatchCases
  Trees <- BatchTrees
  NChunks = 64
INVARIANT TypeOK
