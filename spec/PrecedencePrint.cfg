\* spec -> code: emit Unparse(tree) for every tree of the generated batch.
SPECIFICATION PrintSpec
CONSTANTS
  Cases <- BatchCases
  Trees <- BatchTrees
  NChunks = 64
