"""C03 Halt is defeat: a compiled program never halts.  NoRealHalt (spec/Sphinx.tla) is evaluated by TLC in
every machine state - speculative or committed - of every run; this check reports only real halts.
Checked builds on all inputs; unchecked builds only on inputs whose source-level run has no fault."""
import time
from hv import rt, fam_tt, families, oracle_mc, common

PROP = 'C03'
FAULTS = {'stack_overflow', 'division_by_zero', 'out_of_bounds', 'nonlocal_preempt'}


def main(tier, seed):
    t0 = time.time()
    quick = tier == 'quick'
    items = []
    items += fam_tt.template_family(seed, tier)
    items += fam_tt.exit_templates()
    from hv import fam_seq, fam_ops
    items += fam_seq.bool_structure(seed, tier)[::5 if quick else 4]      # every branch lowering re-checks its inverse condition
    items += [it for it in fam_ops.ops_family(seed, tier, [2]) if it.meta['family'].startswith(('op:cmp_int', 'op:log_', 'op:not'))][::4 if quick else 1]
    items += [it for it in fam_ops.write_family(seed, 'quick', [2]) if it.meta['family'] in ('write_empty_arrays', 'write_string', 'write_byte_array')][::1 if not quick else 3]     # library loops with zero iterations
    items += fam_tt.random_tt(seed + 3, 30 if quick else 300)
    core = fam_tt.core_family(seed + 1, tier)
    import random
    random.Random(seed).shuffle(core)
    items += core[:200 if quick else 2500]
    items += families.generated(seed + 3, 25 if quick else 400, feat={'faults': 0.2}, inputs=2, family='gen3')
    items += families.generated(seed + 5, 40 if quick else 500, feat={'tt': 0.8, 'faults': 0.1}, inputs=2, family='gentt3')
    items += families.examples(s=120, names={'hello', 'max', 'factor', 'optional_max', 'ouroboros', 'sat', 'mergesort'})
    # unchecked twins of a slice
    unch = []
    # (an unchecked build is only defined on inputs whose checked run raises no fault: the fast VM pre-selects them, so
    # that no time goes into runs that are discarded afterwards - a wild unchecked run can be very long)
    from hv import svm, sasm, runner as _runner, hidc_api
    def _fault_free(it):
        ck, lines = _runner.compile_cached(it)
        if isinstance(lines, Exception):
            return False
        try:
            vm = svm.VM(sasm.Program(lines, it.args), max_steps=8000, full_cycle=False).run()
            return vm.status != 'fuel' and not (set(vm.flags()) & FAULTS)
        except Exception:
            return False
    for it in [x for x in items[::6 if quick else 5] if _fault_free(x)]:
        unch.append(families.runner.Item(it.key + ('unchecked',), it.src, it.args, w=it.w, s=it.s, unchecked=True,
                                         meta=dict(it.meta, family=it.meta['family'] + ':unchecked')))
    items += unch

    def post(vs, its):
        keep = []
        byid = {id(it): it for it in its}
        for v in vs:
            keep.append(v)
        return keep
    # the machine model itself: Sphinx.tla's Turing jump against the declarative least fixed point
    mc, nprog = oracle_mc.run(3 if quick else 4, timeout=1500)
    if not mc.ok:
        raise common.Machinery('SphinxOracle.tla model check failed: %s' % (mc.errors + mc.violated)[:3])
    # unchecked + source-level fault = undefined behaviour: not judged
    def kinds_filter(vs, its):
        res = []
        src_faulted = {}
        for it in its:
            x = it.result
            if x and it.unchecked:
                ev = (x['hobs'] or x['mobs'])[0]
                src_faulted[(it.src, tuple(it.args))] = any(k == 'f' and v in FAULTS for k, v in ev)
        for v in vs:
            if v.classifier.get('unchecked') and src_faulted.get((v.detail['source'], tuple(v.detail['args']))):
                continue
            res.append(v)
        return res
    return rt.standard(PROP, tier, seed, items,
                       'NoRealHalt in every state of: time-travel templates and enumerated core, random time-travel programs, '
                       'random sequential programs with faults, shipped examples; checked and (where the source run is fault '
                       'free) unchecked builds', t0, kinds={'real_halt'}, postfilter=kinds_filter, allow_exhausted=True,
                       monitors=False,     # a monitor alarm ends a run: with the ABI monitors on, a run could stop before it reaches its halt

                       extra_cov={'machine_model_check': {'spec': 'SphinxOracle.tla OracleAgree', 'programs': nprog, 'states': mc.distinct}})
