"""Self-test of the Driver / AsmText / repro binding (CONVENTIONS "Showing the binding works").

    cd /verif && /venv/bin/python -m hv.checks.c10_selftest [--only NAME[,NAME]] [--pytest]

(a) source mutants on a scratch copy of the repository, each of which the relevant check must report
    (a reduced C10 run `mini`, hv.repro, hv.asmtext — run with HV_REPO=<copy> in a fresh interpreter);
(b) the repaired _escape_bytes must make AsmText silent (no false alarm once F4 is fixed);
(c) one field of a recorded trace / pair is corrupted and TLC must reject it, the untouched one is accepted.
The scratch copy is removed afterwards; /repo is never written.
"""
import argparse, json, os, shutil, subprocess, sys, time

from .. import common


def _sub(old, new, count=1):
    def f(text):
        if text.count(old) < 1:
            raise common.Machinery('mutation anchor not found: %r' % old[:60])
        return text.replace(old, new, count)
    return f


MAIN_OPEN_EARLY = _sub(
    """        code_gen = CodeGen(env, args.word_size // 8, args.stack_size, args.unchecked)
        with open(output, 'wb') as f:
""",
    """        with open(output, 'wb') as f:
            code_gen = CodeGen(env, args.word_size // 8, args.stack_size, args.unchecked)
""")

MUTANTS = [
    # name, file, edit, check, expected classifier kinds (any of)
    ('open_output_before_codegen', 'hidc/__main__.py', MAIN_OPEN_EARLY, 'c10',
     {'exit_nonzero_output_left', 'output_opened_before_codegen_succeeded'}),
    ('except_narrowed_to_ParserError', 'hidc/__main__.py',
     lambda t: _sub('from hidc.errors import CompilerError', 'from hidc.errors import CompilerError, ParserError')(
         _sub('    except CompilerError as err:', '    except ParserError as err:')(t)), 'c10',
     {'escaped_exception:TypeCheckError', 'escaped_exception:CodeGenError', 'traceback_printed'}),
    ('eof_cursor_one_line_past_end', 'hidc/lexer/__init__.py',
     _sub('            return marker.cursor\n', '            return Cursor(scan.line + 1, 0)\n'), 'c10',
     {'span_outside_source'}),
    ('no_newline_after_last_line', 'hidc/__main__.py',
     _sub("""            for line in code_gen.gen_lines():
                f.write(line)
                f.write(b'\\n')
""", """            f.write(b'\\n'.join(code_gen.gen_lines()))
"""), 'c10', {'exit0_file_incomplete'}),
    ('string_table_in_hash_order', 'hidc/codegen/generator.py',
     _sub('        for string, label in self.string_labels.items():',
          '        for string, label in sorted(self.string_labels.items(), key=lambda kv: hash(kv[0])):'), 'repro',
     {'digest_differs'}),
    ('lint_drops_a_statement', 'hidc/ast/blocks.py',
     _sub('        return CodeBlock(tuple(new_stmts), self.span, self.preemptive, mode)',
          "        if env.options.get('unreachable_error', False) and len(new_stmts) >= 3:\n"
          "            del new_stmts[1]\n"
          '        return CodeBlock(tuple(new_stmts), self.span, self.preemptive, mode)'), 'repro',
     {'lint_changed_code'}),
    ('quote_not_escaped', 'hidc/codegen/asm.py',
     _sub("        if byte in quote:\n            result += b'\\\\' + bytes([byte])\n",
          "        if False:\n            pass\n"), 'asmtext', {'unescaped_quote:no_backslash'}),
]

F4_FIX = ('escape_bytes_repaired', 'hidc/codegen/asm.py',
          _sub("        if byte in b'\\\\':\n            result += b'\\\\\\\\'\n        if byte in quote:",
               "        if byte in b'\\\\':\n            result += b'\\\\\\\\'\n        elif byte in quote:"))

# every defect the check reports on the unchanged tree, repaired: the check must then be silent
ALL_REPAIRED = [
    F4_FIX[1:],
    ('hidc/codegen/generator.py',                                                                     # F5
     _sub("        assert isinstance(src_expr.type, ArrayType)\n        array_bubble = yield from self.eval_expr(self.r2, src_expr, keep=True)",
          "        if not isinstance(src_expr.type, ArrayType):\n"
          "            raise CodeGenError('Cannot assign to an element of a string', src_expr.span)\n"
          "        array_bubble = yield from self.eval_expr(self.r2, src_expr, keep=True)")),
    ('hidc/codegen/generator.py',                                                                     # F7
     _sub("        if ((self.stack_size + 5) * self.word_size) > self.max_signed:",
          "        if self.stack_size < 0:\n            raise CodeGenError('Stack size must not be negative', ())\n\n"
          "        if ((self.stack_size + 5) * self.word_size) > self.max_signed:")),
    ('hidc/__main__.py',                                                                              # F8
     _sub("        source = SourceCode.from_file(args.input)\n    except OSError as err:",
          "        source = SourceCode.from_file(args.input)\n    except (OSError, UnicodeDecodeError) as err:")),
    ('hidc/lexer/readers.py',                                                                         # chr() overflow
     _sub("        except ValueError:\n            raise LexerError(\n                f'Invalid unicode codepoint",
          "        except (ValueError, OverflowError):\n            raise LexerError(\n                f'Invalid unicode codepoint")),
]


def make_copy(root, name, rel, edit):
    dst = os.path.join(root, name)
    os.makedirs(dst)
    for sub in ('hidc', 'examples', 'tests'):
        shutil.copytree(os.path.join('/repo', sub), os.path.join(dst, sub),
                        ignore=shutil.ignore_patterns('__pycache__', '*.pyc'))
    if rel:
        path = os.path.join(dst, rel)
        with open(path) as f:
            text = f.read()
        new = edit(text)
        if new == text:
            raise common.Machinery('mutation %s changed nothing' % name)
        with open(path, 'w') as f:
            f.write(new)
    return dst


_RUNNERS = {
    'c10': ("import json, sys\nfrom hv.checks import c10\nfrom hv import common\n"
            "v, cov, t0 = c10.run_all('mini', %(seed)d)\n"
            "json.dump({'kinds': [x.classifier for x in v], 'cases': cov['traces_validated_against_impl'],"
            " 'states': cov['states']}, sys.stdout)\n"),
    'repro': ("import json, sys\nfrom hv import repro\nr = repro.run('quick', %(seed)d)\n"
              "json.dump({'kinds': [x.classifier for x in r['violations']], 'cases': r['cases'], 'states': r['states']}, sys.stdout)\n"),
    'asmtext': ("import json, sys\nfrom hv import asmtext\nr = asmtext.run_trace(asmtext.record_pairs('quick', %(seed)d))\n"
                "json.dump({'kinds': [{'kind': x['clause'], 'bs': x['has_backslash']} for x in r['rejected']],"
                " 'cases': r['cases'], 'states': r['states']}, sys.stdout)\n"),
}


def run_check(which, repo, seed):
    env = dict(os.environ)
    env['HV_REPO'] = repo
    env['PYTHONDONTWRITEBYTECODE'] = '1'
    p = subprocess.run([sys.executable, '-c', _RUNNERS[which] % {'seed': seed}], cwd=common.VERIF, env=env,
                       stdout=subprocess.PIPE, stderr=subprocess.PIPE, timeout=3000)
    if p.returncode != 0:
        raise common.Machinery('%s on %s failed: %s' % (which, repo, p.stderr.decode()[-1500:]))
    out = p.stdout.decode()
    return json.loads(out[out.index('{'):])


def kinds_of(res):
    ks = set()
    for c in res['kinds']:
        ks.add(c.get('kind'))
        if c.get('exc'):
            ks.add('%s:%s' % (c['kind'], c['exc']))
        if c.get('bs') is False:
            ks.add('%s:no_backslash' % c['kind'])      # not explained by finding F4
    return ks


def upstream_tests_pass(repo):
    p = subprocess.run([sys.executable, '-m', 'pytest', '-q', '-p', 'no:cacheprovider', 'tests/test_lexer.py',
                        'tests/test_parser.py', 'tests/test_typecheck.py'], cwd=repo, stdout=subprocess.PIPE,
                       stderr=subprocess.STDOUT, env=dict(os.environ, PYTHONPATH=repo, PYTHONDONTWRITEBYTECODE='1'))
    return p.returncode == 0, p.stdout.decode()[-300:]


def corrupted_fields(seed):
    """(c) corrupt one field of a recording / pair: TLC must reject exactly the corrupted ones"""
    from .. import driver_run as R, driver_trace as DT, asmtext
    work = common.scratch('hv_c10self_')
    failures = []
    try:
        ok_src = b'empty @is_you() {\n    writeln("hi");\n}\n'
        bad_src = b'empty @is_you() {\n    int x = ;\n}\n'
        t_ok, _ = R.run_main(ok_src, R.opts(), work, 'a')
        t_bad, _ = R.run_main(bad_src, R.opts(), work, 'b')
        t_api, _ = R.run_api(bad_src.decode())
        t_cli, _ = R.run_cli(bad_src, R.opts(), work, 'c')

        def patch(trace, kind, **kw):
            out = []
            for e in trace:
                if e[0] == kind:
                    d = dict(zip('krnsx', e))
                    d.update(kw)
                    e = tuple(d[c] for c in 'krnsx')
                out.append(e)
            return tuple(out)
        span = [e for e in t_api if e[0] == 'parse'][0][3][0]
        recs = [
            (1, t_ok), (2, t_bad), (3, t_api), (4, t_cli),
            (11, patch(t_ok, 'exit', n=1)),                               # success reported as failure
            (12, patch(t_bad, 'exit', n=0)),                              # failure with exit status 0
            (13, patch(t_bad, 'file', r='written', n=0)),                 # failing run leaves a file
            (14, patch(t_ok, 'close', n=[e for e in t_ok if e[0] == 'gen'][0][2] - 1)),   # a line missing
            (15, patch(t_ok, 'expect', x='0' * 16)),                      # file differs from the generator's lines
            (16, patch(t_api, 'parse', s=((span[0] + 7, span[1], span[2] + 7, span[3]),))),   # span past the end
            (17, patch(t_api, 'parse', s=((span[0], span[1] + 500, span[2], span[3] + 500),))),  # column past the end
            (18, patch(t_cli, 'stderr', r='traceback')),                  # a traceback on the command line
            (19, patch(t_ok, 'asm', r='error')),                          # output the assembler rejects
            (20, patch(t_api, 'render', r='escape')),                     # diagnostic cannot be rendered
        ]
        V = DT.validate(recs, work)
        for rid, _ in recs:
            want_acc = rid < 10
            if (rid in V.accepted) != want_acc:
                failures.append('recording %d: expected %s' % (rid, 'ACCEPTED' if want_acc else 'REJECTED'))
        print('  corrupted trace fields: %d untouched accepted, %d corrupted rejected: %s' % (
            len([r for r in V.accepted if r < 10]), len([r for r in V.rejected if r > 10]),
            sorted((r, DT.best_reason(v)[1]) for r, v in V.rejected.items())))
        good = asmtext.pair(b'a\\n\\x00', b'a\n\x00')
        bad1 = asmtext.pair(b'a\\n\\x00', b'a\n\x01')           # wanted bytes corrupted
        bad2 = asmtext.pair(b'a"b', b'a"b')                      # unescaped quote
        bad3 = asmtext.pair(b'ab\\', b'ab\\')                    # dangling backslash
        res = asmtext.run_trace([good, bad1, bad2, bad3], workdir=os.path.join(work, 'asm'))
        got = sorted((r['id'], r['clause']) for r in res['rejected'])
        print('  corrupted pairs: %s' % got)
        if got != [(2, 'unescape_differs'), (3, 'unescaped_quote'), (4, 'dangling_backslash')]:
            failures.append('AsmText verdicts on corrupted pairs: %s' % got)
    finally:
        common.rm(work)
    return failures


def main(argv=None):
    ap = argparse.ArgumentParser()
    ap.add_argument('--only', default='')
    ap.add_argument('--pytest', action='store_true', help='also confirm each mutant passes the upstream front-end tests')
    ap.add_argument('--seed', type=int, default=common.seed_from_env())
    a = ap.parse_args(argv)
    only = set(x for x in a.only.split(',') if x)
    root = common.scratch('hv_c10mut_')
    failures = []
    t0 = time.time()
    try:
        if not only or 'fields' in only:
            failures += corrupted_fields(a.seed)
        for name, rel, edit, which, expect in MUTANTS:
            if only and name not in only:
                continue
            t1 = time.time()
            repo = make_copy(root, name, rel, edit)
            note = ''
            if a.pytest:
                ok, tail = upstream_tests_pass(repo)
                note = ' upstream front-end tests: %s' % ('pass' if ok else 'FAIL ' + tail.replace('\n', ' | '))
            res = run_check(which, repo, a.seed)
            ks = kinds_of(res)
            hit = ks & expect
            print('  mutant %-34s %-8s %s  kinds=%s (%d cases, %.0fs)%s' % (
                name, which, 'DETECTED' if hit else 'MISSED', sorted(k for k in ks if k), res['cases'],
                time.time() - t1, note))
            if not hit:
                failures.append('mutant %s not detected by %s (got %s)' % (name, which, sorted(k for k in ks if k)))
            common.rm(repo)
        if not only or 'f4fix' in only:
            name, rel, edit = F4_FIX
            repo = make_copy(root, name, rel, edit)
            res = run_check('asmtext', repo, a.seed)
            print('  repaired _escape_bytes: %d pairs, %d rejected' % (res['cases'], len(res['kinds'])))
            if res['kinds']:
                failures.append('AsmText still rejects %d pairs after the F4 repair (false alarm?)' % len(res['kinds']))
            common.rm(repo)
        if not only or 'repaired' in only:
            t1 = time.time()
            repo = make_copy(root, 'all_repaired', None, None)
            for rel, edit in ALL_REPAIRED:
                path = os.path.join(repo, rel)
                with open(path) as f:
                    text = f.read()
                with open(path, 'w') as f:
                    f.write(edit(text))
            res = run_check('c10', repo, a.seed)
            print('  all five reported defects repaired, c10: %d cases, violations %s (%.0fs)' % (
                res['cases'], res['kinds'], time.time() - t1))
            if res['kinds']:
                failures.append('C10 still reports violations on the repaired copy: %s' % res['kinds'])
            common.rm(repo)
        if not only or 'unchanged' in only:
            repo = make_copy(root, 'unchanged', None, None)
            res = run_check('repro', repo, a.seed)
            print('  unchanged copy, repro: %d recordings, violations %s' % (res['cases'], res['kinds']))
            if res['kinds']:
                failures.append('repro reports violations on the unchanged tree: %s' % res['kinds'])
    finally:
        common.rm(root)
    for f in failures:
        print('SELFTEST-FAILURE: %s' % f)
    print('c10_selftest: %s in %.0fs' % ('FAILED' if failures else 'ok', time.time() - t0))
    return 1 if failures else 0


if __name__ == '__main__':
    common.main_wrapper(main)
