------------------------------ MODULE EntrySig ------------------------------
(* The documented rules for the entry point (README "Command-line arguments", "A taste of defeat": the level   *)
(* is the you-function `@is_you`), as a verdict over every signature:                                          *)
(*   E1  exactly one function named @is_you (none: "level is empty"; overloads: rejected)                      *)
(*   E2  it returns `empty` (every example and the README signature)                                          *)
(*   E3  scalar parameters are int, byte or string - "neither bool nor bool[] are allowed"                     *)
(*   E4  at most one array among the parameters                                                                *)
(*   E5  int[] and byte[] may be const or not; string[] must be const                                          *)
(* A state is a signature under construction; TLC enumerates all of them up to MaxParams parameters and prints *)
(* one case line per signature x return type x number of entry points.  hv/entry_sig.py renders each case to a *)
(* complete program and compares the verdict with the real compiler (parse, typecheck AND code generation:     *)
(* these rules are enforced by CodeGen.__post_init__).  The README is silent on an array that is not the last  *)
(* parameter: "dontcare" (exercised for totality only).                                                        *)
EXTENDS Integers, Sequences, FiniteSets, TLC

CONSTANT MaxParams

Scalars == {"int", "byte", "bool", "string"}
Mut(e) == e \o "[]"
Con(e) == "const " \o e \o "[]"
ParamT == Scalars \cup {Mut(e) : e \in Scalars} \cup {Con(e) : e \in Scalars}
IsArr(t) == t \notin Scalars
RetT == {"empty", "int", "bool", "string"}

VARIABLES sig, stage
vars == <<sig, stage>>

AllowedParam(t) == t \in {"int", "byte", "string", Mut("int"), Con("int"), Mut("byte"), Con("byte"), Con("string")}
Arrays(s) == {i \in DOMAIN s : IsArr(s[i])}

Why(s, ret, n) ==
   IF n = 0 THEN "E1_no_entry_point"
   ELSE IF n > 1 THEN "E1_several_entry_points"
   ELSE IF ret # "empty" THEN "E2_returns_a_value"
   ELSE IF \E i \in DOMAIN s : s[i] \in {"bool", Mut("bool"), Con("bool")} THEN "E3_bool_parameter"
   ELSE IF \E i \in DOMAIN s : s[i] = Mut("string") THEN "E5_mutable_string_array"
   ELSE IF Cardinality(Arrays(s)) > 1 THEN "E4_two_arrays"
   ELSE IF \E i \in Arrays(s) : i # Len(s) THEN "array_not_last"
   ELSE "ok"
Verdict(s, ret, n) == LET w == Why(s, ret, n) IN
   IF w = "ok" THEN "accept" ELSE IF w = "array_not_last" THEN "dontcare" ELSE "reject"

Init == sig = <<>> /\ stage = "build"
Extend == /\ stage = "build" /\ Len(sig) < MaxParams
          /\ \E t \in ParamT : sig' = Append(sig, t)
          /\ UNCHANGED stage
Report == /\ stage = "build"
          /\ \A ret \in RetT : \A n \in 0..2 :
                (ret = "empty" \/ n = 1) =>
                PrintT(ToString(<<"HV", "E", sig, ret, n, Verdict(sig, ret, n), Why(sig, ret, n)>>))
          /\ stage' = "done" /\ UNCHANGED sig
Next == Extend \/ Report
Spec == Init /\ [][Next]_vars

\* sanity of the rule table itself (checked by TLC on every state)
NoBoolAccepted == \A ret \in RetT : Verdict(sig, ret, 1) = "accept" => \A i \in DOMAIN sig : sig[i] \notin {"bool", Mut("bool"), Con("bool")}
OneArrayAccepted == Verdict(sig, "empty", 1) = "accept" => Cardinality(Arrays(sig)) <= 1
ExamplesAccepted == /\ Verdict(<<Con("string")>>, "empty", 1) = "accept" /\ Verdict(<<Con("int")>>, "empty", 1) = "accept"
                    /\ Verdict(<<"string", Con("int")>>, "empty", 1) = "accept" /\ Verdict(<<>>, "empty", 1) = "accept"
=============================================================================
