"""Enumerated families for the sequential core (C01): boolean structure in every usage position, evaluation
order / operand preservation across side-effecting operands, casts of computed values, call protocol."""
import itertools, random
from . import runner


# ------------------------------------------------------------------------------------------------ boolean structure
def formulas(depth):
    """all formulas over atoms p, q, (a < b) and constants with not / and / or, up to the given depth"""
    atoms = ['p', 'q', '(a < b)', 'true', 'false']
    level = {0: list(atoms)}
    for d in range(1, depth + 1):
        prev = [f for k in range(d) for f in level[k]]
        last = level[d - 1]
        cur = []
        for f in last:
            cur.append('(not %s)' % f)
        for f in last:
            for g in prev:
                for op in ('and', 'or'):
                    cur.append('(%s %s %s)' % (f, op, g))
                    if g not in last:
                        cur.append('(%s %s %s)' % (g, op, f))
        level[d] = cur
    return level


BOOL_PROG = '''empty !d(bool c) { !truth_is_defeat(c); }
empty @is_you(int pi, int qi, int a, int b) {
  bool p = pi is bool; bool q = qi is bool;
%s
}'''


def bool_structure(seed, tier):
    rnd = random.Random(seed)
    lv = formulas(2)
    fs = lv[0] + lv[1] + lv[2]
    if tier == 'quick':
        nots = [f for f in lv[2] if f.startswith('(not ')]
        d2 = [f for f in lv[2] if not f.startswith('(not ')]
        rnd.shuffle(d2)
        fs = lv[0] + lv[1] + nots + d2[:110]
    items = []
    per = 6
    for i in range(0, len(fs), per):
        body = []
        for j, f in enumerate(fs[i:i + per]):
            body.append("  if (%s) { write('T'); } else { write('F'); }" % f)
            body.append("  { int n = 0; while (%s and n < 1) { n += 1; } write(n); }" % f)
            body.append("  { bool v = %s; write(v is int); }" % f)
            body.append("  try { !truth_is_defeat(%s); write('n'); } undo { write('u'); }" % f)
            body.append("  try { !d(%s); write('n'); } stop { write('s'); }" % f)
            body.append("  write(' ');")
        src = BOOL_PROG % '\n'.join(body)
        for pi, qi, a, b in [(0, 0, 0, 1), (0, 1, 1, 0), (1, 0, 0, 0), (1, 1, 1, 2)]:
            items.append(runner.Item(('boolst', i, pi, qi, a, b), src, [str(pi), str(qi), str(a), str(b)], s=120,
                                     meta={'family': 'bool_structure', 'classifier': {'seq': 'bool_structure'}}))
    return items


# ------------------------------------------------------------------------------------------------ evaluation order
ORDER_PRELUDE = '''int gi = 5; byte gb = 7; bool gt = true; string gs = "ab";
int[] GA = [10, 20, 30];
int bump_i() { gi += 1; write('i'); return 1; }
int bump_b() { gb += 1; write('b'); return 1; }
int flip_t() { gt = not gt; write('t'); return 1; }
int set_s() { gs = "xyz"; write('s'); return 1; }
int poke(int[] arr, int k) { arr[k] += 100; write('k'); return 1; }
int zero_i() { gi = 0; return 0; }
string[] GSS = ["ab", "hello", ""];
string pick_s(int i) { if (i == 0) { return "zero"; } return "three"; }
'''

ORDER_CASES = [
    # left operand is a mutable global of each type, right operand mutates it
    'write(gi + bump_i());', 'write(gi - bump_i());', 'write(gi * (bump_i() + 1));', 'write(gi < gi + bump_i() - 1);',
    'write(gb + bump_b());', 'write(gb - bump_b());', 'write(gb == gb + bump_b() - 1);', 'write(gb < bump_b() * 8);',
    'write(gt == (flip_t() is bool));', 'write(gt != (flip_t() == 1));', 'write((gt is int) + flip_t());',
    'write(gt and (flip_t() == 1)); write(gt);', 'write(gt or (flip_t() == 1)); write(gt);',
    'write(gs[set_s()]); write(gs);', 'write(gs.length + set_s()); write(gs);',
    'write(GA[bump_i()]); write(GA[gi - 6 + bump_i()]);', 'write(GA[0] + poke(GA, 0)); write(GA[0]);',
    'int[] loc = [1, 2, 3]; write(loc[1] + poke(loc, 1)); write(loc[1] * poke(loc, 1)); write(loc[1]);',
    'byte[] lb = [1, 2]; write(lb[0] + bump_b()); write(gb);',
    'write(bump_i() + gi); write(bump_b() + gb);',
    'write([gi, bump_i(), gi][0]); int[] t = [gi, bump_i(), gi]; write(t[0]); write(t[2]);',
    'write(gi / (bump_i() + 1)); write(gi % (bump_i() + 2));',
    'gi = gi + bump_i(); write(gi); gi += bump_i(); write(gi); gb += (bump_b() is byte); write(gb is int);',
    'GA[bump_i() - 1] = gi; write(GA[0]); GA[1] += bump_i(); write(GA[1]); GA[zero_i()] = gi; write(GA[0]);',
    'write(two(gi, bump_i())); write(two(bump_i(), gi)); write(twob(gb, bump_b()));',
    'if (gi < gi + bump_i()) { write(\'Y\'); } else { write(\'N\'); } if (gb + 1 == gb + bump_b()) { write(\'y\'); } else { write(\'n\'); }',
    'int k = 0; while (gi < 8 + zero_k(k)) { gi += 1; k += 1; } write(k);',
    'try { !truth_is_defeat(gi == gi + bump_i()); write(\'n\'); } undo { write(\'u\'); } write(gi);',
    'try { !truth_is_defeat(gb + 1 == gb + bump_b()); write(\'n\'); } undo { write(\'u\'); } write(gb is int);',
    'write((gi ?? bump_i()) + gi);',
    'write(-gi + bump_i()); write((gi is byte) + bump_i()); write((gb is int) * (bump_b() + 1));',
    'write(gi == gi - zero_i()); write(gi);',
    'write(("ab"[bump_i() - 1] is int) + gi);',
    'write(lenof(gs) + set_s()); write(gs.length);',
    # element stores whose index is a bare mutable global that the right-hand side changes (index first, then the value)
    'byte[] ln = [\'a\', \'b\', \'c\', \'d\', \'e\', \'f\', \'g\', \'h\', \'i\']; gi = 1; ln[gi] = (bump_i() + 64) is byte; write(ln); ln[gi] += bump_i() is byte; write(ln); write(gi);',
    'int[] li = [1, 2, 3, 4, 5, 6, 7, 8, 9]; gi = 0; li[gi] = bump_i() * 7; li[gi] += bump_i(); li[gi] = gi + bump_i(); write(li[0]); write(li[1]); write(li[2]); write(li[3]); gi = 5; GA[gi - 5] = bump_i(); write(GA[0]); write(GA[1]);',
    'bool[] lo = [false, false, false, false, false, false, false, false, false, false]; gi = 2; lo[gi] = bump_i() == 1; gb = 3; lo[gb] = bump_b() == 1; for (int q = 0; q < 10; q += 1) { write(lo[q] is int); } string[] ls2 = ["a", "b", "c", "d", "e", "f", "g", "h"]; gi = 1; ls2[gi] = pick_s(bump_i()); write(ls2[1]); write(ls2[2]);',
    # computed left operand, right operand an element at a constant / variable index of a local, parameter or global array
    'int[] lv = [4, 5, 6]; int kq = 2; write((gi * 3) + lv[0]); write((gi + 1) * lv[1]); write(lv[1] < lv[0]); write((gi - 9) + lv[kq]); write((gb + 1) - GA[0]); write(first_of(lv, gi * 2)); write((gi * 2) - lv[kq - 2] * (gi + lv[1]));',
    # a computed string (an element of a string array, a call result) indexed by an expression that itself indexes strings / bool arrays
    'string[] al = ["abcdefgh", "ABCDEFGH"]; string word = "bad"; bool[] fl = [false, true, true]; int k = 1; for (int j = 0; j < 3; j += 1) { write(al[k][word[j] - \'a\']); write(al[j % 2][(fl[j] is int) + j]); } write(GSS[1][GSS[0].length]); write(pick_s(1)[word.length - 1]); write(pick_s(0)[(fl[1] is int) * 2]); write(al[fl[1] is int][word[2] - word[1] + 2]);',
    # computed left operand (lives in a register), right operand is the .length of something that needs registers
    'write(gi * 2 - GSS[1].length); write(gi + 1 < GSS[0].length); write(gi + 1 - pick_s(1).length); write((gi + 1) * pick_s(0).length);',
    'string[] ls = ["x", "yyy"]; int k = 1; write(gi * 3 + ls[k].length); write((gb + 1) * ls[k - 1].length); write(gi - 1 == GSS[gi - 4].length + 4);',
    'int[] q = [1, 2, 3]; write(gi * 2 - q.length); write(gi + 1 - GA.length); write((gi + gb) %% [gi, gi].length); write(gi * 2 - gs.length);'.replace('%%', '%'),
]
ORDER_HELPERS = '''int two(int x, int y) { return x * 10 + y; }
int twob(byte x, int y) { return x * 10 + y; }
int zero_k(int k) { return 0; }
int lenof(string s) { return s.length; }
int first_of(const int[] p, int x) { return (x + 1) * p[0] + (x - p[1]); }
'''


def eval_order(seed, tier):
    items = []
    per = 3
    cases = list(ORDER_CASES)
    for i in range(0, len(cases), per):
        chunk = cases[i:i + per]
        body = ' write(\' \'); gi = 5; gb = 7; gt = true; gs = "ab"; '.join(chunk)
        src = ORDER_PRELUDE + ORDER_HELPERS + 'empty @is_you() { %s }' % body
        for w in ([2, 3] if tier == 'quick' else [2, 3, 4, 8]):
            items.append(runner.Item(('order', i, w), src, [], w=w, s=160,
                                     meta={'family': 'eval_order', 'classifier': {'seq': 'eval_order'}}))
    return items


# ------------------------------------------------------------------------------------------------ casts of computed values
CAST_PROG = '''byte gb = 200; int gi = 300;
int id(int v) { return v; }
empty @is_you(int a, int b) {
  int[] arr = [a, b, 7];
  byte bq[256]; int iq[256]; bool oq[256];
%s
}'''
CAST_EXPRS = ['(a + b)', '(a * 3)', '(a - b)', 'id(a)', 'arr[0]', '(arr[1] + 1)', '(gi + a)', '(-a)', '(a / 2)', '(gb + a)', '(arr.length * a)']


def computed_casts(seed, tier):
    items = []
    stmts = []
    for e in CAST_EXPRS:
        stmts.append('  write((%s is byte) is int); write(\',\');' % e)
        stmts.append('  write((%s is byte) + 1); write(\',\');' % e)
        stmts.append('  write((%s is byte) < 100); write((%s is byte) == (b is byte)); write(\',\');' % (e, e))
        stmts.append('  write(arr[(%s is byte) %% 3]); write(\',\');' % e)
        stmts.append('  if ((%s is byte) > 127) { write(\'H\'); } else { write(\'L\'); }' % e)
        stmts.append('  { byte t = %s is byte; write(t is int); } write((%s is bool) is int); write(((%s is byte) is bool) is int); writeln();' % (e, e, e))
        # a narrowed value as an index (every byte value is a valid index of a 256-element array) and as a truth value
        stmts.append('  bq[%s is byte] = \'X\'; write(bq[%s is byte]); bq[%s is byte] += 1; write(bq[%s is byte]); iq[%s is byte] = 7; iq[%s is byte] *= 6; write(iq[%s is byte]); oq[%s is byte] = true; write(oq[%s is byte]); write(\',\');' % ((e,) * 9))
        stmts.append('  if (%s is byte) { write(\'T\'); } else { write(\'F\'); } if (not (%s is byte)) { write(\'t\'); } else { write(\'f\'); } int n = 0; while ((%s is byte) and n < 2) { n += 1; } write(n); if ((%s is byte) or b == 1) { write(\'o\'); } try { !truth_is_defeat((%s is byte) is bool); write(\'n\'); } undo { write(\'u\'); } try { !truth_is_defeat(not (%s is byte)); write(\'N\'); } stop { write(\'S\'); }' % ((e,) * 6))
    per = 8
    grid = [(0, 0), (1, 255), (255, 1), (256, 256), (300, -1), (-1, 300), (-256, 44), (127, 128), (32767, 1), (-32768, -1), (1000, 999)]
    for i in range(0, len(stmts), per):
        src = CAST_PROG % '\n'.join(stmts[i:i + per])
        for w in ([2, 3] if tier == 'quick' else [2, 3, 4, 8]):
            for a, b in (grid[:6] if tier == 'quick' else grid):
                items.append(runner.Item(('ccast', i, a, b, w), src, [str(a), str(b)], w=w, s=700,
                                         meta={'family': 'computed_casts', 'classifier': {'seq': 'computed_casts'}}))
    return items


# ------------------------------------------------------------------------------------------------ indexing / layout at every word size
LAYOUT_PROG = '''int[] GI = [11, 22, 33, 44];
const int[] CI = [5, 6, 7, 8, 9];
string[] GS = ["a", "bb", "ccc"];
int sum(const int[] p) { int s = 0; for (int i = 0; i < p.length; i += 1) { s += p[i] * (i + 1); } return s; }
empty fill(int[] p) { for (int i = 0; i < p.length; i += 1) { p[i] = i * 3 + 1; } }
empty @is_you(int k, const int[] v) {
  int[] li = [1, 2, 3, 4];
  int d[k + 2];
  fill(d);
  string[] ls = ["x", "yy", "zzz"];
  bool[] lo = [true, false, true, true, false, false, true, false, true, true];
  for (int i = 0; i < 4; i += 1) { write(GI[i]); write(li[i]); write(CI[i]); write(','); }
  for (int j = 0; j < d.length; j += 1) { write(d[j]); } write(',');
  for (int m = 0; m < 3; m += 1) { write(GS[m]); write(ls[m]); write(GS[m].length); } write(',');
  for (int n = 0; n < lo.length; n += 1) { write(lo[n] is int); } write(',');
  for (int q = 0; q < v.length; q += 1) { write(v[q]); write(' '); }
  write(sum(li)); write(sum(GI)); write(sum(CI)); write(sum(v)); write(sum(d));
  li[k] = 9; GI[k] += 5; d[k] *= 2; ls[k] = "new"; lo[k + 7] = not lo[k + 7];
  write(li[k]); write(GI[k]); write(d[k]); write(ls[k]); write(lo[k + 7]);
}'''


def layout(seed, tier):
    items = []
    for w in ([2, 3, 4] if tier == 'quick' else [2, 3, 4, 8]):
        for k, v in [(0, ['1', '2']), (1, ['7']), (2, ['-1', '0', '5', '300'])]:
            items.append(runner.Item(('layout', w, k), LAYOUT_PROG, [str(k)] + v, w=w, s=200,
                                     meta={'family': 'layout', 'classifier': {'seq': 'layout'}}))
    return items


# ------------------------------------------------------------------------------------------------ entry-point binding
def entry_binding(seed, tier):
    """every order of scalar parameters around at most one array parameter, every array form"""
    items = []
    scal = {'i': ('int', lambda n: 'write(%s); write(\',\');' % n, ['-7', '300']),
            'b': ('byte', lambda n: 'write(%s is int); write(\',\');' % n, ['65', '255']),
            's': ('string', lambda n: 'write(%s); write(%s.length); write(\',\');' % (n, n), ['héllo', ''])}
    arrs = {'I': ('int[]', 'for (int k = 0; k < %(n)s.length; k += 1) { write(%(n)s[k]); write(\';\'); } %(n)s[0] = 5; write(%(n)s[0]);', [['1', '-2', '30000'], ['4']]),
            'C': ('const int[]', 'for (int k = 0; k < %(n)s.length; k += 1) { write(%(n)s[k]); write(\';\'); }', [['9', '8'], []]),
            'B': ('byte[]', 'write(%(n)s); %(n)s[0] = \'!\'; write(%(n)s);', [['72', '105'], ['0', '255', '10']]),
            'D': ('const byte[]', 'write(%(n)s); write(%(n)s.length);', [['33'], []]),
            'S': ('const string[]', 'for (int k = 0; k < %(n)s.length; k += 1) { write(%(n)s[k]); write(%(n)s[k].length); write(\';\'); }', [['ab', '', 'çé'], []])}
    import itertools
    shapes = set()
    for nsc in (0, 1, 2, 3):
        for sc in itertools.permutations('ibs', nsc):
            shapes.add(''.join(sc))
            for a in arrs:
                for pos in range(nsc + 1):
                    shapes.add(''.join(sc[:pos]) + a + ''.join(sc[pos:]))
    shapes = sorted(shapes)
    if tier == 'quick':
        random.Random(seed).shuffle(shapes)
        shapes = shapes[:60]
    for sh in shapes:
        params, body = [], []
        for j, ch in enumerate(sh):
            n = 'p%d' % j
            if ch in scal:
                params.append('%s %s' % (scal[ch][0], n))
                body.append(scal[ch][1](n))
            else:
                params.append('%s %s' % (arrs[ch][0], n))
                body.append(arrs[ch][1] % {'n': n})
        src = 'empty @is_you(%s) { write(\'[\'); %s write(\']\'); }' % (', '.join(params), ' '.join(body))
        for v in (0, 1):
            args = []
            ok = True
            for ch in sh:
                if ch in scal:
                    args.append(scal[ch][2][v])
                else:
                    vals = arrs[ch][2][v]
                    if not vals and ('[0]' in arrs[ch][1]):
                        vals = arrs[ch][2][0]
                    args += vals
            for w in ([2] if tier == 'quick' else [2, 3, 8]):
                items.append(runner.Item(('entry', sh, v, w), src, args, w=w, s=100,
                                         meta={'family': 'entry_binding', 'classifier': {'seq': 'entry_binding'}}))
    return items


def entry_bounds(seed, tier):
    """entry arrays followed (and preceded) by scalar parameters: every element is written through the array's own
    length, the cell one past the real end must be out_of_bounds, and what lies behind the argument array (a global, the
    next entry datum) must keep its value (wave 10: `entry_array_length_trailing_args`)"""
    items = []
    forms = [('int[]', 'int', ['11', '22', '33'], '0'), ('byte[]', 'byte', ['65', '66'], '\'z\''),
             ('const int[]', 'int', ['5', '-6', '7', '8'], None), ('const byte[]', 'byte', ['72'], None),
             ('int[]', 'int', [], '0'), ('const string[]', 'string', ['ab', 'c'], None)]
    tails = [('', []), (', int t0', ['9']), (', int t0, byte t1', ['9', '66']), (', string t0, int t1', ['xy', '4'])]
    heads = [('', []), ('int h0, ', ['3'])]
    for fi, (at, et, vals, fill) in enumerate(forms):
        for ti, (tp, tv) in enumerate(tails):
            for hi, (hp, hv) in enumerate(heads):
                if tier == 'quick' and hi == 1 and ti in (0, 3):
                    continue
                body = ['write(xs.length); write(\' \');']
                if et == 'string':
                    body.append('for (int k = 0; k < xs.length; k += 1) { write(xs[k]); write(xs[k].length); }')
                elif fill is not None:
                    body.append('for (int k = 0; k < xs.length; k += 1) { xs[k] = %s; }' % fill)
                    body.append('for (int k = 0; k < xs.length; k += 1) { write(xs[k] is int); write(\',\'); }')
                else:
                    body.append('int sum = 0; for (int k = 0; k < xs.length; k += 1) { sum += xs[k]; } write(sum);')
                body.append('write(\' \'); write(canary); write(\' \');')
                for j in range(len(tv)):
                    body.append('write(t%d); write(\' \');' % j)
                for j in range(len(hv)):
                    body.append('write(h%d); write(\' \');' % j)
                # `at` is taken from the LAST scalar when there is one, else it is the literal length
                probe = 'xs[at]' if et != 'string' else 'xs[at].length'
                src = ('int canary = 1234;\nempty @is_you(%s%s xs%s, int at) { %s write(%s is int); write(canary); }'
                       % (hp, at, tp, ' '.join(body), probe))
                n = len(vals)
                for at_v in sorted({n, n - 1, -1, n + len(tv) + 1}):
                    if at_v == n - 1 and n == 0:
                        continue
                    args = hv + vals + tv + [str(at_v)]
                    for w in ([2] if tier == 'quick' else [2, 3, 4]):
                        items.append(runner.Item(('entry_bounds', fi, ti, hi, at_v, w), src, args, w=w, s=100,
                                                 meta={'family': 'entry_bounds', 'classifier': {'seq': 'entry_bounds'}}))
    return items


MISC = [
    ('builtins', 'empty @is_you(int a) { write(\'a\'); sleep(a); debug(); progress(); sleep(0); write(\'b\'); if (a == 1) { all_is_win(); } if (a == 2) { all_is_broken(); } write(\'c\'); }', [['0'], ['1'], ['2'], ['-1'], ['32767']]),
    ('overloads', '''int f(int a) { return 1; } int f(byte a) { return 2; } int f(bool a) { return 3; } int f(string a) { return 4; }
int f(const int[] a) { return 5; } int f(const byte[] a) { return 6; } int f(int a, int b) { return 7; } int f(byte a, int b) { return 8; }
empty @is_you(int i, byte b) { write(f(i)); write(f(b)); write(f(i > 0)); write(f("s")); write(f([i, i])); write(f([b, b])); write(f(5)); write(f('c'));
  write(f(i, i)); write(f(b, i)); write(f(b, b)); write(f([1, 2])); write(f("s" is byte[])); write(f(true)); write([65, 66]); write([b, 'x']); }''', [['3', '4']]),
    ('recursion', '''int fact(int n) { if (n <= 1) { return 1; } return n * fact(n - 1); }
int fib(int n) { if (n < 2) { return n; } return fib(n - 1) + fib(n - 2); }
bool even(int n) { if (n == 0) { return true; } return odd(n - 1); } bool odd(int n) { if (n == 0) { return false; } return even(n - 1); }
string pick(int n) { if (n > 2) { return pick(n - 1); } if (n == 2) { return "two"; } return "few"; }
empty @is_you(int n) { write(fact(n)); write(' '); write(fib(n)); write(' '); write(even(n)); write(pick(n)); }''', [['0'], ['1'], ['5'], ['7']]),
    ('shadowing', '''int x = 1; int y = 2; byte z = 'z'; const int K = 9;
int get() { return x * 10 + y; }
empty bump() { x += 1; }
empty @is_you(int y) { write(x); write(y); write(get()); { int x = 5; write(x); bump(); write(x); write(get()); { byte z = 'q'; write(z); } write(z); } write(x); int K2 = K + x; write(K2);
  for (int x = 0; x < 2; x += 1) { write(x); bump(); } write(x); string x2 = "s"; write(x2); }''', [['7'], ['-3']]),
    ('strings_as_values', '''string g = "glob";
string sel(bool c, string a, string b) { if (c) { return a; } return b; }
empty @is_you(string s, int k) { string t = s; s = "new"; write(t); write(s); string[] arr = [t, s, g, "lit"]; arr[1] = sel(k > 0, arr[0], arr[3]); g = arr[1];
  for (int i = 0; i < arr.length; i += 1) { write(arr[i]); write(arr[i].length); write(\',\'); } write(g); write(g[0]); write(sel(k < 0, "abc", "de")[1]); write("" is bool); write(t is bool); }''', [['in', '1'], ['', '-1'], ['héé', '0']]),
    ('dirty_slots', '''int wide(int v) { return v; } int pair(int a, int b) { return a * 3 + b; } bool flag(bool f, int k) { return f; }
empty @is_you(int big, byte b) { write(wide(big)); write(wide(b)); write(pair(big, big)); write(pair(b, b)); int w = b; write(w); write(flag(big > 0, big) is int); write(flag(false, 7) is int);
  bool[] f = [big > 0, b > 5, true, false, true, false, true, false, big == 30000, b == 7, big < 0]; for (int i = 0; i < f.length; i += 1) { write(f[i] is int); }
  byte[] bs = [b, (big is byte), 'x']; write(bs); int[] ws = [b, big, b]; write(ws[0]); write(ws[2]); }''', [['30000', '7'], ['-1', '255']]),
    ('literal_args', '''int sum(const int[] p) { int s = 0; for (int i = 0; i < p.length; i += 1) { s += p[i]; } return s; }
int count(const bool[] p) { int n = 0; for (int i = 0; i < p.length; i += 1) { if (p[i]) { n += 1; } } return n; }
empty show(const byte[] p, const string[] q) { write(p); write(p.length); for (int i = 0; i < q.length; i += 1) { write(q[i]); } write(q.length); }
empty @is_you(int a, byte d) { write(sum([a, a + 1, 10, 20])); write(sum([a])); writeln([d, '!']); show([d, d, 'x'], ["p", "qq"]); write(count([a > 0, true, a == 3])); write(sum([sum([a, 1]), sum([2, a, 3])]));
  int[] keep = [a, 9]; write(sum(keep)); write([a, 5, 6].length); write([d, 66][1]); }''', [['3', '65'], ['-1', '90']]),
    ('access_modes', '''const int[] CG = [1, 2, 3]; int[] MG = [4, 5, 6]; const byte[] CB = ['a', 'b']; byte[] MB = ['c', 'd']; const string[] CS = ["x", "yy"];
int first(const int[] a) { return a[0] * 10 + a.length; } int last(const int[] a) { return a[a.length - 1]; }
empty show(const byte[] b) { write(b); write(b.length); write(b[0]); } int slen(const string[] s) { int n = 0; for (int i = 0; i < s.length; i += 1) { n += s[i].length; } return n; }
empty bump(int[] a) { a[0] += 1; MG[1] += 1; }
empty @is_you(int k, const int[] ev) { byte[] eb = ['m', (k is byte)]; int[] ml = [k, 8]; const int[] cl = [k, 9, k];
  write(first(CG)); write(first(MG)); write(first(ml)); write(first(cl)); write(first(ev)); write(first([k, 1])); write(first([7, 7, 7])); write(last(CG)); write(last(ml)); write(last(ev));
  show(CB); show(MB); show(eb); show("lit"); show(['q', (k is byte)]); show([90, 91]); write(slen(CS)); write(slen(["a", "bcd"]));
  bump(MG); bump(ml); write(MG[0]); write(MG[1]); write(ml[0]); eb[0] = 'Z'; show(eb); write(first(MG)); }''', [['3', '10', '20', '65'], ['0', '5']]),
    ('aliasing', '''empty inc(int[] a) { for (int i = 0; i < a.length; i += 1) { a[i] += 1; } }
int first(const int[] a) { return a[0]; }
empty @is_you(int n) { int[] a = [n, 2, 3]; int[] b = a; b[0] = 10; write(a[0]); inc(a); write(b[0]); write(first(b)); const int[] c = [7, 8]; write(first(c)); bool[] f = [true, false]; bool[] h = f; h[1] = true; write(f[1]);
  byte[] q = ['a', 'b']; byte[] r = q; r[0] += 1; write(q); int[] d = a; inc(d); inc(b); write(a[2]); }''', [['1'], ['-5']]),
]

MISC += [
    # by-value scalars: a const (or plain) copy of a local/parameter/global keeps its value when the source changes
    ('value_copies', '''int g = 4; byte gb = 9;
int gcd(int a, int b) { while (b != 0) { const int t = b; b = a % b; a = t; } return a; }
int swap_sum(int x, int y) { const int ox = x; const int oy = y; x = oy; y = ox; return x * 100 + y + ox * 10000; }
empty @is_you(int a, int b) {
  write(gcd(a, b)); write(' '); write(swap_sum(a % 10, b % 10)); write(' ');
  const int c = a; int d = a; const byte cb = gb; const int cg = g; const bool ct = a > b; bool t = a > b;
  a += 1; gb += 1; g = 50; t = not t; write(c); write(d); write(a); write(cb is int); write(cg); write(ct); write(' ');
  for (int i = 0; i < 3; i += 1) { const int before = i; const int ca = a; a += i; write(before); write(ca); write(a); write(','); }
  const string s = "ab"; string m = s; m = "xyz"; write(s); write(m); int[] arr = [a, b]; const int e0 = arr[0]; arr[0] = 77; write(e0); write(arr[0]);
}''', [['48', '18'], ['7', '3'], ['0', '5']]),
    # every evaluation of an array literal makes a fresh array, whatever its elements
    ('fresh_literals', '''int next(int x) { int[] st = [30, 0, 0]; st[0] += x; st[1] += 1; return st[0] + st[1]; }
byte tag(int k) { byte[] t = ['a', 'b']; t[0] += (k is byte); return t[0]; }
bool flip(int k) { bool[] f = [false, true, false, false, false, false, false, false, true]; f[0] = not f[0]; f[8] = k > 1; return f[0] == f[8]; }
empty @is_you(int n) {
  for (int i = 1; i <= n; i += 1) { write(next(i)); write(' '); write(tag(i)); write(flip(i)); write(' ');
    int[] loc = [1, 2, 3]; loc[i % 3] += 10 * i; write(loc[0] + loc[1] + loc[2]); string[] ss = ["p", "q"]; ss[0] = "zz"; write(ss[0]); write(ss[1]); write(','); }
  int k = 0; while (k < 2) { k += 1; int[] z = [0, 0, 0, 0]; z[k] = k; write(z[0] + z[1] + z[2] + z[3]); int[] w = [n, 0, 0]; w[1] += k; write(w[1]); write(w[2]); }
}''', [['3'], ['1'], ['5']]),
    # array literals with literal zeros built over stack memory that held other data before
    ('zeros_over_used_stack', '''int fill(int x) { int[] junk = [x, x + 1, x + 2, x + 3, x + 4, x + 5]; return junk[5]; }
empty @is_you(int x) {
  write(fill(x)); write(' ');
  for (int i = 0; i < 2; i += 1) { { int[] a = [9, 9, 9, 9, x + 9]; write(a[4]); } { int[] b = [x, 0, 0, 0, 0]; write(b[0] + b[1] + b[2] + b[3] + b[4]); write(' '); byte[] c = [(x is byte), 0, 0]; write(c[1] is int); write(c[2] is int); bool[] d = [x > 0, false, false, false, false, false, false, false, false, false]; write(d[1]); write(d[9]); } }
  { byte q[6]; for (int k = 0; k < 6; k += 1) { q[k] = 255; } } int[] e = [0, x, 0]; write(e[0]); write(e[2]); string[] s = [""]; write(s[0].length);
}''', [['5'], ['0'], ['-3']]),
]

MISC += [
    # dynamic array lengths from every kind of expression (call returning a global / constant / parameter, element, length,
    # arithmetic), each followed by further allocations that must not overlap
    ('vla_length_sources', '''int g = 3; const int K = 2; int[] GA = [4, 1];
int cnt() { return g; } int two() { return K; } int same(int v) { return v; } int glen() { return GA.length; }
empty @is_you(int n) {
  int a[cnt()]; int b[2]; for (int i = 0; i < a.length; i += 1) { a[i] = 10 + i; } b[0] = 7; b[1] = 8; write(a.length); write(a[2]); write(b[0]); write(b[1]); write(',');
  byte c[two()]; byte d[same(n)]; c[0] = 'c'; c[1] = 'C'; for (int j = 0; j < d.length; j += 1) { d[j] = 'd'; } write(c); write(d); write(a[0]); write(',');
  bool e[GA[0]]; int f[glen()]; int h[a.length - 1]; e[3] = true; f[1] = 5; h[0] = 6; h[1] = 9; write(e[3]); write(f[1]); write(h[0] + h[1]); write(b[1]); write(a[1]); write(',');
  { string s[cnt() - 1]; s[0] = "x"; s[1] = "yz"; int t[K]; t[1] = 4; write(s[1]); write(t[1]); } int u[n]; int v[1]; v[0] = 3; if (n > 0) { u[n - 1] = 2; write(u[n - 1]); } write(v[0]);
}''', [['3'], ['1'], ['0']]),
]

MISC += [
    # compound assignments whose right-hand side changes the very element (through an alias), the index or a global operand
    ('aliased_compound', '''int gi = 5; byte gb = 7; int[] GA = [10, 20, 30]; byte[] GB = [1, 2, 3]; bool[] GO = [true, false, true];
int poke(int[] arr, int k) { arr[k] += 100; write('k'); return 1; }
byte pokeb(byte[] arr, int k) { arr[k] += 100; write('b'); return 1; }
bool pokeo(bool[] arr, int k) { arr[k] = not arr[k]; write('o'); return true; }
int bump() { gi += 1; return gi; }
empty @is_you(int x) {
  GA[0] += poke(GA, 0); write(GA[0]); write(' '); GA[1] = GA[1] + poke(GA, 1); write(GA[1]); write(' '); GA[2] *= poke(GA, 2) + x; write(GA[2]); write(' ');
  GB[0] += pokeb(GB, 0); write(GB[0] is int); write(' '); GO[0] = GO[0] == pokeo(GO, 0); write(GO[0]); write(' ');
  int[] l = [1, 2, 3]; l[0] += poke(l, 0); write(l[0]); write(' '); l[gi - 4] += bump(); write(l[1]); write(l[2]); write(' ');
  GA[bump() - 7] += bump(); write(GA[0]); write(' '); gi = 0; GA[gi] = bump() + gi; write(GA[0]); write(GA[1]); write(' ');
  gb += pokeb(GB, 1) + (GB[1] is byte); write(gb is int);
}''', [['1'], ['-3']]),
]

MISC += [
    # zero-initialised global arrays of every element type, each followed by another global: every element is written, then
    # the neighbours are read back
    ('global_arrays_sized', '''string names[5]; int after_names = 101; bool flags[11]; byte after_flags = 102; byte buf[5]; int after_buf = 103; int tab[5]; int after_tab = 104;
const string K = "k"; string last[2]; byte level = 7; int after_level = 105;
empty @is_you(int n) {
  for (int i = 0; i < 5; i += 1) { names[i] = "nm"; buf[i] = 255; tab[i] = 0 - 1; } for (int j = 0; j < 11; j += 1) { flags[j] = true; } last[1] = K; last[0] = "zz";
  level += 10; level = (level * 3) is byte; level -= (n is byte);
  write(after_names); write(after_flags is int); write(after_buf); write(after_tab); write(after_level); write(' ');
  write(names[4]); write(names.length); write(flags[10]); write(flags.length); write(buf[4] is int); write(tab[4]); write(last[1]); write(last[0]); write(level is int);
}''', [['1'], ['200']]),
]

MISC += [
    # user names that look like the labels and registers of the generated assembly
    ('label_like_names', '''int halt = 1; int tnt = 2; int r0 = 3; int ap = 4; int fp = 5; int defeat = 6; int loop_0 = 7; int stack_start = 8; int[] try_fp = [9, 10]; string all_is_win2 = "w"; const int[] func_f_0 = [11];
int end_call_0(int no_overflow_0) { return no_overflow_0 + halt; }
int func_is_you_0(int var_x_0) { int r1 = var_x_0 * 2; return r1 + r0; }
empty !write_int(int begin_try_0) { !truth_is_defeat(begin_try_0 == defeat); }
int string_0(string s) { return s.length; }
empty @is_you(int x) { int var_halt_0 = halt + tnt + r0 + ap + fp + defeat + loop_0 + stack_start; write(var_halt_0); write(end_call_0(x)); write(func_is_you_0(x)); write(try_fp[1]); write(func_f_0[0]);
  try { !write_int(x); write('n'); } stop { write('s'); } for (int loop_1 = 0; loop_1 < 2; loop_1 += 1) { write(loop_1); } write(string_0(all_is_win2)); write(string_0("string_0")); }''', [['6'], ['2']]),
]

MISC += [
    # one base name in all three flavours (and overloaded), identical parameter types
    ('same_base_name_flavours', '''int x = 0;
int f(int a) { return a + 1; } int @f(int a) { return a * 2; } int !f(int a) { !truth_is_defeat(a == 3); return a - 1; }
int f(byte a) { return 100 + a; } int @f(byte a) { return 200 + a; } empty g(const int[] p) { write(p[0]); } empty @g(const int[] p) { write(p[1]); } empty !g(const int[] p) { write(p[2]); !truth_is_defeat(p[2] == 9); }
empty @is_you(int a, byte b) { write(f(a)); write(' '); write(@f(a)); write(' '); try { write(!f(a)); write('n'); } undo { write('u'); } write(' '); write(f(b)); write(@f(b)); write(' ');
  int[] arr = [a, 5, 9 - a]; g(arr); @g(arr); try { !g(arr); write('m'); } stop { write('s'); } write(f(a) + @f(a)); }''', [['3', '1'], ['0', '2'], ['7', '255']]),
]

MISC += [
    # conditions, bounds and expression statements whose only point is their effect: bodies empty, values unused
    ('effects_only', '''int g = 0; int[] GA = [1, 2, 3];
bool side(bool r) { g += 1; write('s'); return r; } int bump() { g += 10; write('b'); return g; }
empty @is_you(int a) { if (side(true)) { } if (side(false)) { } else { } if (side(a > 0)) { ; } while (side(false)) { } for (; side(false);) { } for (int i = bump(); i < 0; i += 1) { }
  bump(); side(true); g + 1; bump() + 1; [bump(), 2]; [bump(), 3][0]; GA[bump() % 3]; (bump() > 0) and side(false); side(true) or side(true); -bump(); bump() is byte; "str"; GA.length; g ?? bump();
  if (a > 0) { } else { write('e'); } { } write(g); }''', [['1'], ['0']]),
]

# ------------------------------------------------------------------------------------------------ large and unusual shapes
def large_shapes():
    """legal programs a generator rarely writes: frames beyond 255 bytes, nine parameters, arrays of 250 elements, literals of
    120 elements, strings of 330 bytes, 70 string constants, 60 functions, recursion 25 deep, empty blocks and statements,
    `for` with missing clauses, else-if chains, three-level indices, long and/or chains, triple `not`, casts of casts,
    three levels of shadowing; time travel in odd places (`??` in a loop bound, an array length, an argument; empty try
    bodies and handlers; a handler with a loop and `continue`)"""
    progs = {}
    # 1. many locals (frame > 255 bytes), 9 parameters
    locs = ' '.join('int v%d = a + %d;' % (i, i) for i in range(70))
    locs_n = locs.replace('= a +', '= p1 +')
    suml = ' + '.join('v%d' % i for i in range(0, 70, 7))
    progs['big_frame'] = '''int nine(int p1, int p2, int p3, byte p4, int p5, bool p6, int p7, string p8, int p9) { %s byte tail = p4; return %s + p1 + p9 + (p6 is int) + p8.length + tail + v69; }
    empty @is_you(int a) { %s write(nine(a, 2, 3, 'c', 5, a > 0, 7, "eight", 9)); write(' '); write(%s); int[] arr = [v0, v35, v69]; write(arr[2]); }''' % (locs_n, suml, locs, suml)
    # 2. arrays longer than 255 / 256, bool arrays > 64, literal with 100+ elements
    lit = ', '.join(str((i * 7) % 251) for i in range(120))
    progs['big_arrays'] = '''int[] G = [%s]; bool flags[250]; byte big[250];
    empty @is_you(int n) { int s = 0; for (int i = 0; i < G.length; i += 1) { s += G[i]; } write(s); write(' '); flags[249] = true; flags[64] = true; flags[65] = n > 0; write(flags[249]); write(flags[64]); write(flags[65]); write(flags[63]); write(flags.length);
      big[128] = 'x'; big[127] = 'y'; big[249] = 'z'; write(big[128]); write(big[127]); write(big[249]); write(big.length); int loc[250]; loc[249] = n; loc[128] = 7; loc[0] = 1; write(loc[249] + loc[128] + loc[0]); write(loc.length);
      int[] ll = [%s]; write(ll[119]); write(ll.length); write(G[n %% 120]); }''' % (lit, lit)
    # 3. long strings and many string constants
    long_s = ''.join(chr(97 + (i * 5) % 26) for i in range(330))
    many = ' '.join('write("s%03d");' % i for i in range(0, 70))
    progs['long_strings'] = 'string L = "%s"; empty @is_you(int n) { write(L.length); write(L[329]); write(L[256]); write(L[255]); string m = "%s"; write(m.length); write(m[n %% 300]); %s }' % (long_s, long_s[::-1], many)
    # 4. syntax oddities
    progs['odd_syntax'] = '''int deep(int n) { if (n <= 0) { return 0; } return 1 + deep(n - 1); }
    empty nothing() { } empty nested() { { { { } } } ; ; }
    int chain(int x) { if (x == 0) { return 10; } else if (x == 1) { return 11; } else if (x == 2) { return 12; } else if (x == 3) { return 13; } else { return 14; } }
    empty @is_you(int a) { nothing(); nested(); ;; { } write(deep(25)); write(' '); for (;;) { a += 1; if (a > 5) { break; } } write(a); for (int i = 0; ; i += 1) { if (i == 3) { break; } write(i); } int k = 0; for (; k < 2;) { k += 1; } write(k);
      write(chain(0)); write(chain(3)); write(chain(9)); write(((((((((a)))))))) + 1); int[] m = [2, 0, 1]; int[] o = [1, 2, 0]; write(m[o[m[0]]]); write(not not not (a > 0)); write((((a is byte) is int) is byte) is int);
      write(a > 0 and a > 1 and a > 2 and a > 3 and a > 4 and a > 5 and a > 6 and a > 7 and a > 8 and a > 9 and a > 10); write(a < 0 or a < 1 or a < 2 or a < 3 or a < 4 or a < 5 or a < 6 or a < 7 or a < 8 or a < 9 or a < 100);
      int x = 1; { int y = x + 1; { int z = y + 1; write(z); } } }'''
    # 5. shadowing three levels, for-init variable, many functions
    funcs = '\n'.join('int f%d(int x) { return x + %d; }' % (i, i) for i in range(60))
    calls = ' + '.join('f%d(a)' % i for i in range(0, 60, 6))
    progs['many_functions'] = '''int x = 100; %s
    int sh(int x) { int r = x; { int x2 = r * 2; for (int x3 = 0; x3 < 2; x3 += 1) { r += x2 + x3; } } return r + x; }
    empty @is_you(int a) { write(%s); write(' '); write(sh(a)); write(x); }''' % (funcs, calls)
    # 6. time travel oddities
    progs['tt_odd'] = '''int g = 0;
    empty !d(int n) { if (n > 0) { !d(n - 1); } else { !truth_is_defeat(g == 1); } }
    int @helper(int a) { for (int i = 0; i < 3; i += 1) { try { g = (a == i) is int; !d(3); write('k'); } stop { write('s'); for (int j = 0; j < 2; j += 1) { if (j == 1) { break; } write(j); } continue; } write('.'); } return a; }
    empty @is_you(int a) { try { g = 1; !d(2); } undo { write(@helper(a)); } try { } undo { write('E'); } try { write('e'); } stop { } int q = (a ?? 3) + (deepq(a) ?? 1); write(q); for (int i = 0; i < (a ?? 2); i += 1) { write('l'); } int arr[(a ?? 1) + 1]; write(arr.length); write(pass(a ?? 5)); }
    int deepq(int a) { return a * 2; } int pass(int v) { return v; }'''
    items = []
    for name, src in progs.items():
        for args in (['1'], ['4']):
            for w in (2, 3):
                items.append(runner.Item(('large', name, tuple(args), w), src, args, w=w, s=700,
                                         meta={'family': 'large_' + name, 'classifier': {'seq': 'large_' + name}}))
    return items


# ------------------------------------------------------------------------------------------------ constants beyond 16 bits
WIDE_PROG = '''int big = 100000; int neg = -100000; int edge = 65536; int nedge = -65536; int e1 = 65535; int ne1 = -65537;
const int[] TAB = [70000, -70000, 8388607, -8388607, 16777, -1]; int[] MTAB = [-8000000, 8000000];
int scale(int v) { return v * 1000 - 65536; }
empty @is_you(int a) {
  write(big); write(' '); write(neg); write(' '); write(edge + nedge); write(' '); write(e1); write(' '); write(ne1); write(' ');
  for (int i = 0; i < TAB.length; i += 1) { write(TAB[i]); write(','); } write(MTAB[0] + MTAB[1]); write(' ');
  write(0 - 100000); write(' '); write(a * 70000); write(' '); write(a - 4000000); write(' '); write(scale(a)); write(' '); write(-123456 + a); write(' ');
  write(a * 1000 > 65536); write(a * 1000 < -65536); write(neg < nedge); write((neg is byte) is int); write(' ');
  int[] l = [a, -99999, 99999]; write(l[1] + l[2] + l[0]); write(' '); int d = 8388607 / (a + 1); write(d); write(' '); write(-8388607 % 1000); write(' '); write(big is bool);
}'''


def wide_constants(ws=(3, 4, 8)):
    """immediates, global initial values, table entries and folded constants between 2^16 and 2^23, at 24, 32 and 64 bits"""
    items = []
    for w in ws:
        for a in ('7', '-3'):
            items.append(runner.Item(('widec', a, w), WIDE_PROG, [a], w=w, s=120,
                                     meta={'family': 'wide_constants', 'classifier': {'seq': 'wide_constants'}}))
    return items


# ------------------------------------------------------------------------------------------------ enumerated expression trees
TREE_LEAVES = ['a', 'gi', 'gb', 'id(b)', 'ar[1]', 'GA[0]', '7', 's.length', 'bump()']
TREE_OPS = ['+', '-', '*']
TREE_PROG = '''int gi = 5; byte gb = 200; int[] GA = [11, 22];
int id(int v) { return v; }
int bump() { gi += 3; return gi; }
empty @is_you(int a, int b) { int[] ar = [a, b + 1, 3]; string s = "four";
%s
}'''


def expr_trees(seed, tier):
    """every arithmetic tree  L op (M op R)  and  (L op M) op R  over nine kinds of leaves (parameter, int / byte global, call,
    local / global element, literal, length, call with an effect on a global that other leaves read): operand
    preservation across sub-expressions (registers, spills, in-place globals), left-to-right order.  Thorough: all
    13 122 trees; quick: a seeded sample."""
    import itertools, random
    exprs = []
    for l, m, r in itertools.product(TREE_LEAVES, repeat=3):
        for o1, o2 in itertools.product(TREE_OPS, repeat=2):
            exprs.append('%s %s (%s %s %s)' % (l, o1, m, o2, r))
            exprs.append('(%s %s %s) %s %s' % (l, o1, m, o2, r))
    rnd = random.Random(seed)
    rnd.shuffle(exprs)
    per = 24
    if tier == 'quick':
        exprs = exprs[:per * 14]
    items = []
    for i in range(0, len(exprs), per):
        body = '\n'.join('  gi = 5; write(%s); write(\' \');' % e for e in exprs[i:i + per])
        src = TREE_PROG % body
        for w in ([2, 3] if (i // per) % 5 == 0 else [2]):
            items.append(runner.Item(('tree', i, w), src, ['3', '-2'], w=w, s=120,
                                     meta={'family': 'expr_trees', 'classifier': {'seq': 'expr_trees'}}))
    return items


def misc(seed, tier):
    items = []
    for name, src, argss in MISC:
        for a in argss:
            for w in ([2, 3] if tier == 'quick' else [2, 3, 4, 8]):
                items.append(runner.Item(('misc', name, tuple(a), w), src, a, w=w, s=200,
                                         meta={'family': 'misc_' + name, 'classifier': {'seq': name}}))
    return items
