SPECIFICATION Spec
CONSTANTS
 MaxParams = 2
INVARIANT NoBoolAccepted
INVARIANT OneArrayAccepted
INVARIANT ExamplesAccepted
