"""C07 helpers: the cases TLC prints for spec/Types.tla, their rendering to complete HiD programs, and the
observation of the real typechecker on a program.

Nothing in this file knows a typing rule.  It knows
  * the print format of Types.tla (section 9):  <<"HV", "pos|target|src;..|type;..|verdict|overload|rule">>
  * the prelude tables that declare the atoms of Types.tla!AtomTab (same names, same declared types)
  * one statement template per position (TEMPLATES below)
  * how to read accept / reject / crash and the bound overload off `parse(src).evaluate(env)`.
"""
import re

# ---------------------------------------------------------------------------------------------------------
# 1. parsing TLC output
_LINE = re.compile(r'<<\s*"HV",\s*"((?:[^"\\]|\\.)*)"\s*>>')
_UNESC = re.compile(r'\\(.)')
VERDICTS = ('accept', 'reject', 'dontcare')


class Case:
    __slots__ = ('pos', 'tgt', 'srcs', 'tys', 'verdict', 'ov', 'why', 'family')

    def __init__(self, pos, tgt, srcs, tys, verdict, ov, why, family):
        self.pos, self.tgt, self.srcs, self.tys = pos, tgt, srcs, tys
        self.verdict, self.ov, self.why, self.family = verdict, ov, why, family

    @property
    def id(self):
        return '%s|%s|%s' % (self.pos, self.tgt, ';'.join(self.srcs))

    def as_dict(self):
        return {'id': self.id, 'position': self.pos, 'target': self.tgt, 'sources': self.srcs, 'types': self.tys,
                'verdict': self.verdict, 'overload': self.ov, 'rule': self.why, 'family': self.family}


def parse_cases(out, family):
    """-> (cases, n_markers).  n_markers = number of `"HV"` markers in the output; the caller requires
    len(cases) == n_markers (a line torn by interleaved worker output would not match the pattern)."""
    cases = []
    for m in _LINE.finditer(out):
        text = _UNESC.sub(r'\1', m.group(1))
        f = text.split('|')
        if len(f) != 7 or f[4] not in VERDICTS:
            raise ValueError('malformed case line: %r' % text)
        srcs = f[2].split(';') if f[2] else []
        tys = f[3].split(';') if f[3] else []
        cases.append(Case(f[0], f[1], srcs, tys, f[4], int(f[5]), f[6], family))
    return cases, out.count('"HV"')


# ---------------------------------------------------------------------------------------------------------
# 2. rendering
# The full prelude (every atom of Types.tla!AtomTab).  A rendered program declares only the atoms its
# statement mentions (parsing time is proportional to program size; the typing of a statement does not depend
# on unused declarations).
_GLOBALS = (('gi', 'int gi = 7;'), ('gci', 'const int gci = 9;'), ('gb', 'byte gb = 2;'),
            ('gai', 'int[] gai = [1, 2];'), ('gcai', 'const int[] gcai = [3, 4];'))
_FUNCS = (('fi', 'int fi() { return 1; }'), ('fb', "byte fb() { return 'b'; }"),
          ('ft', 'bool ft() { return true; }'), ('fs', 'string fs() { return "r"; }'), ('fe', 'empty fe() { }'))
_PARAMS = (('i', 'int i'), ('b', 'byte b'), ('t', 'bool t'), ('s', 'string s'), ('ai', 'int[] ai'),
           ('cai', 'const int[] cai'), ('ab', 'byte[] ab'), ('cab', 'const byte[] cab'), ('at', 'bool[] at'),
           ('cat', 'const bool[] cat'), ('astr', 'string[] astr'), ('castr', 'const string[] castr'),
           ('pci', 'const int pci'))
_LOCALS = (('ci', 'const int ci = 5;'), ('cb', "const byte cb = 'c';"), ('ct', 'const bool ct = true;'),
           ('cs', 'const string cs = "k";'), ('cni', 'const int cni = i;'))
_IDENT = re.compile(r'[A-Za-z_]\w*')
FULL_PRELUDE = False          # True: always declare everything (slower; same verdicts)


def _used(text):
    names = set(_IDENT.findall(text))
    if 'cni' in names:
        names.add('i')
    return names


def _pick(table, names, sep):
    return sep.join(decl for name, decl in table if FULL_PRELUDE or name in names)


def _globals(stmt):
    g = _pick(_GLOBALS, _used(stmt), '\n')
    return g + '\n' if g else ''


def _program(stmt, ret='empty', name='g', extra='', after=''):
    """`extra` is declared before the function under test, `after` behind it (the position of the caller among
    the overloads must not matter: "first DECLARED overload" is about the overloads' own order)"""
    names = _used(stmt)
    funcs = _pick(_FUNCS, names, '\n')
    locs = _pick(_LOCALS, names, '\n    ')
    return '%s%s%s%s %s(%s) {\n%s    %s\n}\n%s' % (
        _globals(stmt), funcs + '\n' if funcs else '', extra, ret, name, _pick(_PARAMS, names, ', '),
        '    ' + locs + '\n' if locs else '', stmt, after)


# distinguishable return types for up to three user overloads (second observation of the binding)
_RETS = (('int', 'return 0;'), ('string', 'return "";'), ('bool', 'return true;'))


def _sigs(text):
    return [tuple(p for p in s.split(',') if p) for s in text.split(';')]


def _overloads(name, sigs, empty_ret=False, split=None):
    out, rets = [], []
    for k, sig in enumerate(sigs):
        ret, body = ('empty', '') if empty_ret else _RETS[k % len(_RETS)]
        params = ', '.join('%s p%d' % (t, j) for j, t in enumerate(sig))
        out.append('%s %s(%s) { %s }\n' % (ret, name, params, body))
        rets.append(ret)
    if split is not None:
        return ''.join(out[:split]), ''.join(out[split:]), rets
    return ''.join(out), rets


_EVENTS = {'L': 'int x = 1;', 'A': 'int x[2];', 'O': 'if (true) {', 'C': '}', 'U': 'x;',
           'F': 'for (int x = 0; x < 1; x += 1) {'}
N_BUILTIN_WRITE = 5      # the first five signatures of a write/writeext target are the builtins (not rendered)


def render(c):
    """Case -> (program text, observe) ; observe = None or dict(name=.., sigs=[..], rets=[..] or None)."""
    pos, tgt, s = c.pos, c.tgt, c.srcs
    if pos in ('stmt', 'operand', 'unary', 'idxsrc', 'idxidx', 'len', 'elem', 'is'):
        return _program('%s;' % s[0]), None
    if pos == 'spec':
        return _program('%s;' % s[0], name='@g'), None
    if pos == 'specdecl':
        return _program('%s x = %s;' % (tgt, s[0]), name='@g'), None
    if pos == 'decl':
        return _program('%s x = %s;' % (tgt, s[0])), None
    if pos == 'forinit':
        return _program('for (%s x = %s; t; ) { }' % (tgt, s[0])), None
    if pos == 'nesteddecl':
        return _program('if (t) { } else { while (t) { %s x = %s; } }' % (tgt, s[0])), None
    if pos == 'trydecl':
        return _program('try { %s x = %s; } undo { %s y = %s; }' % (tgt, s[0], tgt, s[0]), name='@g'), None
    if pos == 'deadcode':
        return _program('return; %s x = %s;' % (tgt, s[0])), None
    if pos == 'sleep':
        return _program('sleep(%s);' % s[0]), None
    if pos == 'forstep':
        return _program('for (; t; %s %s= %s) { }' % (s[0], tgt, s[1])), None
    if pos == 'gdecl':
        return '%s%s gx = %s;\n' % (_globals(s[0]), tgt, s[0]), None
    if pos == 'garrinit':
        return '%s%s gx[%s];\n' % (_globals(s[0]), tgt, s[0]), None
    if pos == 'arrinit':
        return _program('%s x[%s];' % (tgt, s[0])), None
    if pos == 'assign':
        return _program('%s = %s;' % (s[0], s[1])), None
    if pos == 'inc':
        return _program('%s %s= %s;' % (s[0], tgt, s[1])), None
    if pos == 'arg':
        return _program('f(%s);' % s[0], extra='empty f(%s p0) { }\n' % tgt), None
    if pos == 'ret':
        return _program('return %s;' % s[0], ret=tgt), None
    if pos == 'noret':
        ret, kind = tgt.split(',')
        return _program('return;' if kind == 'bare' else '', ret=ret), None
    if pos == 'if':
        return _program('if (%s) { }' % s[0]), None
    if pos == 'while':
        return _program('while (%s) { }' % s[0]), None
    if pos == 'for':
        return _program('for (; %s; ) { }' % s[0]), None
    if pos == 'write':
        return _program('write(%s);' % s[0]), {'name': 'write', 'sigs': _sigs(tgt), 'rets': None}
    if pos == 'writeext':
        sigs = _sigs(tgt)
        extra, _ = _overloads('write', sigs[N_BUILTIN_WRITE:], empty_ret=True)
        return _program('write(%s);' % ', '.join(s), extra=extra), {'name': 'write', 'sigs': sigs, 'rets': None}
    if pos in ('overload', 'overload2', 'arity'):
        sigs = _sigs(tgt)
        import zlib
        cut = zlib.crc32(('%s|%s' % (tgt, ';'.join(s))).encode()) % (len(sigs) + 1)     # caller after `cut` overloads
        extra, after, rets = _overloads('f', sigs, split=cut)
        return _program('f(%s);' % ', '.join(s), extra=extra, after=after), {'name': 'f', 'sigs': sigs, 'rets': rets}
    if pos == 'undeclared':
        return _program('f(%s);' % ', '.join(s)), None
    if pos == 'names':
        g, p, sib, body = tgt.split(',')
        lines = ['int x = 1;'] * int(g)
        if sib == '1':
            lines.append('empty h(int x) { int y = x; }')
        lines.append('empty g(%s) {' % ', '.join(['int x'] * int(p)))
        depth = 0
        for ev in body:
            lines.append('    ' + _EVENTS[ev])
            depth += {'O': 1, 'F': 1, 'C': -1}.get(ev, 0)
        lines.extend(['    }'] * depth)
        lines.append('}')
        return '\n'.join(lines) + '\n', None
    if pos == 'funcs':
        lines = []
        for d in tgt.split(';'):
            ret, name, params = d.split(':')
            ps = ', '.join('%s a%d' % (t, j) for j, t in enumerate(p for p in params.split(',') if p))
            lines.append('%s %s(%s) { %s }' % (ret, name, ps, 'return 0;' if ret == 'int' else ''))
        return '\n'.join(lines) + '\n', None
    if pos == 'typesyntax':
        where, el, dims, const = tgt.split(',')
        dims = int(dims)
        ty = ('const ' if const == '1' else '') + el + '[]' * dims
        val = '[]' if dims else {'int': '1', 'string': '"a"', 'empty': 'fe()'}[el]
        pre = 'empty fe() { }\n'
        if where == 'local':
            return pre + 'empty g() { %s x = %s; }\n' % (ty, val), None
        if where == 'param':
            return pre + 'empty g(%s x) { }\n' % ty, None
        if where == 'global':
            return pre + '%s x = %s;\nempty g() { }\n' % (ty, val if el != 'empty' or dims else '1'), None
        if where == 'ret':
            body = '' if (el == 'empty' and not dims) else 'return %s;' % val
            return pre + '%s g() { %s }\n' % (ty, body), None
        if where == 'cast':
            return pre + 'empty g() { (%s is %s); }\n' % (val if el != 'empty' or dims else '1', ty), None
        if where == 'arrinit':
            return pre + 'empty g() { %s x[2]; }\n' % ty, None
    raise ValueError('no template for position %r' % pos)


# ---------------------------------------------------------------------------------------------------------
# 3. observing the real typechecker (call init() once per process, after common.use_repo / hidc_api.load)
_api = None


def init():
    global _api
    from . import hidc_api
    hidc_api.load()
    from hidc.lexer import SourceCode
    from hidc.parser import parse
    from hidc.ast import Environment
    from hidc.errors import CompilerError
    _api = (SourceCode, parse, Environment, CompilerError)


def _type_txt(t):
    if hasattr(t, 'el_type'):
        return ('const ' if t.const else '') + str(t.el_type.value) + '[]'
    return str(t.value)


def _find_call(checked, name):
    """The typechecked call statement `name(...)` in the body of the test function g."""
    for fn in checked.func_decls:
        if fn.name.base_name == 'g':
            for st in fn.body.stmts:
                if type(st).__name__ == 'FuncCall' and st.func.name == name:
                    return st
    return None


def observe(src, obs=None):
    """-> (outcome, message, bound) ; outcome in accept/reject/crash ; bound = None or
    dict(sig=tuple of coerced argument types, ret=type of the call expression)."""
    SourceCode, parse, Environment, CompilerError = _api
    try:
        checked = parse(SourceCode.from_string(src)).evaluate(Environment.empty())
    except CompilerError as e:
        return 'reject', '%s: %s' % (type(e).__name__, e), None
    except RecursionError as e:
        return 'crash', 'RecursionError', None
    except Exception as e:                                     # noqa: any other exception is a crash
        return 'crash', '%s: %s' % (type(e).__name__, e), None
    bound = None
    if obs is not None:
        try:                       # tree layout is an implementation detail: degrade, never alarm, if it moved
            call = _find_call(checked, obs['name'])
            if call is not None:
                bound = {'sig': tuple(_type_txt(a.type) for a in call.args), 'ret': _type_txt(call.type)}
        except (AttributeError, TypeError):
            bound = None
    return 'accept', '', bound
