"""Static half of C16: spec/ExitModes.tla -> hidc's typechecker (exit modes, 'Missing return', dropped code).

TLC enumerates every function-body shape of the configured strata and prints, per shape, the flavour that makes
it legal, the ground truth CanComplete, the verdict of the documented rule and the set of reachable statements.
This module renders the shape as a program, runs lexer + parser + `Program.evaluate` of the working tree and
compares:
  V1  hidc accepts `int f(..) { shape }`                     =>  CanComplete is FALSE
  V2  hidc drops a statement (or flags it 'Unreachable')      =>  the statement is not in Reachable
(over-rejections and disagreements with the documented rule are counted as information only).

    cd /verif && /venv/bin/python -m hv.exitmodes --tier quick
    run(tier, seed) -> dict   (violations, states, transitions, cases, samples, ...) for hv/checks/c16.py
    render_program(shape_text, flavour, seed, main=True) -> source   (for the dynamic half)
"""
import argparse, json, multiprocessing, os, re, sys, time, zlib
from . import common, tlc, hidc_api

PROP = 'C16'

FULL = dict(Leaves='prbcdhw', Ctl1='ilLP', Ctl2='et', Blocks=True)      # every kind
CORE = dict(Leaves='prbd', Ctl1='iL', Ctl2='et', Blocks=False)           # dead code, if, infinite loop, if/else, try
LOOPY = dict(Leaves='rb', Ctl1='L', Ctl2='e', Blocks=False)              # break / return under nested infinite loops
TRYISH = dict(Leaves='rd', Ctl1='', Ctl2='et', Blocks=False)             # defeat / return under nested if/else and try
# strata: (MaxNodes, alphabet).  A shape that several strata contain is compared once.  Measured sizes (states /
# shapes): (3,FULL) 12 149 / 4 602   (4,CORE) 50 743 / 16 055   (4,FULL) 333 045 / 117 510
#          (5,CORE) 933 117 / 281 039   (6,LOOPY) 436 046 / 120 955   (6,TRYISH) 775 859 / 193 674
# [(6,FULL) would be ~10^8 shapes: the full alphabet is exhaustive to 4 nodes, sub-alphabets to 5 and 6]
TIERS = {
    'quick': [(3, FULL), (4, CORE)],
    'thorough': [(4, FULL), (5, CORE), (6, LOOPY), (6, TRYISH)],
}
CASE_RE = re.compile(r'<<\s*"EM",\s*"([^"]*)",\s*"(\w)",\s*(TRUE|FALSE),\s*(TRUE|FALSE),\s*\{([\d,\s]*)\}\s*>>')
LEAVES = 'prbcdhw'
ARITY = {'i': 1, 'l': 1, 'L': 1, 'P': 1, 'e': 2, 't': 2}


# ------------------------------------------------------------------------------------------------ shapes
class Node:
    __slots__ = ('k', 'id', 'c')

    def __init__(self, k, id, c):
        self.k, self.id, self.c = k, id, c


def parse_shape(s):
    """shape text -> list of statement Nodes; ids are 1-based character positions (as in the spec)."""
    def plist(i):
        out = []
        while i < len(s) and s[i] != '}':
            nd, i = pstmt(i)
            out.append(nd)
        return out, i

    def pstmt(i):
        k = s[i]
        if k in LEAVES:
            return Node(k, i + 1, []), i + 1
        if k == '{':
            c, j = plist(i + 1)
            assert s[j] == '}'
            return Node('{', i + 1, c), j + 1
        bodies = []
        j = i + 1
        for _ in range(ARITY[k]):
            assert s[j] == '{'
            c, j2 = plist(j + 1)
            assert s[j2] == '}'
            bodies.append(Node('{', j + 1, c))
            j = j2 + 1
        return Node(k, i + 1, bodies), j

    stmts, i = plist(0)
    assert i == len(s), s
    return stmts


def _pick(seed, text, nid, what):
    return zlib.crc32(('%d:%s:%d:%s' % (seed, text, nid, what)).encode()) & 1


class Renderer:
    """shape -> HiD source.  Spellings of one class alternate deterministically in (seed, shape, position)."""
    CONDS = 'abc'

    def __init__(self, text, seed):
        self.text, self.seed, self.nc = text, seed, 0
        self.bare = {}          # body id -> rendered without braces
        self.as_for = {}        # loop id -> rendered as for

    def cond(self):
        c = self.CONDS[self.nc % 3]
        self.nc += 1
        return c

    def stmts(self, nodes, ind, void):
        return ''.join(self.stmt(nd, ind, void) for nd in nodes)

    def body(self, b, ind, void, may_bare=True):
        if may_bare and len(b.c) == 1 and b.c[0].k in ARITY and _pick(self.seed, self.text, b.id, 'bare'):
            self.bare[b.id] = True
            return '\n' + self.stmt(b.c[0], ind + 1, void).rstrip('\n')
        self.bare[b.id] = False
        return ' {\n' + self.stmts(b.c, ind + 1, void) + '    ' * ind + '}'

    def stmt(self, nd, ind, void):
        pad = '    ' * ind
        k = nd.k
        if k == 'p':
            return pad + 'x = 1;\n'
        if k == 'r':
            return pad + ('return;\n' if void else 'return 1;\n')
        if k == 'b':
            return pad + 'break;\n'
        if k == 'c':
            return pad + 'continue;\n'
        if k == 'd':
            return pad + '!is_defeat();\n'
        if k == 'h':
            # a defeat call that may or may not defeat: as a statement, or nested inside an expression
            # (the typechecker only tracks defeat calls that are whole statements)
            sp = zlib.crc32(('%d:%s:%d:hspell' % (self.seed, self.text, nd.id)).encode()) % 3
            if sp == 0:
                return pad + '!h(%s);\n' % self.cond()
            if sp == 1:
                return pad + 'x = !hv(%s) + x;\n' % self.cond()
            return pad + 'x = x * !hv(%s);\n' % self.cond()
        if k == 'w':
            return pad + ('all_is_broken();\n' if _pick(self.seed, self.text, nd.id, 'w') else 'all_is_win();\n')
        if k == '{':
            return pad + '{\n' + self.stmts(nd.c, ind + 1, void) + pad + '}\n'
        if k == 'i':
            return pad + 'if (%s)' % self.cond() + self.body(nd.c[0], ind, void) + '\n'
        if k == 'e':
            # the first body keeps its braces: a bare `if` there would capture the else
            return (pad + 'if (%s)' % self.cond() + self.body(nd.c[0], ind, void, may_bare=False) + ' else'
                    + self.body(nd.c[1], ind, void) + '\n')
        if k in 'lL':
            f = self.as_for[nd.id] = bool(_pick(self.seed, self.text, nd.id, 'for'))
            if k == 'l':
                head = 'for (x = 0; %s; x += 1)' % self.cond() if f else 'while (%s)' % self.cond()
            else:
                head = 'for (;;)' if f else 'while (true)'
            return pad + head + self.body(nd.c[0], ind, void) + '\n'
        if k == 'P':
            return pad + 'preempt' + self.body(nd.c[0], ind, void) + '\n'
        if k == 't':
            h = 'stop' if _pick(self.seed, self.text, nd.id, 'stop') else 'undo'
            return (pad + 'try' + self.body(nd.c[0], ind, void) + ' ' + h + self.body(nd.c[1], ind, void) + '\n')
        raise AssertionError(k)


SIGIL = {'p': '', 'y': '@', 'd': '!'}
PARAMS = '(bool a, bool b, bool c, int x)'
HELPER = ('empty !h(bool a) {\n    if (a) {\n        !is_defeat();\n    }\n}\n'
          'int !hv(bool a) {\n    if (a) {\n        !is_defeat();\n    }\n    return 1;\n}\n')


def render_function(text, flavour, seed, name='f', trailing_return=False):
    """-> (source of `int <flavour>name(bool a, bool b, bool c, int x) { shape }`, Renderer)"""
    r = Renderer(text, seed)
    body = r.stmts(parse_shape(text), 1, False)
    if trailing_return:
        body += '    return 0;\n'
    return 'int %s%s%s {\n%s}\n' % (SIGIL[flavour], name, PARAMS, body), r


def render_program(text, flavour, seed, main=True):
    """A complete program around `f` (with an @is_you that calls it legally)."""
    src = (HELPER if 'h' in text else '') + render_function(text, flavour, seed)[0]
    if main:
        call = '%sf(true, false, true, 0)' % SIGIL[flavour]
        if flavour == 'd':
            src += 'empty @is_you() {\n    try {\n        int r = %s;\n    } undo {\n    }\n}\n' % call
        else:
            src += 'empty @is_you() {\n    int r = %s;\n}\n' % call
    return src


# ------------------------------------------------------------------------------------------------ TLC side
def tlc_cases(maxnodes, alpha, timeout):
    d = common.scratch('hv_em_')
    try:
        with open(os.path.join(d, 'ExitModesMC.tla'), 'w') as f:
            f.write('---- MODULE ExitModesMC ----\nEXTENDS ExitModes\n====\n')
        sset = lambda s: '{' + ', '.join('"%s"' % ch for ch in s) + '}'
        with open(os.path.join(d, 'ExitModesMC.cfg'), 'w') as f:
            f.write('SPECIFICATION Spec\nCONSTANTS\n MaxNodes = %d\n Leaves = %s\n Ctl1 = %s\n Ctl2 = %s\n Blocks = %s\n'
                    ' Emit = TRUE\nINVARIANT CaseInv\n' % (maxnodes, sset(alpha['Leaves']), sset(alpha['Ctl1']),
                                                          sset(alpha['Ctl2']), 'TRUE' if alpha['Blocks'] else 'FALSE'))
        r = tlc.run(d, 'ExitModesMC', timeout=timeout, tag='-none-')
    finally:
        common.rm(d)
    if not r.ok:
        raise common.Machinery('TLC on ExitModes.tla (MaxNodes=%d %s) failed: rc=%s timeout=%s errors=%s violated=%s'
                               % (maxnodes, alpha['Leaves'], r.rc, r.timed_out, r.errors[:3], r.violated))
    cases = CASE_RE.findall(r.out)
    if len(cases) != r.out.count('"EM"'):
        raise common.Machinery('ExitModes.tla: %d printed cases, %d parsed' % (r.out.count('"EM"'), len(cases)))
    return cases, r


# --------------------------------------------------------------------------------------------- python side
_H = {}


def _init_worker():
    hidc_api.load()
    from hidc.lexer import SourceCode
    from hidc.parser import parse
    from hidc.ast import Environment
    from hidc.errors import CompilerError, TypeCheckError
    _H.update(SourceCode=SourceCode, parse=parse, Environment=Environment, CompilerError=CompilerError,
              TypeCheckError=TypeCheckError)


def _base(decl):
    return getattr(decl.name, 'base_name', None) or str(decl.name.name).lstrip('@!')


class Walk:
    """Parallel walk of the shape, the parsed tree and the typechecked tree: which statements were dropped."""

    def __init__(self, rend):
        self.rend = rend
        self.dropped = []       # node ids in the order strict mode would meet them
        self.spans = {}         # node id -> parsed span

    def lst(self, nodes, pblock, cblock, extra=0, top=False):
        P, C = pblock.stmts, cblock.stmts
        if top and len(C) == len(P) + 1:
            C = C[:len(P)]      # FuncDeclaration.evaluate appended its implicit `return` (body believed to complete)
        if len(P) != len(nodes) + extra or len(C) > len(P):
            raise common.Machinery('shape and parse tree disagree (%d statements vs %d)' % (len(nodes), len(P)))
        for i, nd in enumerate(nodes):
            self.spans[nd.id] = P[i].span
        for i, nd in enumerate(nodes[:len(C)]):
            self.stmt(nd, P[i], C[i])
        self.dropped.extend(nd.id for nd in nodes[len(C):])
        return len(C)

    def body(self, b, p, c):
        if self.rend.bare.get(b.id):
            self.spans[b.c[0].id] = p.span
            self.stmt(b.c[0], p, c)
        else:
            self.lst(b.c, p, c)

    def stmt(self, nd, p, c):
        k = nd.k
        if k in LEAVES:
            return
        if k == '{':
            self.lst(nd.c, p, c)
        elif k in 'lL':
            if self.rend.as_for[nd.id]:     # LoopBlock.for_loop: CodeBlock((init?, loop))
                if len(c.stmts) != len(p.stmts):
                    raise common.Machinery('for wrapper lost a statement')
                p, c = p.stmts[-1], c.stmts[-1]
            self.body(nd.c[0], p.body, c.body)
        elif k in 'iP':
            self.body(nd.c[0], p.body, c.body)
        elif k == 'e':
            self.body(nd.c[0], p.body, c.body)
            self.body(nd.c[1], p.else_block, c.else_block)
        elif k == 't':
            self.body(nd.c[0], p.body, c.body)
            self.body(nd.c[1], p.handler.body, c.handler.body)


def _evaluate(prog, **opt):
    """-> ('ok', env) | ('rejected', location) | ('crash', text)"""
    H = _H
    env = H['Environment'].empty(**opt)
    try:
        prog.evaluate(env)
        return 'ok', env
    except H['TypeCheckError'] as e:
        return 'rejected', (e.context[-1] if e.context else None)
    except H['CompilerError'] as e:
        raise common.Machinery('unexpected %s: %s' % (type(e).__name__, e))
    except Exception as e:                       # an internal error of the compiler (C10's business, counted here)
        return 'crash', '%s: %s' % (type(e).__name__, e)


def check_case(case, seed, full=False):
    """Render one shape, run the front end on it, compare with the spec's verdicts.
    `f` = the shape alone: accepted, or rejected with 'Missing return' (V1).  What was dropped (V2) is read off the
    typechecked tree: f's own when it is accepted, otherwise that of `g` = shape + `return 0;` (always acceptable).
    Parsing is 95% of the cost, so g is only built when f is rejected and (the unreachable_error run flagged a
    statement, or the shape is in the 1/8 sample, or full=True)."""
    text, flv, can, rule, reach = case
    can, rule = can == 'TRUE', rule == 'TRUE'
    reach = {int(x) for x in reach.replace(',', ' ').split()}
    H = _H
    nodes = parse_shape(text)
    helper = HELPER if 'h' in text else ''
    fsrc, frend = render_function(text, flv, seed, 'f')
    res = {'text': text, 'flv': flv, 'can': can, 'rule': rule, 'bad': [], 'src': helper + fsrc, 'crash': None,
           'dropped': [], 'strict': None, 'incons': False, 'tree': None}
    try:
        fprog = H['parse'](H['SourceCode'].from_string(helper + fsrc))
    except H['CompilerError'] as e:
        raise common.Machinery('shape %r does not parse: %s\n%s' % (text, e, helper + fsrc))
    pf = next(d for d in fprog.func_decls if _base(d) == 'f')

    # ---- V1: accepted => cannot complete
    st, info = _evaluate(fprog)
    if st == 'rejected' and info != pf.body.span:   # anything but "this body may complete" is a broken rendering
        raise common.Machinery('shape %r: unexpected rejection at %s\n%s' % (text, info, helper + fsrc))
    res['accept'] = {'ok': True, 'rejected': False, 'crash': None}[st]
    if st == 'crash':
        res['crash'] = info
    if res['accept'] and can:
        res['bad'].append({'kind': 'accepts-completable'})
    dropped = None
    if st == 'ok':
        cf = info.funcs[pf.name][pf.param_types]     # the hand-off CodeGen itself reads
        if cf is pf:
            raise common.Machinery('typechecked f not found for %r' % text)
        w = Walk(frend)
        w.lst(nodes, pf.body, cf.body, top=True)
        dropped = list(w.dropped)
        res['tree'] = 'f'

    # ---- V2 with unreachable_error=True: the first statement hidc would drop is reported instead
    flagged = None
    st2, info2 = _evaluate(fprog, unreachable_error=True)
    if st2 == 'rejected' and info2 != pf.body.span:
        w2 = Walk(frend)
        w2.spans_only(nodes, pf.body)
        hit = [nid for nid, sp in w2.spans.items() if sp == info2]
        if not hit:
            raise common.Machinery('shape %r: strict mode error at %s is not a statement of the shape' % (text, info2))
        flagged = min(hit)
        res['strict'] = ('flagged', flagged)
        if flagged in reach:
            res['bad'].append({'kind': 'dropped-reachable', 'stmt': flagged, 'mode': 'unreachable_error'})
    else:
        res['strict'] = (st2, None)
        if st2 == 'crash':
            res['crash'] = res['crash'] or info2
        elif not res['crash'] and (st2 == 'ok') != res['accept']:
            res['incons'] = True

    # ---- V2, default mode: compare the typechecked tree with the parsed one
    if dropped is None and (flagged is not None or res['crash'] or full or zlib.crc32(text.encode()) % 8 == 0):
        gsrc, grend = render_function(text, flv, seed, 'g', trailing_return=True)
        gprog = H['parse'](H['SourceCode'].from_string(helper + gsrc))
        pg = next(d for d in gprog.func_decls if _base(d) == 'g')
        st, info = _evaluate(gprog)
        if st == 'rejected':
            # cannot happen with K1/K6 (the last statement is a return: it is either processed, or dropped because
            # the list cannot complete): such a compiler is inconsistent; there is no tree to look at
            if info != pg.body.span:
                raise common.Machinery('shape %r: g (shape + return) rejected at %s\n%s' % (text, info, helper + gsrc))
            res['incons'] = True
        elif st == 'crash':
            res['crash'] = res['crash'] or info
        else:
            cg = info.funcs[pg.name][pg.param_types]
            if cg is pg:
                raise common.Machinery('typechecked g not found for %r' % text)
            w = Walk(grend)
            w.lst(nodes, pg.body, cg.body, extra=1, top=True)
            dropped = list(w.dropped)
            res['tree'] = 'g'
            # the appended `return 0;` is dropped exactly when hidc believes the shape cannot complete
            trailing = len(cg.body.stmts) <= len(nodes)
            if trailing and can:
                res['bad'].append({'kind': 'dropped-reachable', 'stmt': 0, 'mode': 'default',
                                   'note': 'the `return 0;` appended after the shape was dropped although the shape can complete'})
            if res['accept'] is not None and trailing != res['accept']:
                res['incons'] = True
    if dropped is not None:
        res['dropped'] = dropped
        for nid in dropped:
            if nid in reach:
                res['bad'].append({'kind': 'dropped-reachable', 'stmt': nid, 'mode': 'default'})
        if not res['crash'] and (dropped[0] if dropped else None) != flagged:
            res['incons'] = True                     # the two modes disagree about the first dropped statement
    return res


def _spans_only(self, nodes, pblock):
    """record the span of every statement of the shape in an un-typechecked tree"""
    P = pblock.stmts
    for nd, p in zip(nodes, P):
        self.spans[nd.id] = p.span
        self._sp_stmt(nd, p)


def _sp_stmt(self, nd, p):
    k = nd.k
    if k in LEAVES:
        return

    def body(b, pb):
        if self.rend.bare.get(b.id):
            self.spans[b.c[0].id] = pb.span
            self._sp_stmt(b.c[0], pb)
        else:
            self.spans_only(b.c, pb)
    if k == '{':
        self.spans_only(nd.c, p)
    elif k in 'lL':
        if self.rend.as_for[nd.id]:
            p = p.stmts[-1]
        body(nd.c[0], p.body)
    elif k in 'iP':
        body(nd.c[0], p.body)
    elif k == 'e':
        body(nd.c[0], p.body)
        body(nd.c[1], p.else_block)
    elif k == 't':
        body(nd.c[0], p.body)
        body(nd.c[1], p.handler.body)


Walk.spans_only = _spans_only
Walk._sp_stmt = _sp_stmt


def _work(args):
    cases, seed, corrupt = args
    out = []
    for case in cases:
        if corrupt is not None and case[0] == corrupt:
            case = (case[0], case[1], 'TRUE' if case[2] == 'FALSE' else 'FALSE', case[3], case[4])
        r = check_case(case, seed)
        slim = {k: r[k] for k in ('text', 'flv', 'can', 'rule', 'accept', 'bad', 'strict', 'incons', 'crash', 'tree')}
        slim['ndrop'] = len(r['dropped'])
        if r['bad']:
            slim['src'] = r['src']
            slim['dropped'] = r['dropped']
        out.append(slim)
    return out


def run(tier, seed, cache=None, corrupt=None, strata=None):
    """cache: json file with the TLC output of an identical earlier run (self-test only; the TLC side does not
    depend on the tree under test).  corrupt: shape text whose CanComplete bit is falsified."""
    t0 = time.time()
    hidc_api.load()
    strata = strata or TIERS[tier]
    out = {'violations': [], 'states': 0, 'transitions': 0, 'cases': 0, 'samples': [], 'strata': [], 'tlc_wall_s': 0.0}
    cnt = dict(accepted=0, rejected=0, crashed=0, over_rejections=0, rule_disagreements=0, shapes_with_dropped_code=0,
               dropped_statements=0, trees_compared=0, strict_mode_runs=0, strict_mode_flagged=0, inconsistent=0,
               flavour_plain=0, flavour_you=0, flavour_defeat=0, can_complete=0)
    kinds = {}
    cached = None
    if cache and os.path.exists(cache):
        with open(cache) as f:
            cached = json.load(f)
    tosave = []
    seen = set()
    bad_all = []
    crashes = []
    accepted = []
    pool = multiprocessing.Pool(common.NPROC, initializer=_init_worker)
    try:
        for si, (maxnodes, alpha) in enumerate(strata):
            if cached is not None:
                ent = cached[si]
                cases, st, tr, wall = [tuple(c) for c in ent['cases']], ent['states'], ent['transitions'], 0.0
            else:
                cases, r = tlc_cases(maxnodes, alpha, timeout=1500 if tier == 'thorough' else 400)
                st, tr, wall = r.distinct, r.generated, r.wall
                if cache:
                    tosave.append({'cases': cases, 'states': st, 'transitions': tr})
            out['states'] += st
            out['transitions'] += tr
            out['tlc_wall_s'] += wall
            fresh = [c for c in cases if c[0] not in seen]
            seen.update(c[0] for c in fresh)
            chunk = max(1, min(500, len(fresh) // (common.NPROC * 4) or 1))
            jobs = [(fresh[i:i + chunk], seed, corrupt) for i in range(0, len(fresh), chunk)]
            for res in pool.imap_unordered(_work, jobs):
                for r in res:
                    out['cases'] += 1
                    cnt['crashed' if r['crash'] else 'accepted' if r['accept'] else 'rejected'] += 1
                    if r['crash'] and len(crashes) < 5:
                        crashes.append({'shape': r['text'], 'error': r['crash']})
                    if r['accept']:
                        accepted.append((r['text'], r['flv']))
                    cnt['can_complete'] += r['can']
                    cnt['over_rejections'] += (r['accept'] is False) and (not r['can'])
                    cnt['rule_disagreements'] += r['accept'] is not None and r['accept'] != r['rule']
                    cnt['shapes_with_dropped_code'] += r['ndrop'] > 0
                    cnt['dropped_statements'] += r['ndrop']
                    cnt['strict_mode_runs'] += r['strict'] is not None
                    cnt['trees_compared'] += r['tree'] is not None
                    cnt['strict_mode_flagged'] += bool(r['strict'] and r['strict'][0] == 'flagged')
                    cnt['inconsistent'] += bool(r['incons'])
                    cnt[{'p': 'flavour_plain', 'y': 'flavour_you', 'd': 'flavour_defeat'}[r['flv']]] += 1
                    for ch in set(r['text']):
                        kinds[ch] = kinds.get(ch, 0) + 1
                    if r['bad']:
                        bad_all.append(r)
            out['strata'].append({'MaxNodes': maxnodes, 'alphabet': alpha['Leaves'] + alpha['Ctl1'] + alpha['Ctl2']
                                  + ('{' if alpha['Blocks'] else ''), 'states': st, 'shapes': len(cases),
                                  'new_shapes': len(fresh), 'tlc_wall_s': round(wall, 1)})
            pick = [c for c in fresh if c[2] == 'FALSE' and len(c[0]) > 6][:2] + [c for c in fresh if c[2] == 'TRUE'][-1:]
            for c in pick:
                out['samples'].append({'shape': c[0], 'flavour': c[1], 'CanComplete': c[2] == 'TRUE',
                                       'rule_accepts': c[3] == 'TRUE', 'reachable': c[4],
                                       'source': render_program(c[0], c[1], seed, main=False)})
    finally:
        pool.close()
        pool.join()
    if cache and cached is None:
        with open(cache, 'w') as f:
            json.dump(tosave, f)
    out.update(cnt)
    out['tlc_wall_s'] = round(out['tlc_wall_s'], 1)
    out['kinds_exercised'] = ''.join(sorted(kinds))
    if out['cases'] == 0:
        raise common.Machinery('ExitModes: no shape was compared')
    wanted = set(''.join(a['Leaves'] + a['Ctl1'] + a['Ctl2'] + ('{' if a['Blocks'] else '') for _, a in strata))
    if not wanted <= set(kinds):
        raise common.Machinery('ExitModes: kinds never generated: %s' % sorted(wanted - set(kinds)))
    if cnt['accepted'] == 0 or cnt['rejected'] == 0 or cnt['dropped_statements'] == 0:
        raise common.Machinery('ExitModes: vacuous run %s' % cnt)
    # a few accepted samples must compile completely (the renderer produces whole legal programs)
    ncomp = 0
    accepted.sort(key=lambda t: zlib.crc32(('%d:%s' % (seed, t[0])).encode()))
    for text, flv in accepted[:12]:
        try:
            hidc_api.compile_src(render_program(text, flv, seed))
            ncomp += 1
        except (hidc_api.Rejected, hidc_api.Crashed) as e:
            crashes.append({'shape': text, 'error': 'whole program: %s' % e})
    if ncomp == 0:
        raise common.Machinery('none of the rendered sample programs compiles: %s' % crashes[-1:])
    out['fully_compiled_samples'] = ncomp
    out['accepted_shapes'] = accepted          # (shape text, flavour), seeded order: for the dynamic half of C16
    out['traces_validated_against_impl'] = out['cases']
    out['exhaustive'] = 'every shape of each stratum (node bound x alphabet), see strata'
    out['compiler_crashes'] = crashes
    bad_all.sort(key=lambda r: (len(r['text']), r['text']))
    out['violating_shapes'] = len(bad_all)
    for r in bad_all[:25]:
        b = r['bad'][0]
        if b['kind'] == 'accepts-completable':
            what = 'hidc accepts a value-returning function whose body can run off its end: shape %s' % r['text']
        else:
            what = 'hidc discards a reachable statement (#%s of shape %s, %s mode)' % (b['stmt'], r['text'], b['mode'])
        out['violations'].append(common.Violation(
            PROP, what, {'half': 'static', 'kind': b['kind'], 'shape': r['text']},
            {'shape': r['text'], 'flavour': r['flv'], 'CanComplete': r['can'], 'documented_rule_accepts': r['rule'],
             'hidc_accepts': r['accept'], 'findings': r['bad'], 'dropped_statement_ids': r.get('dropped'),
             'source': r.get('src'), 'total_violating_shapes': len(bad_all)}))
    out['wall_s'] = round(time.time() - t0, 1)
    return out


def main():
    ap = argparse.ArgumentParser()
    ap.add_argument('--tier', default='quick', choices=list(TIERS))
    ap.add_argument('--seed', type=int, default=None)
    ap.add_argument('--cache', default=None, help='(self-test) reuse/save the TLC output')
    ap.add_argument('--corrupt', default=None, help='(self-test) falsify CanComplete of this shape')
    ap.add_argument('--json', action='store_true')
    a = ap.parse_args()
    seed = a.seed if a.seed is not None else common.seed_from_env()
    res = run(a.tier, seed, cache=a.cache, corrupt=a.corrupt)
    vs = res.pop('violations')
    if a.json:
        print(json.dumps(dict(res, samples=[], violations=[{'what': v.what, 'classifier': v.classifier} for v in vs])))
    else:
        for v in vs[:10]:
            print('VIOLATION property=%s  # %s' % (PROP, v.what))
        for s in res['strata']:
            print('  stratum <=%d nodes over %-16s states=%-8d shapes=%-8d new=%-8d tlc=%.1fs' % (
                s['MaxNodes'], s['alphabet'], s['states'], s['shapes'], s['new_shapes'], s['tlc_wall_s']))
        print('%s exitmodes tier=%s states=%d shapes=%d accepted=%d rejected=%d over_rejections=%d rule_disagreements=%d '
              'dropped_stmts=%d strict_runs=%d inconsistent=%d crashed=%d violating=%d tlc=%.1fs wall=%.1fs' % (
                  'VIOLATIONS' if vs else 'OK', a.tier, res['states'], res['cases'], res['accepted'], res['rejected'],
                  res['over_rejections'], res['rule_disagreements'], res['dropped_statements'], res['strict_mode_runs'],
                  res['inconsistent'], res['crashed'], res['violating_shapes'], res['tlc_wall_s'], res['wall_s']))
    return 1 if vs else 0


if __name__ == '__main__':
    common.main_wrapper(main)
