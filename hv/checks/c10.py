"""C10  The compiler is total: every input yields assembly or a located diagnostic.

Decision procedure: the real code is driven three ways (API in-process, hidc.__main__.main() with probes,
`python -m hidc` in a subprocess); each compilation is recorded as an event trace; TLC validates every
distinct trace against spec/Driver.tla (spec/DriverTrace.tla) and prints the rejected ones with the clause
they break.  Token-soup inputs are enumerated by TLC (spec/DriverSoup.tla).  Python renders cases, records
what happened and labels TLC's rejections with a stable classifier; it never decides a verdict.
"""
import json, multiprocessing, os, random, signal, threading, time

from .. import common, tlc
from .. import driver_cases as C, driver_run as R, driver_soup as S, driver_trace as DT

PROP = 'C10'
CASE_TIMEOUT = 60          # seconds of compiler time per case before it counts as a hang


class _CaseTimeout(BaseException):
    pass


def _alarm(signum, frame):
    raise _CaseTimeout()


_WORKDIR = None


def _init_worker(workdir):
    global _WORKDIR
    _WORKDIR = os.path.join(workdir, 'w%d' % os.getpid())
    os.makedirs(_WORKDIR, exist_ok=True)
    signal.signal(signal.SIGALRM, _alarm)
    R.hidc()


def _text(src):
    return src if isinstance(src, str) else src.decode('latin-1')


def _run_case(case):
    """case = (fam, label, mode, src, opts) -> (trace, info) or None when out of scope"""
    fam, label, mode, src, o = case
    od = dict(o)
    signal.alarm(CASE_TIMEOUT)
    try:
        if mode == 'api':
            return R.run_api(_text(src), od['m'], od['s'], od['unchecked'], od['lint'])
        data = src.encode('utf-8') if isinstance(src, str) else src
        name = 'c%d' % (abs(hash((label, o, mode))) % 10 ** 9)
        if mode == 'main':
            return R.run_main(data, o, _WORKDIR, name)
        return R.run_cli(data, o, _WORKDIR, name)
    except R.OutOfScope:
        return None
    except _CaseTimeout:
        return ((R.ev('start', mode, 0, o, ''), R.ev('hang', 'escape', 0, (), 'Timeout')),
                {'escape': {'phase': 'hang', 'exc': 'Timeout', 'site': '?', 'where': '?'}})
    finally:
        signal.alarm(0)


def _work(chunk):
    """chunk: ('cases', [case...]) or ('soup', hole, [seq...]).  -> (aggregated dict, n_cases, n_out_of_scope)
    aggregated: trace -> [count, [example ...]] with at most two examples per distinct trace."""
    agg = {}
    n = oos = 0
    if chunk[0] == 'soup':
        hole = chunk[1]
        cases = (('soup:' + hole, ' '.join(S.ALPHABET[t - 1] for t in seq), 'api', S.render(hole, seq), R.opts())
                 for seq in chunk[2])
    else:
        cases = chunk[1]
    for case in cases:
        res = _run_case(case)
        n += 1
        if res is None:
            oos += 1
            continue
        trace, info = res
        slot = agg.get(trace)
        if slot is None:
            agg[trace] = [1, [(case, info)]]
        else:
            slot[0] += 1
            if len(slot[1]) < 2:
                slot[1].append((case, info))
    return agg, n, oos


# ---------------------------------------------------------------------------------------------- families
def build_cases(tier, seed):
    """everything except the token soups: list of cases (fam, label, mode, src, opts)"""
    rng = random.Random(seed)
    quick = tier in ('quick', 'mini')
    mini = tier == 'mini'          # the self-test's reduced run
    cases = []
    # quick: the two flags vary together ((off, off), (on, on)); thorough: the full 2 x 2
    flag_grid = [(False, False), (True, True)] if quick else [(u, l) for u in (False, True) for l in (False, True)]
    default = R.opts()
    corpus = C.examples() + C.codegen_programs()
    tcs = C.typecheck_snippets()
    # (2) mutated valid programs
    per = 2 if mini else 25 if quick else 250
    for label, src in corpus:
        cases.append(('corpus', label, 'api', src, default))
        for ml, ms in C.mutants(label, src, rng, per):
            cases.append(('mutant', ml, 'api', ms, default))
    # (2b) generated well-typed programs (the generators of the run-time checks) under several options, and
    #      token-level mutants of them: the code generator must never meet a tree it asserts against
    from hv import gen as G, fam_tt
    ng = 3 if mini else 40 if quick else 600
    for k in range(ng):
        gsrc = G.generate(seed * 1009 + k, {'faults': 0.2})[0] if k % 3 else fam_tt.TTGen(seed * 1009 + k).program()
        m, st, un = rng.choice([16, 16, 24, 32, 64]), rng.choice([500, 60, 5, 0, 2000]), rng.random() < 0.3
        cases.append(('generated', 'gen%d' % k, 'api', gsrc, R.opts(m, st, un, rng.random() < 0.3)))
        for ml, ms in C.mutants('gen%d' % k, gsrc, rng, 0 if mini else 4 if quick else 12):
            cases.append(('mutant', ml, 'api', ms, default))
    # (3) every snippet of tests/test_typecheck.py, as is and with an entry point, with and without --lint
    for label, src, kind in tcs:
        for lint in (False, True):
            cases.append(('typecheck_' + kind, label, 'api', src, R.opts(lint=lint)))
            cases.append(('typecheck_' + kind, label + '+entry', 'api', src + '\nempty @is_you() { }\n', R.opts(lint=lint)))
        for ml, ms in C.mutants(label, src, rng, 0 if mini else 3 if quick else 30):
            cases.append(('mutant', ml, 'api', ms, default))
    # (4) random text / bytes, pathological files, bounded nesting
    for label, src in C.random_texts(rng, 100 if mini else 1500 if quick else 30000):
        cases.append(('random_text', label, 'api', src, default))
    rb = C.random_bytes(rng, 40 if mini else 300 if quick else 3000)
    for label, b in rb:
        cases.append(('random_bytes', label, 'api', b.decode('latin-1'), default))
    diag = C.diagnostic_texts()
    for label, src in (diag[::40] if mini else diag):
        cases.append(('diagnostic', label, 'api', src, default))
    for label, src in diag[::10 if quick else 1]:
        cases.append(('diagnostic', label, 'main', src, R.opts(out='fresh')))
    specials = C.special_texts() + C.edge_texts()
    nested = C.nested_texts()
    for label, src in specials + nested:
        cases.append(('special' if not label.startswith('nest_') else 'nesting', label, 'api', src, default))
        cases.append(('special' if not label.startswith('nest_') else 'nesting', label, 'main', src, R.opts(out='fresh')))
    # (5) option grid, API level
    for label, src in (C.OPTION_PROGRAMS[:2] if mini else C.OPTION_PROGRAMS + corpus[:3]):
        for m in (0, 8, 16, 24, 64):
            for s in C.S_GRID:
                for unchecked, lint in flag_grid:
                    cases.append(('options_api', label, 'api', src, R.opts(m, s, unchecked, lint)))
    # (5) option grid through main() with probes, and the path situations
    for label, src in C.OPTION_PROGRAMS:
        for m in C.M_GRID:
            for s in C.S_GRID:
                for unchecked, lint in flag_grid:
                    cases.append(('options_main', label, 'main', src, R.opts(m, s, unchecked, lint)))
        for out in ('fresh', 'existing', 'unwritable', 'default'):
            for inp in ('file', 'missing', 'dir'):
                for dump in (False, True):
                    cases.append(('paths_main', label, 'main', src, R.opts(out=out, inp=inp, dump=dump)))
                    cases.append(('paths_main', label, 'main', src, R.opts(m=12, out=out, inp=inp, dump=dump)))
    sample = [c for c in cases if c[0] in ('mutant', 'corpus', 'random_text')]
    rng.shuffle(sample)
    for fam, label, _, src, _o in sample[:40 if mini else 400 if quick else 4000]:
        cases.append((fam + '_main', label, 'main', src, R.opts(out=rng.choice(['fresh', 'existing', 'default']))))
    for label, b in rb[:20 if mini else 100 if quick else 1000]:
        try:
            b.decode('utf-8')
            inp = 'file'
        except UnicodeDecodeError:
            inp = 'undecodable'
        cases.append(('bytes_main', label, 'main', b, R.opts(inp=inp)))
    # the real command line in a subprocess: option grid on one program, path situations, odd files
    hello = C.OPTION_PROGRAMS[0]
    cli = []
    for m in C.M_GRID:
        for s in C.S_GRID:
            for unchecked, lint in (flag_grid[:1] if mini else flag_grid):
                cli.append(('options_cli', hello[0], 'cli', hello[1], R.opts(m, s, unchecked, lint)))
    for label, src in C.OPTION_PROGRAMS[1:]:
        for out in ('fresh', 'existing', 'unwritable', 'default'):
            for inp in ('file', 'missing', 'dir'):
                cli.append(('paths_cli', label, 'cli', src, R.opts(out=out, inp=inp)))
        cli.append(('paths_cli', label, 'cli', src, R.opts(dump=True)))
        cli.append(('paths_cli', label, 'cli', src, R.opts(lint=True, out='existing')))
    for label, src in specials:
        cli.append(('special_cli', label, 'cli', src, R.opts(out=rng.choice(['fresh', 'existing']))))
    for label, b in rb[:8 if mini else 40 if quick else 400]:
        try:
            b.decode('utf-8')
            inp = 'file'
        except UnicodeDecodeError:
            inp = 'undecodable'
        cli.append(('bytes_cli', label, 'cli', b, R.opts(inp=inp)))
    for fam, label, _, src, _o in sample[:10 if mini else 60 if quick else 600]:
        cli.append((fam + '_cli', label, 'cli', src, R.opts()))
    for label, src in nested[-20:]:
        cli.append(('nesting_cli', label, 'cli', src, R.opts()))
    # source FILES that are not valid UTF-8 (fixed inputs besides the random ones)
    for label, b in (('latin1_in_string', b'empty @is_you() { writeln("caf\xe9"); }\n'), ('lone_ff', b'\xff'),
                     ('bad_utf8_in_comment', b'// \xc3\x28\nempty @is_you() { }\n'),
                     ('utf16_file', 'empty @is_you() { }\n'.encode('utf-16')),
                     ('truncated_utf8_at_eof', b'empty @is_you() { } // \xe2\x82')):
        cases.append(('special_bytes', label, 'main', b, R.opts(inp='undecodable')))
        cli.append(('special_bytes', label, 'cli', b, R.opts(inp='undecodable')))
    return cases + cli


# ---------------------------------------------------------------------------------------------- classify
def classify(clause, kind, case, info):
    """stable label of a TLC-rejected recording (for known_findings.json); not a verdict"""
    fam, label, mode, src, o = case
    od = dict(o)
    esc = info.get('escape')
    if clause in ('escaped_exception', 'traceback_printed') and esc:
        return {'kind': 'escaped_exception', 'exc': esc['exc'], 'site': esc['site']}
    if clause == 'exit0_not_assemblable':
        text = _text(src)
        if od['s'] < 0:
            return {'kind': 'exit0_not_assemblable', 'option': '-s<0'}
        if '\\\\' in text:
            return {'kind': 'exit0_not_assemblable', 'cause': 'backslash_in_literal'}
        return {'kind': 'exit0_not_assemblable', 'cause': 'other', 'asm': (info.get('asm_error') or '')[:40]}
    if clause == 'span_outside_source':
        return {'kind': 'span_outside_source', 'error': (info.get('error') or {}).get('type', '?'),
                'phase': (info.get('error') or {}).get('phase', '?')}
    return {'kind': clause, 'event': kind}


def violations_from(V, examples_of, counts):
    """one Violation per classifier, carrying every failing input seen (up to a bound)"""
    groups = {}
    for rep, reasons in V.rejected.items():
        pos, clause, kind, phase = DT.best_reason(reasons)
        for case, info in examples_of[rep]:
            cl = classify(clause, kind, case, info)
            key = json.dumps(cl, sort_keys=True)
            g = groups.setdefault(key, {'classifier': cl, 'clause': clause, 'cases': 0, 'inputs': [], 'fams': {}})
            g['inputs'].append({'family': case[0], 'label': case[1], 'mode': case[2], 'source': _text(case[3])[:4000],
                                'source_is_bytes': isinstance(case[3], bytes),
                                'options': dict(case[4]), 'position': pos, 'event': kind, 'phase': phase,
                                'info': {k: v for k, v in info.items() if k != 'lines'}})
            g['fams'][case[0]] = g['fams'].get(case[0], 0) + 1
        # multiplicity: attribute all cases of this recording to the classifier of its first example
        case0, info0 = examples_of[rep][0]
        groups[json.dumps(classify(clause, kind, case0, info0), sort_keys=True)]['cases'] += counts[rep]
    out = []
    for g in groups.values():
        # hand-written inputs first, then by length: the headline input does not depend on the seed
        g['inputs'].sort(key=lambda d: (d['family'].split('_')[0] in ('random', 'bytes', 'mutant', 'soup:'),
                                        len(d['source']), d['source']))
        first = g['inputs'][0]
        what = '%s %s; e.g. (%s, %s%s): %r' % (
            g['clause'], json.dumps(g['classifier'], sort_keys=True), first['mode'], first['family'],
            '' if (first['options']['s'], first['options']['m']) == (500, 16) else
            ', -m %d -s %d' % (first['options']['m'], first['options']['s']), first['source'][:120])
        out.append(common.Violation(PROP, what, g['classifier'],
                                    {'cases': g['cases'], 'families': g['fams'], 'inputs': g['inputs'][:25]}))
    return out


# ---------------------------------------------------------------------------------------------- main
def run_all(tier, seed, note=None):
    t0 = time.time()
    quick = tier in ('quick', 'mini')
    work = common.scratch('hv_c10_')
    cov = {}
    try:
        # the specification's own invariants (stand-alone model) run while the cases are being produced
        mc = {}

        def run_mc():
            if tier != 'mini':       # (the self-test's reduced runs skip the stand-alone model)
                mc['r'] = tlc.run(common.SPEC, 'MCDriver', timeout=600, workers=2, coverage=True)
        th = threading.Thread(target=run_mc)
        th.start()

        # (1) token soups: TLC enumerates
        t1 = time.time()
        if tier == 'mini':
            seqs, sr = S.enumerate_soups(2, extra=0, sample_mod=1, seed=seed)
        elif quick:
            seqs, sr = S.enumerate_soups(3, extra=1, sample_mod=16, seed=seed)
        else:
            seqs, sr = S.enumerate_soups(4, extra=1, sample_mod=104, seed=seed, timeout=2400)
        cov['soup_tlc_wall_s'] = round(time.time() - t1, 1)
        cov['soup_sequences'] = len(seqs)
        cov['soup_states'] = sr.distinct
        others = build_cases(tier, seed)
        chunks = []
        for hole in S.HOLES:
            for i in range(0, len(seqs), 4000):
                chunks.append(('soup', hole, seqs[i:i + 4000]))
        slow = [c for c in others if c[2] != 'api']
        fast = [c for c in others if c[2] == 'api']
        rng = random.Random(seed + 1)
        rng.shuffle(slow)
        for i in range(0, len(slow), 12):
            chunks.insert(0, ('cases', slow[i:i + 12]))
        for i in range(0, len(fast), 200):
            chunks.append(('cases', fast[i:i + 200]))
        t2 = time.time()
        merged = {}
        n_cases = n_oos = 0
        with multiprocessing.get_context('fork').Pool(common.NPROC, initializer=_init_worker, initargs=(work,)) as pool:
            for agg, n, oos in pool.imap_unordered(_work, chunks):
                n_cases += n
                n_oos += oos
                for trace, (cnt, exs) in agg.items():
                    slot = merged.get(trace)
                    if slot is None:
                        merged[trace] = [cnt, list(exs)]
                    else:
                        slot[0] += cnt
                        if len(slot[1]) < 3:
                            slot[1] += exs[:3 - len(slot[1])]
        cov['record_wall_s'] = round(time.time() - t2, 1)
        if n_cases - n_oos <= 0:
            raise common.Machinery('no case was recorded')
        recs, examples_of, counts = [], {}, {}
        fam_counts, mode_counts = {}, {}
        for rep, (trace, (cnt, exs)) in enumerate(merged.items(), 1):
            recs.append((rep, trace))
            examples_of[rep] = exs
            counts[rep] = cnt
            mode_counts[trace[0][1]] = mode_counts.get(trace[0][1], 0) + cnt
        fam_counts['soup'] = len(seqs) * len(S.HOLES)
        for c in others:
            fam_counts[c[0]] = fam_counts.get(c[0], 0) + 1
        t3 = time.time()
        # action counts (-coverage) are taken on a sub-batch holding every non-api recording and a slice of
        # the api ones; TLC -coverage on the full generated module costs minutes and adds nothing
        if tier == 'mini':
            V = DT.validate(recs, work, timeout=900, coverage=True)
        else:
            small = [rt for rt in recs if rt[1][0][1] != 'api']
            small += [rt for rt in recs if rt[1][0][1] == 'api'][:400]
            VC = DT.validate(small, os.path.join(work, 'cov'), timeout=600, coverage=True)
            V = DT.validate(recs, work, timeout=900 if quick else 2400)
            V.coverage = VC.coverage
            if (VC.accepted - V.accepted) or (set(VC.rejected) - set(V.rejected)):
                raise common.Machinery('the coverage batch and the full batch disagree on a verdict')
        cov['tlc_wall_s'] = round(time.time() - t3, 1)
        th.join()
        r = mc.get('r')
        if r is None:
            r = tlc.Result()
            r.coverage = None
        elif not r.ok:
            if r.violated:
                raise common.Machinery('Driver.tla violates its own invariant(s) %s' % r.violated)
            raise common.Machinery('MCDriver failed: %s %s' % (r.errors[:2], r.out[-600:]))
        never = [] if r.coverage is None else [a for a in ('Start', 'Args', 'Read', 'Parse', 'Check', 'Codegen', 'Open', 'Gen', 'Close', 'Render',
                             'Stderr', 'Stdout', 'Exit', 'File', 'Expect', 'Asm', 'Digest', 'Lint', 'End') if r.coverage.get(a, (0, 0))[1] == 0]
        if never:
            raise common.Machinery('Driver actions never taken in the stand-alone model: %s' % never)
        for a in ('TInit', 'Step', 'Tau', 'Accept'):
            if V.coverage.get(a, (0, 0))[1] == 0:
                raise common.Machinery('trace action %s never taken' % a)
        viols = violations_from(V, examples_of, counts)
        acc_cases = sum(counts[rep] for rep in V.accepted)
        rej_cases = sum(counts[rep] for rep in V.rejected)
        samples = []
        for rep in list(V.accepted)[:3] + list(V.rejected)[:3]:
            case, info = examples_of[rep][0]
            samples.append({'verdict': 'accepted' if rep in V.accepted else 'rejected', 'family': case[0],
                            'mode': case[2], 'source': _text(case[3])[:200], 'options': dict(case[4]),
                            'trace': [list(e[:3]) for e in merged_key(recs, rep)]})
        cov.update({
            'states': V.states + r.distinct + sr.distinct,
            'transitions': V.transitions + r.generated + sr.generated,
            'traces_validated_against_impl': n_cases - n_oos,
            'distinct_traces': len(recs), 'accepted_cases': acc_cases, 'rejected_cases': rej_cases,
            'accepted_distinct': len(V.accepted), 'rejected_distinct': len(V.rejected),
            'out_of_scope_recursion': n_oos, 'cases_per_family': fam_counts, 'cases_per_mode': mode_counts,
            'trace_tlc_runs': V.runs, 'trace_states': V.states, 'trace_transitions': V.transitions,
            'mcdriver_states': r.distinct, 'mcdriver_transitions': r.generated,
            'mcdriver_action_counts': {k: v[1] for k, v in (r.coverage or {}).items()},
            'trace_action_counts': {k: v[1] for k, v in V.coverage.items()},
            'exhaustive': 'token soups: every sequence of <= %d tokens over %d tokens in %d holes; 1/%d of length %d'
                          % ((2, len(S.ALPHABET), len(S.HOLES), 1, 3) if tier == 'mini' else
                             (3, len(S.ALPHABET), len(S.HOLES), 16, 4) if quick else (4, len(S.ALPHABET), len(S.HOLES), 104, 5)),
            'samples': samples,
        })
        if note:
            cov['note'] = note
        return viols, cov, t0
    finally:
        common.rm(work)


def merged_key(recs, rep):
    return recs[rep - 1][1]


ASSUMPTIONS = (
    'hv.sasm (directive and expression syntax) stands for the Sphinx assembler; stack reservations above 2^20 '
    'bytes are shrunk before assembling',
    'inputs are bounded in nesting depth: a RecursionError on an input with more than 30 nesting-capable tokens '
    'is out of scope and counted, any other RecursionError is an escaped exception',
    'a pre-existing output file must be left byte-for-byte unchanged by a failing run (Driver.tla R8)',
    'black-box command-line recordings show only start/stderr/stdout/exit/file facts; phase events are hidden steps',
)


def main(tier, seed):
    viols, cov, t0 = run_all(tier, seed)
    return common.finish(PROP, tier, seed, 'model_checking', cov, viols, t0, ASSUMPTIONS)


def replay(path):
    """re-run the inputs stored in a replay file through recorder + TLC"""
    with open(path) as f:
        rep = json.load(f)
    work = common.scratch('hv_c10r_')
    try:
        _init_worker(work)
        recs, shown = [], {}
        for i, inp in enumerate(rep['detail'].get('inputs', []), 1):
            o = R.opts(**inp['options'])
            src = inp['source']
            case = (inp['family'], inp['label'], inp['mode'], src.encode('latin-1') if inp.get('source_is_bytes') else src, o)
            res = _run_case(case)
            if res is None:
                continue
            recs.append((i, res[0]))
            shown[i] = (case, res[1])
        V = DT.validate(recs, work)
        for i, reasons in sorted(V.rejected.items()):
            print('REJECTED %s %r -> %s' % (shown[i][0][2], shown[i][0][3][:80], DT.best_reason(reasons)))
        print('%d accepted, %d rejected' % (len(V.accepted), len(V.rejected)))
        return 1 if V.rejected else 0
    finally:
        common.rm(work)
