"""hidc's TYPED syntax tree -> the source IR of spec/HiDIR.tla / HiDSem.tla.

The IR is derived from the front end's output (parse + evaluate of the working tree), NOT from the code
generator: scope resolution (locals over globals, block scoping), evaluation order and every coercion are
re-derived here from the tree's structure.  The front end itself is judged by independent models
(Lexer/Precedence/Context/Types .tla); what this binding judges is code generation, stdlib and run time.
"""
from . import hidc_api
from .tlc import tla, Raw


class Unsupported(Exception):
    """The program uses something the source semantics does not model (outside the envelope)."""


def word(v, w):
    v &= (1 << (8 * w)) - 1
    return [(v >> (8 * i)) & 255 for i in range(w)]


def T(name, *args):
    return Raw('%s(%s)' % (name, ', '.join(tla(a) for a in args)))


class Scope:
    def __init__(self, parent=None):
        self.parent = parent
        self.names = {}

    def lookup(self, name):
        s = self
        while s is not None:
            if name in s.names:
                return s.names[name]
            s = s.parent
        return None


class Translator:
    def __init__(self, src, w=2, **opt):
        hidc_api.load()
        from hidc.lexer import SourceCode
        from hidc.parser import parse
        from hidc.ast import Environment
        import hidc.ast as A
        from hidc.errors import CompilerError
        self.A = A
        self.w = w
        self.src = src
        try:
            self.env = Environment.empty(**opt)
            self.prog = parse(SourceCode.from_string(src)).evaluate(self.env)
        except CompilerError as e:
            raise hidc_api.Rejected(e)
        # "preemptive" is a property of the program TEXT (README: a defeat function that contains a preempt block
        # anywhere in it, reachable or not): read it off the untyped parse tree, not off the flag the compiler keeps
        self.preemptive_names = set()
        try:
            raw = parse(SourceCode.from_string(src))
            for f in raw.func_decls:
                if self.has_preempt(f.body):
                    self.preemptive_names.add((f.name, f.param_types))
        except CompilerError:
            pass
        self.strings = []          # literal string table (bytes)
        self.string_ids = {}
        self.globals = {}          # name -> (index, decl)
        self.gdecls = []
        for d in self.prog.var_decls:
            self.globals[d.var.name] = (len(self.gdecls) + 1, d)
            self.gdecls.append(d)
        self.fidx = {}
        self.fdecls = []
        for f in self.prog.func_decls:
            self.fidx[(f.name, f.param_types)] = len(self.fdecls) + 1
            self.fdecls.append(self.env.funcs[f.name][f.param_types])
        self.loop_ids = 0
        self.features = set()
        self.funcs = [self.func(f) for f in self.fdecls]
        key = (A.Ident.you('is_you'),)
        mains = [i for i, f in enumerate(self.fdecls) if f.name == A.Ident.you('is_you')]
        if len(mains) != 1:
            raise Unsupported('no unique @is_you')
        self.main = mains[0] + 1
        self.main_decl = self.fdecls[mains[0]]

    def has_preempt(self, node):
        A = self.A
        if isinstance(node, A.PreemptBlock):
            return True
        if isinstance(node, A.CodeBlock):
            return any(self.has_preempt(s) for s in node.stmts)
        if isinstance(node, A.TryBlock):
            # a try block is its own arena (you-functions only; it never makes the function preemptive)
            return False
        if isinstance(node, A.IfBlock):
            return self.has_preempt(node.body) or self.has_preempt(node.else_block)
        if isinstance(node, A.LoopBlock):
            return self.has_preempt(node.body) or self.has_preempt(node.cont)
        if isinstance(node, A.ControlBlock):
            return self.has_preempt(node.body)
        return False

    # ------------------------------------------------------------------ helpers
    def sid(self, data):
        if data not in self.string_ids:
            self.strings.append(bytes(data))
            self.string_ids[data] = len(self.strings)
        return self.string_ids[data]

    def elname(self, t):
        return str(t)

    def sk(self, t):
        A = self.A
        if isinstance(t, A.ArrayType):
            return 'arr'
        if t == A.DataType.STRING:
            return 'str'
        raise Unsupported('index/length of %s' % t)

    # ------------------------------------------------------------------ functions
    def func(self, f):
        A = self.A
        self.nslots = 0
        scope = Scope()
        for p in f.params:
            self.nslots += 1
            scope.names[p.var.name] = self.nslots
        if not isinstance(f.body, A.CodeBlock):
            raise Unsupported('function body')
        body = self.stmts(f.body.stmts, Scope(scope))
        pre = (f.name, f.param_types) in self.preemptive_names and f.name.flavor == A.Flavor.DEFEAT
        if pre:
            self.features.add('preemptive_fn')
        return T('Func', str(f.name), len(f.params), self.nslots, pre, f.ret_type != A.DataType.EMPTY, body)

    def stmts(self, stmts, scope):
        return [self.stmt(s, scope) for s in stmts]

    def block_body(self, b, scope):
        """A block used as the body of a control construct -> list of statements (own scope)."""
        A = self.A
        if isinstance(b, A.CodeBlock):
            return self.stmts(b.stmts, Scope(scope))
        return [self.stmt(b, scope)]

    def target(self, var, scope):
        slot = scope.lookup(var.name)
        if slot is not None:
            return 'loc', slot
        if var.name in self.globals:
            self.features.add('global')
            return 'glob', self.globals[var.name][0]
        raise Unsupported('unresolved name ' + var.name)

    def stmt(self, s, scope):
        A = self.A
        if isinstance(s, A.CodeBlock):
            return T('Block', self.stmts(s.stmts, Scope(scope)))
        if isinstance(s, A.IfBlock):
            return T('IfS', self.ex(s.cond, scope), self.block_body(s.body, scope), self.block_body(s.else_block, scope))
        if isinstance(s, A.LoopBlock):
            self.loop_ids += 1
            lid = self.loop_ids
            self.features.add('loop')
            return T('Loop', lid, self.ex(s.cond, scope), self.block_body(s.body, scope), self.block_body(s.cont, scope))
        if isinstance(s, A.TryBlock):
            kind = 'stop' if isinstance(s.handler, A.StopBlock) else 'undo'
            self.features.add('try_' + kind)
            return T('Try', kind, self.block_body(s.body, scope), self.block_body(s.handler.body, scope))
        if isinstance(s, A.PreemptBlock):
            self.features.add('preempt')
            return T('Preempt', self.block_body(s.body, scope))
        if isinstance(s, A.Declaration):
            init = s.init
            if isinstance(init, A.ArrayInitializer):
                ln = self.ex(init.length, scope)
                self.nslots += 1
                scope.names[s.var.name] = self.nslots
                self.features.add('vla')
                return T('Vla', self.nslots, self.elname(init.type.el_type), ln)
            e = self.ex(init, scope)
            self.nslots += 1
            scope.names[s.var.name] = self.nslots
            return T('Decl', self.nslots, e)
        if isinstance(s, A.IncAssignment):
            op = {A.Add: 'add', A.Sub: 'sub', A.Mul: 'mul', A.Div: 'div', A.Mod: 'mod'}[s.bin_op]
            if isinstance(s.lookup, A.VariableLookup):
                tk, idx = self.target(s.lookup.var, scope)
                cur = T('Loc', idx) if tk == 'loc' else T('Glob', idx)
                val = T('Bin', op, cur, self.ex(s.expr, scope))
                if s.lookup.type == A.DataType.BYTE:
                    val = T('Cast', 'i2b', val)
                return T('Assign', tk, idx, val)
            lk = s.lookup
            self.features.add('incassign_idx')
            return T('AssignIdx', self.elname(lk.type), op, self.ex(lk.source, scope), self.ex(lk.index, scope),
                     self.ex(s.expr, scope))
        if isinstance(s, A.Assignment):
            if isinstance(s.lookup, A.VariableLookup):
                tk, idx = self.target(s.lookup.var, scope)
                return T('Assign', tk, idx, self.ex(s.expr, scope))
            lk = s.lookup
            if lk.source.type == A.DataType.STRING:
                raise Unsupported('assignment to string element')
            return T('AssignIdx', self.elname(lk.type), '', self.ex(lk.source, scope), self.ex(lk.index, scope),
                     self.ex(s.expr, scope))
        if isinstance(s, A.ReturnStatement):
            if s.value is None:
                return Raw('Return0')
            return T('Return1', self.ex(s.value, scope))
        if isinstance(s, A.BreakStatement):
            return Raw('Break')
        if isinstance(s, A.ContinueStatement):
            return Raw('Continue')
        if isinstance(s, A.Expression):
            return T('ExprS', self.ex(s, scope))
        raise Unsupported('statement %s' % type(s).__name__)

    # ------------------------------------------------------------------ expressions
    def ex(self, e, scope):
        A = self.A
        w = self.w
        if isinstance(e, A.ByteValue):
            return T('Lit', word(e.data & 0xFF, w))
        if isinstance(e, A.IntValue):
            if not (-(1 << (8 * w - 1)) <= e.data < (1 << (8 * w - 1))):
                self.features.add('literal_exceeds_word')      # (a folded constant may not fit: C18 word ladder)
            return T('Lit', word(e.data, w))
        if isinstance(e, A.BoolValue):
            return T('Lit', word(1 if e.data else 0, w))
        if isinstance(e, A.StringValue):
            self.features.add('string')
            return T('Str', self.sid(e.data))
        if isinstance(e, (A.ByteToInt, A.BoolToByte)):
            return self.ex(e.expr, scope)
        if isinstance(e, A.Volatile):
            return self.ex(e.expr, scope)
        if isinstance(e, A.IntToByte):
            return T('Cast', 'i2b', self.ex(e.expr, scope))
        if isinstance(e, A.IntToBool):
            return T('Cast', 'tobool', self.ex(e.expr, scope))
        if isinstance(e, A.StringToByteArray):
            self.features.add('str2arr')
            return T('Cast', 'str2arr', self.ex(e.expr, scope))
        if isinstance(e, A.VariableLookup):
            tk, idx = self.target(e.var, scope)
            return T('Loc', idx) if tk == 'loc' else T('Glob', idx)
        if isinstance(e, A.ArrayLookup):
            self.features.add('index')
            return T('Idx', self.sk(e.source.type), self.ex(e.source, scope), self.ex(e.index, scope))
        if isinstance(e, A.LengthLookup):
            return T('LenOf', self.sk(e.source.type), self.ex(e.source, scope))
        if isinstance(e, A.FuncCall):
            return self.call(e, scope)
        if isinstance(e, A.ArrayLiteral):
            self.features.add('arrlit')
            return T('ArrLit', self.elname(e.type.el_type), bool(e.type.const), [self.ex(v, scope) for v in e.values])
        if isinstance(e, A.Speculation):
            self.features.add('spec')
            return T('SpecE', self.ex(e.left, scope), self.ex(e.right, scope))
        if isinstance(e, A.BinaryArithmeticOp):
            op = {A.Add: 'add', A.Sub: 'sub', A.Mul: 'mul', A.Div: 'div', A.Mod: 'mod'}[type(e)]
            return T('Bin', op, self.ex(e.left, scope), self.ex(e.right, scope))
        if isinstance(e, A.Neg):
            return T('Un', 'neg', self.ex(e.arg, scope))
        if isinstance(e, A.Pos):
            return T('Un', 'pos', self.ex(e.arg, scope))
        if isinstance(e, A.Not):
            return T('Un', 'not', self.ex(e.arg, scope))
        if isinstance(e, A.And):
            return T('AndE', self.ex(e.left, scope), self.ex(e.right, scope))
        if isinstance(e, A.Or):
            return T('OrE', self.ex(e.left, scope), self.ex(e.right, scope))
        if isinstance(e, (A.Lt, A.Gt, A.Le, A.Ge, A.Eq, A.Ne)):
            op = {A.Lt: 'lt', A.Gt: 'gt', A.Le: 'le', A.Ge: 'ge', A.Eq: 'eq', A.Ne: 'ne'}[type(e)]
            return T('Cmp', op, self.ex(e.left, scope), self.ex(e.right, scope))
        raise Unsupported('expression %s' % type(e).__name__)

    def call(self, e, scope):
        A = self.A
        types = tuple(a.type for a in e.args)
        decl = self.env.funcs[e.func][types]
        args = [self.ex(a, scope) for a in e.args]
        if isinstance(decl, A.BuiltinStub):
            name = e.func.base_name
            DT = A.DataType
            if name in ('write', 'writeln'):
                nl = name == 'writeln'
                if not types:
                    return T('Bi', 'writeln0', False, [])
                t = types[0]
                which = {DT.INT: 'write_int', DT.BOOL: 'write_bool', DT.BYTE: 'write_byte', DT.STRING: 'write_str'}.get(t)
                if which is None:
                    which = 'write_arr'
                self.features.add(which)
                return T('Bi', which, nl, args)
            if name in ('is_defeat', 'truth_is_defeat', 'all_is_win', 'all_is_broken', 'sleep', 'debug', 'progress'):
                self.features.add(name)
                return T('Bi', name, False, args)
            raise Unsupported('builtin ' + name)
        self.features.add('call')
        return T('Call', self.fidx[(e.func, types)], args)

    # ------------------------------------------------------------------ program / case records
    def source_record(self):
        return T_record({'funcs': self.funcs, 'main': self.main})

    def case(self, args):
        """Bind an argument vector (list of str / bytes) -> record of initial frame, store, globals, strings."""
        A = self.A
        w = self.w
        DT = A.DataType
        strs = list(self.strings)
        store = []
        g0 = []
        for d in self.gdecls:
            init = d.init
            t = d.var.type
            if isinstance(t, A.ArrayType):
                if isinstance(init, A.ArrayInitializer):
                    if not isinstance(init.length, A.IntValue):
                        raise Unsupported('global array length')
                    n = init.length.data & ((1 << (8 * w)) - 1)
                    if n > 4096:
                        raise Unsupported('large global array')
                    zero = word(0, w)
                    if t.el_type == DT.STRING:
                        # elements start as the zero word, which denotes no string: a program of the defined envelope
                        # assigns an element before it uses it (as for dynamic local arrays)
                        self.features.add('global_string_array')
                    store.append(arr_rec(str(t.el_type), False, [zero] * n))
                elif isinstance(init, A.ArrayLiteral):
                    vals = []
                    for v in init.values:
                        vals.append(self.prim(v, strs))
                    store.append(arr_rec(str(t.el_type), bool(t.const), vals))
                else:
                    raise Unsupported('global array initializer')
                g0.append(word(len(store), w))
            else:
                g0.append(self.prim(init, strs))
        params = self.main_decl.params
        nfixed = sum(1 for p in params if not isinstance(p.var.type, A.ArrayType))
        nvar = len(args) - nfixed
        has_arr = any(isinstance(p.var.type, A.ArrayType) for p in params)
        if nvar < 0 or (nvar > 0 and not has_arr):
            raise Unsupported('argument count')
        frame = []
        i = 0

        def one(t, a):
            if t == DT.INT:
                return word(int(a), w)
            if t == DT.BYTE:
                return word(int(a) & 0xFF, w)
            if t == DT.STRING:
                b = a.encode('utf-8') if isinstance(a, str) else bytes(a)
                strs.append(b)
                return word(len(strs), w)
            raise Unsupported('entry parameter type %s' % t)
        for p in params:
            t = p.var.type
            if isinstance(t, A.ArrayType):
                vals = [one(t.el_type, a) for a in args[i:i + nvar]]
                i += nvar
                store.append(arr_rec(str(t.el_type), bool(t.const), vals))
                frame.append(word(len(store), w))
            else:
                frame.append(one(t, args[i]))
                i += 1
        nslots = None
        # frame0 has the main function's slot count
        return {'frame_params': frame, 'store0': store, 'g0': g0, 'strs': [list(b) for b in strs]}

    def prim(self, v, strs):
        A = self.A
        w = self.w
        if isinstance(v, A.ByteValue):
            return word(v.data & 0xFF, w)
        if isinstance(v, A.IntValue):
            return word(v.data, w)
        if isinstance(v, A.BoolValue):
            return word(1 if v.data else 0, w)
        if isinstance(v, A.StringValue):
            return word(self.sid_in(v.data, strs), w)
        raise Unsupported('non-primitive global initializer')

    def sid_in(self, data, strs):
        if data in self.string_ids:
            return self.string_ids[data]
        # literal only used by a global initializer: extend the program's table
        sid = self.sid(data)
        while len(strs) < len(self.strings):
            strs.append(self.strings[len(strs)])
        return sid


def arr_rec(el, ro, vals):
    return T('Arr', el, ro, vals)


def T_record(d):
    return Raw('[' + ', '.join('%s |-> %s' % (k, tla(v)) for k, v in d.items()) + ']')


def main_nslots(tr):
    """nslots of @is_you, parsed back from the Func constructor text (kept simple on purpose)."""
    import re
    txt = tr.funcs[tr.main - 1].text
    m = re.match(r'Func\("[^"]*", (\d+), (\d+),', txt)
    return int(m.group(2))


def case_record(tr, src_index, args):
    c = tr.case(args)
    n = main_nslots(tr)
    frame0 = list(c['frame_params']) + [[]] * (n - len(c['frame_params']))
    return T_record({'src': src_index, 'frame0': frame0, 'store0': c['store0'], 'g0': c['g0'], 'strs': c['strs']})
