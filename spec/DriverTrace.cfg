INIT TInit
NEXT TNext
