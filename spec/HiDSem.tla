------------------------------- MODULE HiDSem -------------------------------
(* What a Halt is Defeat program MEANS: a small-step abstract machine over the source program             *)
(* (DESIGN 2.4, Appendix A).  Independent of the code generator: it knows nothing of registers, frames,  *)
(* labels or the Turing jump.                                                                            *)
(*                                                                                                       *)
(* State (one record `h`): continuation k (sequence of work items; blocks unfold lazily), value stack v, *)
(* activation frames f (slots hold words; arrays and strings are references), store s (arrays; only      *)
(* grows), globals g, output out (same event alphabet as Sphinx), status st, defeat mode, choice stack   *)
(* ch, mutation counter ver with loop anchors anch (divergence detection), history bit wrap (C18).       *)
(*                                                                                                       *)
(* Dynamic semantics fixed here ([R] README, [C] code/upstream tests where the README is silent):         *)
(*  1 [R] int = signed W-byte word, arithmetic wraps; byte = one byte, widened by zero extension,        *)
(*        narrowed to the low byte; bool is 0/1; `is bool` = non-zero / non-empty.  [C] / and % are      *)
(*        floor division and modulo (sign of the divisor).                                              *)
(*  2 [C] operands, arguments, array-literal elements, `src[idx]` evaluate left to right and their       *)
(*        values are fixed when evaluated; [R] and/or short-circuit.                                      *)
(*  3 [C] `a[i] = e`: a, i, bounds check, e, store.  `a[i] op= e`: a, i, check, old element, e, op (with  *)
(*        its division check), store.  `x op= e` is `x = x op e`.                                         *)
(*  4 [R] arrays are references; strings and scalars are values.  Local dynamic arrays are uninitialised  *)
(*        (reading an element never written is outside the defined envelope: status "undef").            *)
(*  8 [R] faults: division_by_zero, out_of_bounds, stack_overflow (negative / unrepresentable dynamic     *)
(*        length), nonlocal_preempt - flag <kind>, flag error, nothing after, no effect of the faulting   *)
(*        operation.                                                                                     *)
(*  9 [R] time travel, as explicit backtracking over a choice stack:                                      *)
(*        try B undo H   push choice (alternative: H from the state at try entry); run B, defeat real;    *)
(*        preempt P      real defeat: push choice (alternative: run P), skip; virtual defeat: run P;      *)
(*        try B stop H   push choice (alternative: the same B with VIRTUAL defeat); run B, defeat real;   *)
(*                       virtual defeat unwinds to the try's activation and runs H, defeat real again;    *)
(*        a ?? b         b, push choice (alternative: result b), a; equal values = defeat;               *)
(*        return from a preemptive defeat function: push choice (alternative: nonlocal_preempt fault);   *)
(*        defeat = restore the newest choice; leaving a try discards the choices made inside it.         *)
(* 10 [R] all_is_win / all_is_broken / falling out of @is_you end the observable.                         *)
EXTENDS Word, TLC, BatchData
LOCAL INSTANCE SequencesExt

CONSTANT MaxAlloc        \* largest dynamic array HiDSem is willing to model (larger: status "toobig")

VARIABLES hcase,         \* index into MCCases
          h              \* the machine state record
hvars == <<hcase, h>>

HCase == MCCases[hcase]
Src == MCSources[HCase.src]
Funcs == Src.funcs
StrTab == HCase.strs                     \* string id -> sequence of bytes

(* ------------------------------------------------------------------ small helpers *)
Top(s) == s[Len(s)]
Pop(s) == SubSeq(s, 1, Len(s) - 1)
PopN(s, n) == SubSeq(s, 1, Len(s) - n)
Items(ss) == [i \in 1..Len(ss) |-> [k |-> "s", s |-> ss[i]]]
E(e) == [k |-> "e", e |-> e]
Es(es) == [i \in 1..Len(es) |-> [k |-> "e", e |-> es[i]]]
Uninit == <<>>
HEv(k, v) == [k |-> k, v |-> v]
Yields(bs) == [i \in 1..Len(bs) |-> HEv("y", <<bs[i]>>)]
FlagEv(n) == HEv("f", <<n>>)
\* index of the first item of kind kd in a continuation, 0 if none
First(K, kd) == SelectInSeq(K, LAMBDA x : x.k = kd)

Push(hh, K, w) == [hh EXCEPT !.k = K, !.v = Append(@, w)]
Goto(hh, K) == [hh EXCEPT !.k = K]
End(hh, evs) == [hh EXCEPT !.out = @ \o evs, !.st = "ended"]
HFault(hh, flag) == End(hh, <<FlagEv(flag), FlagEv(2)>>)
Undef(hh) == [hh EXCEPT !.st = "undef"]
FStackOverflow == 5
FDivZero == 6
FOutOfBounds == 7
FNonlocalPreempt == 8

\* (the zero word is an element of a zero-initialised string array that was never assigned: outside the envelope, read as "")
StrOf(w) == IF ToNat(w) \in DOMAIN StrTab THEN StrTab[ToNat(w)] ELSE <<>>
ArrOf(hh, w) == hh.s[ToNat(w)]
\* is word i a valid index into something of length n ?
InBounds(i, n) == ~IsNeg(i) /\ SmallNat(i) /\ ToNat(i) < n

MaxSigned == MaxInt
\* largest representable length of a dynamic array of element type el (generator.py max_length)
LenTooBig(len, el) == IF el \in {"byte", "bool"} THEN FALSE
                      ELSE ULt(DivFloor(MaxSigned, FromInt(W)), len)

(* ------------------------------------------------------------------ leaving a try, defeat *)
\* the newest try marker in a continuation (tries do not nest inside one function, and a defeat function
\* cannot contain one, so it is the only one above the function that owns it)
LeaveTry(hh, mk) == [hh EXCEPT !.mode = "none", !.ch = SubSeq(@, 1, mk.nch)]

\* drop the items of K up to (and, if `incl`, including) the first item of kind kd; a try marker met on the
\* way is left through the door: choices made inside are discarded and defeat is no longer possible
Unwind(hh, K, kd, incl) ==
   LET m == First(K, kd)
       t == First(K, "endtry")
       h1 == IF t > 0 /\ t < m THEN LeaveTry(hh, K[t]) ELSE hh
   IN [h1 EXCEPT !.k = SubSeq(K, IF incl THEN m + 1 ELSE m, Len(K))]

Defeat(hh) ==
   IF hh.mode = "virtual" THEN
      LET K == hh.k
          m == First(K, "endtry")
          mk == K[m]
      IN [hh EXCEPT !.k = Items(mk.handler) \o SubSeq(K, m + 1, Len(K)),
                    !.f = SubSeq(@, 1, mk.fdepth), !.v = SubSeq(@, 1, mk.vh),
                    !.mode = "none", !.ch = SubSeq(@, 1, mk.nch)]
   ELSE IF hh.ch = <<>> THEN [hh EXCEPT !.st = "halted"]
   ELSE Top(hh.ch).snap

PushChoice(hh, kind, alt) == [hh EXCEPT !.ch = Append(@, [kind |-> kind, snap |-> alt])]

(* ------------------------------------------------------------------ returning *)
\* K: the continuation after the returning item.  The value (if any) is on top of the stack.
DoReturn(hh, K, hasval) ==
   LET m == First(K, "callret")
       mk == K[m]
       fn == Funcs[mk.f]
       val == IF hasval THEN Top(hh.v) ELSE Zero
       h1 == Unwind(hh, K, "callret", TRUE)
       h2 == [h1 EXCEPT !.f = Pop(@), !.v = Append(SubSeq(@, 1, mk.vh), val)]
   IN IF fn.preemptive /\ h2.mode = "real"
      THEN PushChoice(h2, "retguard", [h2 EXCEPT !.k = <<[k |-> "fault", flag |-> FNonlocalPreempt]>>])
      ELSE h2

(* ------------------------------------------------------------------ expressions *)
ExprStep(hh, e, K) ==
   CASE e.k = "lit" -> Push(hh, K, e.v)
     [] e.k = "str" -> Push(hh, K, FromInt(e.id))
     [] e.k = "loc" -> (LET val == Top(hh.f)[e.slot] IN IF val = Uninit THEN Undef(hh) ELSE Push(hh, K, val))
     [] e.k = "glob" -> Push(hh, K, hh.g[e.idx])
     [] e.k = "un" -> Goto(hh, <<E(e.a), [k |-> "un", op |-> e.op]>> \o K)
     [] e.k = "bin" -> Goto(hh, <<E(e.a), E(e.b), [k |-> "bin", op |-> e.op]>> \o K)
     [] e.k = "cmp" -> Goto(hh, <<E(e.a), E(e.b), [k |-> "cmp", op |-> e.op]>> \o K)
     [] e.k = "and" -> Goto(hh, <<E(e.a), [k |-> "and2", b |-> e.b]>> \o K)
     [] e.k = "or" -> Goto(hh, <<E(e.a), [k |-> "or2", b |-> e.b]>> \o K)
     [] e.k = "cast" -> Goto(hh, <<E(e.a), [k |-> "cast", op |-> e.op]>> \o K)
     [] e.k = "idx" -> Goto(hh, <<E(e.src), E(e.i), [k |-> "idx2", sk |-> e.sk]>> \o K)
     [] e.k = "len" -> Goto(hh, <<E(e.a), [k |-> "len2", sk |-> e.sk]>> \o K)
     [] e.k = "call" -> Goto(hh, Es(e.args) \o <<[k |-> "callgo", f |-> e.f, n |-> Len(e.args)]>> \o K)
     [] e.k = "bi" -> Goto(hh, Es(e.args) \o <<[k |-> "bi2", name |-> e.name, nl |-> e.nl]>> \o K)
     [] e.k = "arrlit" -> Goto(hh, Es(e.elems) \o <<[k |-> "arrlit2", el |-> e.el, ro |-> e.ro, n |-> Len(e.elems)]>> \o K)
     [] e.k = "spec" -> Goto(hh, <<E(e.b), [k |-> "spec1", a |-> e.a]>> \o K)

ArithRes(op, a, b) == CASE op = "add" -> Add(a, b) [] op = "sub" -> Sub(a, b) [] op = "mul" -> Mul(a, b)
                        [] op = "div" -> DivFloor(a, b) [] op = "mod" -> ModFloor(a, b)
CmpRes(op, a, b) == CASE op = "eq" -> (a = b) [] op = "ne" -> (a # b) [] op = "lt" -> SLt(a, b)
                      [] op = "gt" -> SLt(b, a) [] op = "le" -> SLe(a, b) [] op = "ge" -> SLe(b, a)
\* did the mathematical result leave the signed range?  (history only)
Wraps(op, a, b) == CASE op = "add" -> AddOverflows(a, b) [] op = "sub" -> SubOverflows(a, b)
                     [] op = "mul" -> MulOverflows(a, b)
                     [] op = "div" -> (a = MinInt /\ b = Ones)
                     [] OTHER -> FALSE
ElemTrunc(el, w) == IF el = "byte" THEN ByteWord(LowByte(w)) ELSE w

NewArr(hh, K, arr) == [hh EXCEPT !.k = K, !.s = Append(@, arr), !.v = Append(@, FromInt(Len(hh.s) + 1)), !.ver = @ + 1]

(* ------------------------------------------------------------------ builtins (arguments already on the stack) *)
Builtin(hh, it, K) ==
   LET nlv == IF it.nl THEN <<HEv("y", <<10>>)>> ELSE <<>>
       a == IF hh.v = <<>> THEN Zero ELSE Top(hh.v)
       out1(evs) == [hh EXCEPT !.k = K, !.v = Append(Pop(@), Zero), !.out = @ \o evs \o nlv, !.ver = @ + 1]
   IN CASE it.name = "write_int" -> out1(Yields(Decimal(a)))
        [] it.name = "write_bool" -> out1(Yields(IF IsZero(a) THEN <<102, 97, 108, 115, 101>> ELSE <<116, 114, 117, 101>>))
        [] it.name = "write_byte" -> out1(Yields(<<LowByte(a)>>))
        [] it.name = "write_str" -> out1(Yields(StrOf(a)))
        [] it.name = "write_arr" -> (LET d == ArrOf(hh, a).d IN
                                     IF \E i \in 1..Len(d) : d[i] = Uninit THEN Undef(hh)
                                     ELSE out1(Yields([i \in 1..Len(d) |-> LowByte(d[i])])))
        [] it.name = "writeln0" -> [hh EXCEPT !.k = K, !.v = Append(@, Zero), !.out = Append(@, HEv("y", <<10>>)), !.ver = @ + 1]
        [] it.name = "sleep" -> [hh EXCEPT !.k = K, !.v = Append(Pop(@), Zero), !.out = Append(@, HEv("s", a)), !.ver = @ + 1]
        [] it.name = "debug" -> [hh EXCEPT !.k = K, !.v = Append(@, Zero), !.out = Append(@, FlagEv(3)), !.ver = @ + 1]
        [] it.name = "progress" -> [hh EXCEPT !.k = K, !.v = Append(@, Zero), !.out = Append(@, FlagEv(4)), !.ver = @ + 1]
        [] it.name = "all_is_win" -> End(hh, <<FlagEv(1)>>)
        [] it.name = "all_is_broken" -> End(hh, <<FlagEv(2)>>)
        [] it.name = "is_defeat" -> Defeat(hh)
        [] it.name = "truth_is_defeat" -> (IF IsZero(a) THEN [hh EXCEPT !.k = K, !.v = Append(Pop(@), Zero)] ELSE Defeat(hh))

(* ------------------------------------------------------------------ apply items *)
ApplyStep(hh, it, K) ==
   LET v == hh.v
       a1 == IF Len(v) >= 1 THEN v[Len(v)] ELSE Zero
       a2 == IF Len(v) >= 2 THEN v[Len(v) - 1] ELSE Zero
       a3 == IF Len(v) >= 3 THEN v[Len(v) - 2] ELSE Zero
       a4 == IF Len(v) >= 4 THEN v[Len(v) - 3] ELSE Zero
   IN
   CASE it.k = "un" -> (CASE it.op = "neg" -> [Push([hh EXCEPT !.v = Pop(@)], K, Neg(a1)) EXCEPT !.wrap = @ \/ a1 = MinInt]
                          [] it.op = "pos" -> Goto(hh, K)
                          [] it.op = "not" -> Push([hh EXCEPT !.v = Pop(@)], K, Sub(One, a1)))
     [] it.k = "bin" -> (IF it.op \in {"div", "mod"} /\ IsZero(a1) THEN HFault(hh, FDivZero)
                         ELSE [Push([hh EXCEPT !.v = PopN(@, 2)], K, ArithRes(it.op, a2, a1)) EXCEPT !.wrap = @ \/ Wraps(it.op, a2, a1)])
     [] it.k = "cmp" -> Push([hh EXCEPT !.v = PopN(@, 2)], K, BoolWord(CmpRes(it.op, a2, a1)))
     [] it.k = "and2" -> (IF IsZero(a1) THEN Goto(hh, K) ELSE [hh EXCEPT !.v = Pop(@), !.k = <<E(it.b)>> \o K])
     [] it.k = "or2" -> (IF ~IsZero(a1) THEN Goto(hh, K) ELSE [hh EXCEPT !.v = Pop(@), !.k = <<E(it.b)>> \o K])
     [] it.k = "cast" -> (CASE it.op = "i2b" -> Push([hh EXCEPT !.v = Pop(@)], K, ByteWord(LowByte(a1)))
                            [] it.op = "tobool" -> Push([hh EXCEPT !.v = Pop(@)], K, BoolWord(~IsZero(a1)))
                            [] it.op = "strbool" -> Push([hh EXCEPT !.v = Pop(@)], K, BoolWord(Len(StrOf(a1)) # 0))
                            [] it.op = "arrbool" -> Push([hh EXCEPT !.v = Pop(@)], K, BoolWord(Len(ArrOf(hh, a1).d) # 0))
                            [] it.op = "str2arr" -> (LET bs == StrOf(a1) IN
                                  NewArr([hh EXCEPT !.v = Pop(@)], K, Arr("byte", TRUE, [i \in 1..Len(bs) |-> ByteWord(bs[i])])))
                            [] OTHER -> Goto(hh, K))                 \* b2i, bool2b, ident: representation unchanged
     [] it.k = "idx2" -> (IF it.sk = "str"
                          THEN LET bs == StrOf(a2) IN
                               IF ~InBounds(a1, Len(bs)) THEN HFault(hh, FOutOfBounds)
                               ELSE Push([hh EXCEPT !.v = PopN(@, 2)], K, ByteWord(bs[ToNat(a1) + 1]))
                          ELSE LET d == ArrOf(hh, a2).d IN
                               IF ~InBounds(a1, Len(d)) THEN HFault(hh, FOutOfBounds)
                               ELSE IF d[ToNat(a1) + 1] = Uninit THEN Undef(hh)
                               ELSE Push([hh EXCEPT !.v = PopN(@, 2)], K, d[ToNat(a1) + 1]))
     [] it.k = "len2" -> Push([hh EXCEPT !.v = Pop(@)], K,
                              FromInt(IF it.sk = "str" THEN Len(StrOf(a1)) ELSE Len(ArrOf(hh, a1).d)))
     [] it.k = "callgo" -> (LET fn == Funcs[it.f]
                                base == PopN(v, it.n)
                                frame == [i \in 1..fn.nslots |-> IF i <= it.n THEN v[Len(v) - it.n + i] ELSE Uninit]
                            IN [hh EXCEPT !.k = Items(fn.body) \o <<[k |-> "callret", f |-> it.f, vh |-> Len(base)]>> \o K,
                                          !.v = base, !.f = Append(@, frame)])
     [] it.k = "callret" -> DoReturn(hh, <<it>> \o K, FALSE)          \* fell off the end: implicit return
     [] it.k = "ret" -> DoReturn(hh, K, TRUE)
     [] it.k = "bind" -> [hh EXCEPT !.k = K, !.v = Pop(@), !.f[Len(hh.f)][it.slot] = a1,
                                   !.ver = IF Top(hh.f)[it.slot] = a1 THEN @ ELSE @ + 1]
     [] it.k = "set" -> (IF it.tk = "loc"
                         THEN [hh EXCEPT !.k = K, !.v = Pop(@), !.f[Len(hh.f)][it.idx] = a1,
                                         !.ver = IF Top(hh.f)[it.idx] = a1 THEN @ ELSE @ + 1]
                         ELSE [hh EXCEPT !.k = K, !.v = Pop(@), !.g[it.idx] = a1,
                                         !.ver = IF hh.g[it.idx] = a1 THEN @ ELSE @ + 1])
     [] it.k = "chk" -> (IF ~InBounds(a1, Len(ArrOf(hh, a2).d)) THEN HFault(hh, FOutOfBounds) ELSE Goto(hh, K))
     [] it.k = "ldel" -> (LET x == ArrOf(hh, a2).d[ToNat(a1) + 1] IN IF x = Uninit THEN Undef(hh) ELSE Push(hh, K, x))
     [] it.k = "sto" -> (IF it.op = ""
                         THEN LET r == ToNat(a3)  i == ToNat(a2) + 1 IN
                              [hh EXCEPT !.k = K, !.v = PopN(@, 3), !.s[r].d[i] = a1,
                                         !.ver = IF hh.s[r].d[i] = a1 THEN @ ELSE @ + 1]
                         ELSE IF it.op \in {"div", "mod"} /\ IsZero(a1) THEN HFault(hh, FDivZero)
                         ELSE LET r == ToNat(a4)  i == ToNat(a3) + 1
                                  res == ElemTrunc(it.el, ArithRes(it.op, a2, a1)) IN
                              [hh EXCEPT !.k = K, !.v = PopN(@, 4), !.s[r].d[i] = res,
                                         !.wrap = @ \/ Wraps(it.op, a2, a1),
                                         !.ver = IF hh.s[r].d[i] = res THEN @ ELSE @ + 1])
     [] it.k = "pop" -> [hh EXCEPT !.k = K, !.v = Pop(@)]
     [] it.k = "branch" -> [hh EXCEPT !.v = Pop(@), !.k = Items(IF ~IsZero(a1) THEN it.a ELSE it.b) \o K]
     [] it.k = "loophead" -> (LET here == <<it.l.id, Len(K), Len(hh.f), hh.ver>> IN
                              IF here \in hh.anch THEN [hh EXCEPT !.st = "forever"]
                              ELSE [hh EXCEPT !.anch = @ \cup {here}, !.k = <<E(it.l.c), [k |-> "loopbr", l |-> it.l]>> \o K])
     [] it.k = "loopbr" -> (IF IsZero(a1) THEN [hh EXCEPT !.v = Pop(@), !.k = K]
                            ELSE [hh EXCEPT !.v = Pop(@), !.k = Items(it.l.body) \o <<[k |-> "loopcont", l |-> it.l]>> \o K])
     [] it.k = "loopcont" -> Goto(hh, Items(it.l.step) \o <<[k |-> "loophead", l |-> it.l]>> \o K)
     [] it.k = "endtry" -> [LeaveTry(hh, it) EXCEPT !.k = K]
     [] it.k = "fault" -> HFault(hh, it.flag)
     [] it.k = "bi2" -> Builtin(hh, it, K)
     [] it.k = "arrlit2" -> NewArr([hh EXCEPT !.v = PopN(@, it.n)], K,
                                   Arr(it.el, it.ro, [i \in 1..it.n |-> v[Len(v) - it.n + i]]))
     [] it.k = "vla2" -> (IF IsNeg(a1) \/ LenTooBig(a1, it.el) THEN HFault(hh, FStackOverflow)
                          ELSE IF ~SmallNat(a1) \/ ToNat(a1) > MaxAlloc THEN [hh EXCEPT !.st = "toobig"]
                          ELSE LET h1 == NewArr([hh EXCEPT !.v = Pop(@)], K, Arr(it.el, FALSE, [i \in 1..ToNat(a1) |-> Uninit]))
                               IN [h1 EXCEPT !.f[Len(hh.f)][it.slot] = Top(h1.v), !.v = Pop(@)])
     [] it.k = "spec1" -> \* value of b is on the stack; the alternative world continues with it
                          [PushChoice(hh, "spec", Goto(hh, K)) EXCEPT !.k = <<E(it.a), [k |-> "spec2"]>> \o K]
     [] it.k = "spec2" -> (IF a1 = a2 THEN Defeat(hh) ELSE Push([hh EXCEPT !.v = PopN(@, 2), !.ch = Pop(@)], K, a1))

(* ------------------------------------------------------------------ statements *)
StmtStep(hh, s, K) ==
   CASE s.k = "decl" -> Goto(hh, <<E(s.e), [k |-> "bind", slot |-> s.slot]>> \o K)
     [] s.k = "vla" -> Goto(hh, <<E(s.len), [k |-> "vla2", slot |-> s.slot, el |-> s.el]>> \o K)
     [] s.k = "assign" -> Goto(hh, <<E(s.e), [k |-> "set", tk |-> s.tk, idx |-> s.idx]>> \o K)
     [] s.k = "assignIdx" -> Goto(hh, <<E(s.arr), E(s.i), [k |-> "chk"]>>
                                      \o (IF s.op = "" THEN <<>> ELSE <<[k |-> "ldel"]>>)
                                      \o <<E(s.e), [k |-> "sto", op |-> s.op, el |-> s.el]>> \o K)
     [] s.k = "expr" -> Goto(hh, <<E(s.e), [k |-> "pop"]>> \o K)
     [] s.k = "if" -> Goto(hh, <<E(s.c), [k |-> "branch", a |-> s.a, b |-> s.b]>> \o K)
     [] s.k = "loop" -> Goto(hh, <<[k |-> "loophead", l |-> s]>> \o K)
     [] s.k = "break" -> Unwind(hh, K, "loopcont", TRUE)
     [] s.k = "continue" -> Unwind(hh, K, "loopcont", FALSE)
     [] s.k = "return" -> (IF s.has THEN Goto(hh, <<E(s.e), [k |-> "ret"]>> \o K) ELSE DoReturn(hh, K, FALSE))
     [] s.k = "block" -> Goto(hh, Items(s.body) \o K)
     [] s.k = "try" ->
          (LET mk == [k |-> "endtry", kind |-> s.kind, nch |-> Len(hh.ch), handler |-> s.handler,
                      fdepth |-> Len(hh.f), vh |-> Len(hh.v)]
               inside == Items(s.body) \o <<mk>> \o K
               alt == IF s.kind = "undo" THEN [hh EXCEPT !.k = Items(s.handler) \o K]
                      ELSE [hh EXCEPT !.k = inside, !.mode = "virtual"]
           IN [PushChoice(hh, s.kind, alt) EXCEPT !.k = inside, !.mode = "real"])
     [] s.k = "preempt" ->
          (IF hh.mode = "virtual" THEN Goto(hh, Items(s.body) \o K)
           ELSE [PushChoice(hh, "preempt", Goto(hh, Items(s.body) \o K)) EXCEPT !.k = K])

(* ------------------------------------------------------------------ the machine *)
HStepRec(hh) ==
   IF hh.k = <<>> THEN End(hh, <<FlagEv(1)>>)            \* @is_you returned: win
   ELSE LET it == Head(hh.k)  K == Tail(hh.k) IN
        IF it.k = "s" THEN StmtStep(hh, it.s, K)
        ELSE IF it.k = "e" THEN ExprStep(hh, it.e, K)
        ELSE ApplyStep(hh, it, K)

HInitRec(c) ==
   LET src == MCSources[MCCases[c].src]
       main == src.funcs[src.main] IN
   [k |-> Items(main.body) \o <<[k |-> "callret", f |-> src.main, vh |-> 0]>>,
    v |-> <<>>, f |-> <<MCCases[c].frame0>>, s |-> MCCases[c].store0, g |-> MCCases[c].g0,
    out |-> <<>>, st |-> "run", mode |-> "none", ch |-> <<>>, ver |-> 0, anch |-> {}, wrap |-> FALSE]

HInit == hcase \in 1..Len(MCCases) /\ h = HInitRec(hcase)
HStep == h.st = "run" /\ h' = HStepRec(h) /\ UNCHANGED hcase
=============================================================================
