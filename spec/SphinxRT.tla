------------------------------ MODULE SphinxRT ------------------------------
(* The run-time protocol hidc promises on top of the Sphinx machine, as monitors over machine        *)
(* behaviours (DESIGN 2.3).  The machine (Sphinx.tla) is untouched; this module adds history           *)
(* variables that rewind together with the machine (one snapshot per pending choice) and an `alarm`   *)
(* that names the first monitor that fails.  Probe points are read off the emitted text only: the ABI *)
(* words `ap fp r0 r1 r2 try_fp defeat`, `stack_start/stack_end`, function entry labels and the label *)
(* stems `loop_ continue_ break_ begin_try_ try_handler_ end_try_`.  A missing probe disables the      *)
(* monitors keyed on it (reported as reduced coverage), it never raises an alarm.                      *)
(*                                                                                                    *)
(* Verdict monitors (each a direct reading of a property statement):                                  *)
(*   NoFallThrough   C16  control never enters a function by running off the end of the previous one  *)
(*   FrameInGap      C04  an access whose base derives from fp lies in [ap, fp)                        *)
(*   ElemInExtent    C04/C08  an access whose base derives from an array origin (a value read from ap) *)
(*                   or from a data label lies inside that live extent / that datum                   *)
(*   Unclassified    C04  any other state access lies in the frame gap, a live array or the globals    *)
(*   AbiWordsSafe    C04  no store instruction hits ap..r2 or try_fp/defeat                            *)
(*   ApFpOrdered     C04  stack_start <= ap <= fp <= stack_end                                         *)
(*   LoopFootprint   C08  re-entering a loop head by its back edge, and reaching its continue/break    *)
(*                   labels, ap equals the value recorded when this loop instance was entered          *)
(*   ReturnBalanced  C08  at a return (j through r0..r2) fp and ap equal the activation's entry values *)
(*   TryBalanced     C08/C02  at end_try_k (fp, ap) equal the values recorded at try entry             *)
(*   DefeatWordReset C02/C03  at end_try_k the variable defeat word holds the address of `halt`        *)
(*   GuardCovers     C04  a frame write never goes deeper than what the stack guards of its activation *)
(*                   have established (entry guard: fp - ap >= K; dynamic array guard: X stays free    *)
(*                   after the allocation), whatever the actual stack size: a guard that is too small  *)
(*                   is seen at a generous stack, not only when the stack is exactly full              *)
(* Diagnostic only (never a verdict): ApAligned.                                                      *)
(*                                                                                                    *)
(* Provenance of a value: F = read from fp; A(v) = read from ap when ap = v; G/C(lo,hi) = address of a *)
(* labelled datum in state/const; N = none.  mov copies; add/sub with exactly one tagged operand keep  *)
(* the tag; word loads/stores carry tags with the data; everything else clears them.                   *)
EXTENDS Sphinx

CONSTANT Monitors      \* FALSE: history variables stay empty (cheap), only NoRealHalt/NoFault/NoFallThrough

VARIABLES sh,          \* [tags, arrays, acts, marks, trys, byjump, from]
          shstack,     \* one [sh, jop, from] per pending choice
          alarm        \* "" or the name of the failed monitor
rvars == <<sh, shstack, alarm>>

RT == P.rt
TN == [t |-> "N", x |-> 0, y |-> 0]
TF == [t |-> "F", x |-> 0, y |-> 0]
TA(v) == [t |-> "A", x |-> v, y |-> 0]

RdW(a) == RdBytes(mem, a, W)
CurAp == Addr(RdW(RT.ap))
CurFp == Addr(RdW(RT.fp))
HasAbi == RT.ap >= 0 /\ RT.fp >= 0 /\ RT.sstart >= 0 /\ RT.send >= 0

TagAt(tags, a) == IF a \in DOMAIN tags THEN tags[a] ELSE TN
\* provenance of an operand in the current state
Prov(tags, o) == CASE o.k = "i" -> o.tg
                   [] o.k = "s" -> (IF o.v = RT.fp THEN TF ELSE IF o.v = RT.ap THEN TA(CurAp) ELSE TagAt(tags, o.v))
                   [] OTHER -> TN
\* writing n bytes at a kills every tag overlapping them; a whole tagged word may set a new one
SetTag(tags, a, n, tag) ==
   LET keep == {b \in DOMAIN tags : ~(b < a + n /\ a < b + W)}
       dom == IF tag.t # "N" /\ n = W THEN keep \cup {a} ELSE keep
   IN [b \in dom |-> IF b = a THEN tag ELSE tags[b]]

(* ------------------------------------------------------------------ access rule *)
\* s.gd: one record per guarded activation [fp, apB, gB]: "when ap = apB at least gB bytes are free below fp", hence
\* gB - (ap - apB) bytes for the present ap.  Frames of callees without a guard (library routines) are charged to
\* the innermost guarded activation, as the compiler does.
GuardBad(s, a, ap) == /\ Len(s.gd) > 0
                      /\ LET g == s.gd[Len(s.gd)] IN g.fp >= a /\ (g.fp - a) > g.gB - (ap - g.apB)
InSome(arrs, a, n) == \E k \in 1..Len(arrs) : arrs[k].lo <= a /\ a + n <= arrs[k].hi
AccessAlarm(s, prov, a, n, write, sec) ==
   LET ap == CurAp  fp == CurFp IN
   IF sec = "c" THEN ""
   ELSE LET w == IF write /\ (a < RT.sstart \/ (RT.tryfp >= 0 /\ a + n > RT.tryfp)) THEN "AbiWordsSafe" ELSE "" IN
   IF w # "" THEN w
   ELSE IF prov.t = "F" THEN (IF ~(ap <= a /\ a + n <= fp) THEN "FrameInGap"
                              ELSE IF write /\ GuardBad(s, a, ap) THEN "GuardCovers" ELSE "")
   ELSE IF prov.t = "A" THEN
        LET starts == {k \in 1..Len(s.arrays) : s.arrays[k].lo = prov.x}
            newest == Len(s.arrays)
            ends == IF starts = {} /\ newest > 0 /\ s.arrays[newest].hi = prov.x /\ prov.x = ap THEN {newest} ELSE {}
            cand == starts \cup ends
        IN IF cand = {} THEN "ElemInExtent"
           ELSE LET k == CHOOSE k \in cand : \A j \in cand : s.arrays[j].hi <= s.arrays[k].hi IN
                IF s.arrays[k].lo <= a /\ a + n <= s.arrays[k].hi THEN "" ELSE "ElemInExtent"
   ELSE IF prov.t = "G" THEN (IF prov.x <= a /\ a + n <= prov.y THEN "" ELSE "ElemInExtent")
   ELSE IF \/ (ap <= a /\ a + n <= fp)
           \/ InSome(s.arrays, a, n)
           \/ (RT.send <= a /\ (RT.tryfp < 0 \/ a + n <= RT.tryfp))
        THEN "" ELSE "Unclassified"

(* ------------------------------------------------------------------ writes to ap / fp *)
ApWrite(s, old, new) ==
   IF new > old THEN [s EXCEPT !.arrays = Append(@, [lo |-> old, hi |-> new])]
   ELSE IF new < old THEN [s EXCEPT !.arrays = SelectSeq(@, LAMBDA e : e.lo < new)]
   ELSE s
ApAlarm(new, fp) == IF RT.sstart <= new /\ new <= fp THEN "" ELSE "ApFpOrdered"
FpWrite(s, old, new, ismov) ==
   IF new > old
   THEN LET s1 == [s EXCEPT !.marks = {m \in @ : m.fp >= new}, !.trys = SelectSeq(@, LAMBDA e : e.fp >= new),
                            !.gd = SelectSeq(@, LAMBDA e : e.fp >= new)] IN
        IF ismov THEN [s1 EXCEPT !.acts = SelectSeq(@, LAMBDA e : e.fp >= new)] ELSE s1
   ELSE s
FpAlarm(ap, new) == IF ap <= new /\ new <= RT.send THEN "" ELSE "ApFpOrdered"

(* ------------------------------------------------------------------ arrival at pc *)
StemsHere == IF pc \in RT.stempcs THEN RT.stems[pc] ELSE <<>>
HasStem(s) == \E k \in 1..Len(StemsHere) : StemsHere[k].s = s
StemIds(s) == {StemsHere[k].k : k \in {j \in 1..Len(StemsHere) : StemsHere[j].s = s}}

ArriveAlarm(s) ==
   LET fp == CurFp  ap == CurAp IN
   IF ~s.byjump /\ pc \in RT.entries THEN "NoFallThrough"
   ELSE IF ~Monitors THEN ""
   ELSE IF \E k \in StemIds("loop") : s.from >= pc /\ \E m \in s.marks : m.k = k /\ m.fp = fp /\ m.ap # ap
        THEN "LoopFootprint"
   ELSE IF \E k \in StemIds("continue") \cup StemIds("break") : \E m \in s.marks : m.k = k /\ m.fp = fp /\ m.ap # ap
        THEN "LoopFootprint"
   ELSE IF \E k \in StemIds("end_try") :
             LET idx == {j \in 1..Len(s.trys) : s.trys[j].k = k /\ s.trys[j].fp >= fp} IN
             idx # {} /\ LET top == CHOOSE j \in idx : \A j2 \in idx : j2 <= j IN
                         s.trys[top].fp # fp \/ s.trys[top].ap # ap
        THEN "TryBalanced"
   \* outside a stop-try the variable defeat word is `halt` again (tries do not nest; the no-defeat path never installs
   \* the handler, the handler path resets it): a stale handler address would turn a later undo-try's defeat into a
   \* jump to an old stop block (finding F1)
   ELSE IF RT.defeat >= 0 /\ RT.halt >= 0 /\ StemIds("end_try") # {} /\ Addr(RdW(RT.defeat)) # RT.halt
        THEN "DefeatWordReset"
   ELSE ""

Arrive(s) ==
   IF ~Monitors THEN s ELSE
   LET fp == CurFp  ap == CurAp
       \* a jump to a function entry opens an activation - unless it is the back edge of a loop that starts the function
       \* body (unchecked builds have no prologue, so `func_f` and `loop_k` can be one address): a call always moves fp
       \* below the caller's return address, a back edge leaves fp where the activation was opened
       sameframe == Len(s.acts) > 0 /\ s.acts[Len(s.acts)].fp = fp
       s1 == IF pc \in RT.entries /\ s.byjump /\ pc \notin RT.terminals /\ ~sameframe
             THEN [s EXCEPT !.acts = Append(@, [fp |-> fp, ap |-> ap])] ELSE s
       \* entering a loop from above (fall-through or forward jump) starts a new loop instance
       loops == IF s.from < pc THEN StemIds("loop") ELSE {}
       s2 == IF loops = {} THEN s1
             ELSE [s1 EXCEPT !.marks = {m \in @ : ~(m.k \in loops /\ m.fp = fp)} \cup {[k |-> k, fp |-> fp, ap |-> ap] : k \in loops}]
       begins == StemIds("begin_try")
       s3 == IF begins = {} THEN s2
             ELSE [s2 EXCEPT !.trys = SelectSeq(@, LAMBDA e : ~(e.k \in begins /\ e.fp = fp))
                                      \o <<[k |-> CHOOSE k \in begins : TRUE, fp |-> fp, ap |-> ap]>>]
       ends == StemIds("end_try")
       s4 == IF ends = {} THEN s3
             ELSE [s3 EXCEPT !.trys = SelectSeq(@, LAMBDA e : ~(e.k \in ends /\ e.fp <= fp))]
       \* stack guards (reached only when the guard has passed: the other path ends in stack_overflow)
       g == IF pc \in RT.guardpcs THEN RT.guards[pc] ELSE [k |-> "n", v |-> 0]
       s5 == IF g.k = "e"
             THEN [s4 EXCEPT !.gd = Append(SelectSeq(@, LAMBDA e : e.fp > fp), [fp |-> fp, apB |-> ap, gB |-> g.v])]
             ELSE IF g.k = "v" /\ Len(s4.gd) > 0 /\ s4.gd[Len(s4.gd)].fp = fp /\ Ins.op = "add" /\ Ins.a.v = RT.ap
             THEN LET t == s4.gd[Len(s4.gd)]
                      apA == ap + Addr(Val(Ins.c))
                      old == t.gB - (apA - t.apB)
                  IN [s4 EXCEPT !.gd[Len(s4.gd)] = [fp |-> fp, apB |-> apA, gB |-> IF old > g.v THEN old ELSE g.v]]
             ELSE s4
   IN s5

(* ------------------------------------------------------------------ effect of a sequential instruction *)
\* provenance carried by an arithmetic result
ArithTag(op, pa, pb) ==
   IF op = "add" THEN (IF pa.t # "N" /\ pb.t = "N" THEN pa ELSE IF pb.t # "N" /\ pa.t = "N" THEN pb ELSE TN)
   ELSE IF op = "sub" THEN (IF pa.t # "N" /\ pb.t = "N" THEN pa ELSE TN)
   ELSE TN

\* register write: destination address d receives word v with provenance tag
RegWrite(s, d, v, tag, ismov) ==
   LET s1 == IF d = RT.ap THEN ApWrite(s, CurAp, Addr(v))
             ELSE IF d = RT.fp THEN FpWrite(s, CurFp, Addr(v), ismov) ELSE s
   IN [s1 EXCEPT !.tags = SetTag(@, d, W, tag)]
RegAlarm(d, v) == IF d = RT.ap THEN ApAlarm(Addr(v), CurFp)
                  ELSE IF d = RT.fp THEN FpAlarm(CurAp, Addr(v)) ELSE ""

\* base provenance of an addressing mode: the base operand, else the offset operand
BaseProv(tags, base, off, hasoff) ==
   LET pb == Prov(tags, base) IN
   IF hasoff /\ pb.t = "N" THEN Prov(tags, off) ELSE pb

SeqEffect(s, i) ==       \* <<new shadow, alarm>>
   IF i.op = "mov" THEN
        <<RegWrite(s, i.a.v, Val(i.b), Prov(s.tags, i.b), TRUE), RegAlarm(i.a.v, Val(i.b))>>
   ELSE IF i.op \in ArithOps THEN
        LET v == Arith(i.op, Val(i.b), Val(i.c)) IN
        <<RegWrite(s, i.a.v, v, ArithTag(i.op, Prov(s.tags, i.b), Prov(s.tags, i.c)), FALSE), RegAlarm(i.a.v, v)>>
   ELSE IF i.op \in LoadOps THEN
        LET a == LoadAddr(i)  n == LoadSize(i.op)  sec == LoadSec(i.op)
            prov == BaseProv(s.tags, i.b, i.c, HasOff(i.op))
            v == IF n = W THEN RdBytes(LoadBuf(i.op), a, W) ELSE ByteWord(LoadBuf(i.op)[a + 1])
            tag == IF sec = "s" /\ n = W THEN TagAt(s.tags, a) ELSE TN
            al == AccessAlarm(s, prov, a, n, FALSE, sec)
        IN <<RegWrite(s, i.a.v, v, tag, FALSE), IF al # "" THEN al ELSE RegAlarm(i.a.v, v)>>
   ELSE IF i.op \in StoreOps THEN
        LET a == StoreAddr(i)  n == StoreSize(i.op)
            prov == BaseProv(s.tags, i.a, i.b, HasOff(i.op))
            pv == Prov(s.tags, IF HasOff(i.op) THEN i.c ELSE i.b)
        IN <<[s EXCEPT !.tags = SetTag(@, a, n, IF n = W THEN pv ELSE TN)], AccessAlarm(s, prov, a, n, TRUE, "s")>>
   ELSE <<s, "">>

(* ------------------------------------------------------------------ the monitored step *)
IsReturnJump(o) == o.k = "s" /\ o.v \in {RT.r0, RT.r1, RT.r2}
\* a `j` straight to a try_handler label opens a try/undo
UndoTryIds(i) == IF i.op = "j" /\ i.a.k = "i" /\ i.a.v \in RT.stempcs
                 THEN {RT.stems[i.a.v][k].k : k \in {j \in 1..Len(RT.stems[i.a.v]) : RT.stems[i.a.v][j].s = "try_handler"}}
                 ELSE {}

RTStep ==
   /\ alarm = ""
   /\ Step
   /\ IF status' # "run" THEN UNCHANGED <<sh, shstack>> /\ alarm' = ""
      ELSE LET aal == IF pc >= 0 /\ pc < CodeLen /\ HasAbi THEN ArriveAlarm(sh) ELSE ""
               s0 == IF HasAbi THEN Arrive(sh) ELSE sh IN
      IF aal # "" THEN alarm' = aal /\ UNCHANGED <<sh, shstack>>
      ELSE IF Len(choices') > Len(choices) THEN            \* Jump: tentative, not taken
           LET ids == UndoTryIds(Ins)
               s1 == IF Monitors /\ HasAbi /\ ids # {}
                     THEN [s0 EXCEPT !.trys = Append(@, [k |-> CHOOSE k \in ids : TRUE, fp |-> CurFp, ap |-> CurAp])]
                     ELSE s0
           IN /\ shstack' = Append(shstack, [sh |-> s1, jop |-> Ins.a, from |-> pc])
              /\ sh' = [s1 EXCEPT !.byjump = FALSE, !.from = pc]
              /\ alarm' = ""
      ELSE IF Len(choices') < Len(choices) THEN            \* Backtrack: the newest pending jump is taken
           LET top == shstack[Len(shstack)]
               s1 == top.sh
               fp2 == Addr(RdBytes(mem', RT.fp, W))
               ap2 == Addr(RdBytes(mem', RT.ap, W))
               ret == Monitors /\ HasAbi /\ IsReturnJump(top.jop) /\ s1.acts # <<>>
               bad == ret /\ (s1.acts[Len(s1.acts)].fp # fp2 \/ s1.acts[Len(s1.acts)].ap # ap2)
               s2 == IF ret THEN [s1 EXCEPT !.acts = SubSeq(@, 1, Len(@) - 1)] ELSE s1
           IN /\ shstack' = SubSeq(shstack, 1, Len(shstack) - 1)
              /\ sh' = [s2 EXCEPT !.byjump = TRUE, !.from = top.from]
              /\ alarm' = IF bad THEN "ReturnBalanced" ELSE ""
      ELSE                                                 \* sequential instruction
           LET eff == IF Monitors /\ HasAbi THEN SeqEffect(s0, Ins) ELSE <<s0, "">> IN
           /\ sh' = [eff[1] EXCEPT !.byjump = FALSE, !.from = pc]
           /\ alarm' = eff[2]
           /\ UNCHANGED shstack

ShInit == /\ sh = [tags |-> IF Monitors THEN Progs[prog].inits[inp].tags ELSE <<>>,
                   arrays |-> <<>>, acts |-> <<>>, marks |-> {}, trys |-> <<>>, gd |-> <<>>, byjump |-> TRUE, from |-> 0 - 1]
          /\ shstack = <<>> /\ alarm = ""
RTInit == MInit /\ ShInit

NoAlarm == alarm = ""
=============================================================================
