"""C15 --unchecked changes nothing on fault-free runs.  Decided by Refine.tla with the UNCHECKED image of each
program: whenever the source-level run raises no fault, the unchecked image must have HiDSem's observable (the
checked image is held to the same observable by C01/C02, so the two builds agree)."""
import time, zlib
from hv import rt, fam_tt, families, runner

PROP = 'C15'
FAULTS = {'stack_overflow', 'division_by_zero', 'out_of_bounds', 'nonlocal_preempt'}


def main(tier, seed):
    t0 = time.time()
    quick = tier == 'quick'
    base = []
    base += families.generated(seed, 70 if quick else 700, feat={'faults': 0.1}, inputs=2, family='gen')
    base += fam_tt.random_tt(seed + 1, 20 if quick else 300)
    base += families.generated(seed + 2, 20 if quick else 300, feat={'tt': 0.8}, inputs=2, family='gentt15')
    base += fam_tt.template_family(seed, tier)[::2 if quick else 1]
    base += fam_tt.template_family(seed, tier, only=[t for t in fam_tt.TEMPLATES if t[0] in ('forced_preempt_in_defeat_fn', 'preempt_in_defeat_fn')])
    base += fam_tt.scope_family(seed, 6 if quick else 60, iters=(0, 2))
    base += families.examples(s=120, names={'hello', 'max', 'factor', 'optional_max'})
    from hv import fam_seq
    base += [it for it in fam_seq.misc(seed, tier) if it.w in (2, 3)]
    from hv import fam_ops
    ops = [it for it in fam_ops.ops_family(seed, tier, [2]) if it.key[1].startswith(('ar_', 'src_'))]      # unchecked-only rewrites of arithmetic
    trips = ('ar_muldiv', 'ar_divmul', 'ar_addsub', 'ar_mulmod')
    base += [it for it in ops if it.key[1].startswith(trips)] + [it for it in ops if not it.key[1].startswith(trips)][::5 if quick else 1]
    base += fam_seq.eval_order(seed, tier)       # the checked build snapshots operands around its checks: the unchecked one must too
    for w in ([3] if quick else [3, 4, 8]):
        base += families.generated(seed + w, 10 if quick else 60, w=w, inputs=2, family='gen_w%d' % w)
    # stack overflow is undefined behaviour in an unchecked build too: keep only cases whose CHECKED image runs
    # without the stack_overflow flag (selection by the accelerator VM; the verdict stays TLC's)
    from hv import hidc_api, svm, sasm
    fits = []
    for it in base:
        try:
            vm = svm.VM(sasm.Program(hidc_api.compile_src(it.src, w=it.w, s=it.s), it.args), max_steps=20000, full_cycle=False).run()
            if 'stack_overflow' not in vm.flags():
                fits.append(it)
        except Exception:
            fits.append(it)
    base = fits
    items = []
    for it in base:
        items.append(runner.Item(it.key + ('unchecked',), it.src, it.args, w=it.w, s=it.s, unchecked=True,
                                 meta=dict(it.meta, family=it.meta['family'] + ':unchecked')))
        if quick and zlib.crc32(repr(it.key).encode()) % 5:
            continue
        items.append(it)     # the checked image too: both builds are then held to the same observable

    def post(vs, its):
        faulted = {}
        for it in its:
            x = it.result
            if x:
                ev = (x['hobs'] or x['mobs'])[0]
                if it.unchecked:
                    faulted[id(it)] = any(k == 'f' and v in FAULTS for k, v in ev)
        res = []
        bykey = {(it.src, tuple(it.args), it.w, it.unchecked): it for it in its}
        for v in vs:
            it = bykey.get((v.detail['source'], tuple(v.detail['args']), v.detail['w'], v.detail['unchecked']))
            if it is not None and it.unchecked and faulted.get(id(it)):
                continue          # the checked run faults: the unchecked build is undefined there
            res.append(v)
        return res
    return rt.standard(PROP, tier, seed, items,
                       'unchecked images of random sequential programs, random and template time-travel programs, scope-exit '
                       'programs and examples, judged against the source semantics on every input whose source-level run is '
                       'fault free; several word sizes', t0, postfilter=post)
