"""Regenerates MANIFEST.json from the table below (run: /venv/bin/python -m hv.mkmanifest)."""
import json, os, subprocess
from . import common

RT = 'Refine.tla: TLC runs the REAL compiler output on the Sphinx machine spec (SphinxRT monitors evaluated in every state) and the source on HiDSem, and compares observables; '
CHECKS = {
 'C01': (RT + 'random well-typed sequential programs x input grid x word sizes x stack sizes',
         'trace validation of compiled code against the TLA+ source semantics (TLC)', '5/C01, 2.2-2.5'),
 'C02': (RT + 'enumerated time-travel core (try/undo/stop, preempt, defeat functions, histories of consecutive tries), templates, random time-travel programs',
         'trace validation of compiled code against the TLA+ backtracking semantics (TLC)', '5/C02, 2.4'),
 'C03': ('NoRealHalt (Sphinx.tla) evaluated by TLC in every machine state, speculative or committed, of every run of a corpus covering all flavours, control constructs and histories; checked and fault-free unchecked builds',
         'state invariant on the TLA+ machine spec executing real compiler output (TLC)', '5/C03, 2.2'),
 'C04': ('SphinxRT.tla monitors (FrameInGap, GuardCovers, ElemInExtent, Unclassified, AbiWordsSafe, ApFpOrdered, NoFault) in every state; stack-size sweep differential; Tracker.tla replay into the real Tracker',
         'provenance monitors over TLA+ machine behaviours (TLC) + model replay', '5/C04, 2.3'),
 'C05': (RT + 'fault-injection sites x positions x element types x storage classes x boundary operand values',
         'trace validation against the TLA+ fault semantics (TLC)', '5/C05'),
 'C06': ('Context.tla enumerated by TLC (every nesting path x construct with expected verdict), replayed into hidc.parser.parse, accept/reject compared both ways',
         'TLA+ model enumeration (TLC) + replay into the parser', '5/C06, 2.6'),
 'C07': ('Types.tla enumerated by TLC (rule x position x descriptor with expected verdict and overload), replayed into parse+evaluate',
         'TLA+ model enumeration (TLC) + replay into the typechecker', '5/C07, 2.6'),
 'C08': ('SphinxRT.tla monitors LoopFootprint, ReturnBalanced, TryBalanced, ElemInExtent in every state + Agree + fixed-footprint clause (1 vs 2, 5, 20 iterations at the minimum stack)',
         'history-variable monitors over TLA+ machine behaviours (TLC)', '5/C08, 2.3'),
 'C09': (RT + 'one program per operator/cast with all usage positions, operands on a boundary grid, several word sizes',
         'trace validation against Word.tla arithmetic (TLC)', '5/C09, 2.1'),
 'C10': ('Driver.tla trace validation of recorded API/CLI compilations (TLC accepts or rejects each trace); token soups enumerated by TLC',
         'trace validation against a TLA+ protocol spec (TLC)', '5/C10, 2.6'),
 'C11': ('Precedence.tla: TLC re-parses every recorded token string with its own operator-precedence machine and compares trees; spec-printed trees parsed back by hidc',
         'trace validation + round trip against a TLA+ parser spec (TLC)', '5/C11, 2.6'),
 'C12': ('Lexer.tla: TLC re-lexes every recorded input with the spec tokenizer and compares kinds, values and spans; layout variants compared',
         'trace validation against a TLA+ tokenizer spec (TLC)', '5/C12, 2.6'),
 'C13': (RT + 'every byte value in string/char literals, special-byte pairs, constant arrays of all lengths; AsmText.tla unescapes every emitted literal',
         'trace validation (TLC) of data constants end to end', '5/C13'),
 'C14': (RT + 'TWINS: the compiled constant form judged against HiDSem run on the run-time form of the same expression',
         'twin-program trace validation (TLC)', '5/C14'),
 'C15': (RT + 'UNCHECKED images judged against the source semantics on inputs whose source-level run is fault free',
         'trace validation of the unchecked build (TLC)', '5/C15'),
 'C16': ('ExitModes.tla enumerated by TLC (ground truth CanComplete per body shape) replayed into the typechecker; NoFallThrough monitor in every machine state while accepted shapes are driven down every path',
         'TLA+ model enumeration + state invariant on machine behaviours (TLC)', '5/C16'),
 'C17': (RT + 'write(int) over value ranges (thorough: all 65536 at 16 bits), write(bool/byte/string/byte array) of every length, tight stacks',
         'trace validation against Word.Decimal (TLC)', '5/C17'),
 'C18': ('Driver.tla digest traces (hash seeds, processes, --lint) + Refine.tla at ladders of stack sizes and word sizes (wrap history bit of HiDSem)',
         'trace validation (TLC) across configurations', '5/C18'),
}
NOT_YET = {}


def main():
    ids = ['C%02d' % i for i in range(1, 19)]
    commits = subprocess.run(['git', '-C', common.REPO, 'log', '--format=%h', '--grep=^hook:'], capture_output=True,
                             text=True).stdout.split()
    m = {
        'version': 1,
        'setup_cmd': '/venv/bin/python -m compileall -q hv && /venv/bin/python -m hv.setup',
        'hooks': {'guard': 'HIDC_VERIF',
                  'enable': 'no source hooks: the checks read the emitted assembly (ABI labels, label stems) and call the public API of the working tree; HIDC_VERIF is reserved and unused',
                  'baseline_off_cmd': 'cd /repo && /venv/bin/python -m pytest -ra -q -p no:cacheprovider --timeout=900 --continue-on-collection-errors',
                  'source_commits': commits, 'add_only': True},
        'engines': [
            {'name': 'TLC', 'path': '/opt/veriftools/tla/tla2tools.jar', 'serves_properties': sorted(CHECKS),
             'kind_free_text': 'explicit-state model checker evaluating the TLA+ specifications in /verif/spec'},
            {'name': 'svm', 'path': 'hv/svm.py', 'serves_properties': [c for c in sorted(CHECKS)],
             'kind_free_text': 'accelerator only (sizes and selects cases, writes replays); never decides a verdict'}],
        'checks': [],
        'not_applicable': [],
        'notes': 'See DESIGN.md.  Every verdict is a TLA+ formula evaluated by TLC; Python generates cases, calls the working-tree compiler, assembles its output into TLA+ constants and parses TLC results.',
    }
    for i in ids:
        if i in CHECKS:
            text, tech, ref = CHECKS[i]
            m['checks'].append({
                'property_id': i,
                'quick_cmd': '/venv/bin/python -m hv.check %s --tier quick' % i,
                'thorough_cmd': '/venv/bin/python -m hv.check %s --tier thorough' % i,
                'evidence_file': '/verif/evidence/%s.json' % i,
                'replay_cmd_template': '/venv/bin/python -m hv.check %s --replay {path}' % i,
                'engine': 'TLC',
                'level_claimed': {'category': 'model_checking', 'text': text + '; exhaustive or sampled within the bounds stated in the evidence file', 'design_ref': ref},
                'level_note': 'trusted base: TLC/SANY, the reconstructed Sphinx ISA (validated against the 52 upstream codegen tests), the verification assembler, the TLA+ specifications as the reading of README.rst',
                'technique': tech})
        else:
            m['not_applicable'].append({'property_id': i, 'reason': NOT_YET.get(i, 'check not registered yet (build in progress; see DESIGN.md section 11)')})
    with open(os.path.join(common.VERIF, 'MANIFEST.json'), 'w') as f:
        json.dump(m, f, indent=1)
    print('checks:', [c['property_id'] for c in m['checks']])


if __name__ == '__main__':
    main()
