---------------------------- MODULE DriverTrace ----------------------------
(***************************************************************************)
(* Trace validation against Driver.tla.  `Traces` is a sequence of         *)
(* recordings [id, mode, ev] made by hv/driver_run.py from the real code   *)
(* (one per compilation; identical recordings are batched once and carry   *)
(* the id of their first case).  A recording is ACCEPTED iff it is a       *)
(* behaviour of Driver that reaches phase "done":                          *)
(*   Step     the next recorded event is a legal Driver action;            *)
(*   Tau      ("cli" recordings only) a hidden phase event of Driver fires *)
(*            without consuming a recorded event;                          *)
(*   Accept   all events consumed and Driver is in phase "done";           *)
(*   DeadEnd  neither: prints the position and the clause (Driver!Why).    *)
(* A recording is rejected iff no Accept is reachable for it (for the      *)
(* deterministic modes that is exactly one DeadEnd).  Every case prints     *)
(* <<"AC", id>> or <<"HV", id, "REJECTED", position, clause>> (kept short: *)
(* TLC wraps long values over several lines, which workers interleave).    *)
(***************************************************************************)
EXTENDS Driver, DriverBatch
(* DriverBatch defines `Traces`.  spec/DriverBatch.tla is an empty stand-in; a run   *)
(* copies this module next to a generated DriverBatch.tla (hv/driver_trace.py).      *)
(* `Traces` must be an ordinary definition: TLC caches those, whereas a CONSTANT     *)
(* overridden in the cfg is re-evaluated at every reference (measured: quadratic).   *)

VARIABLES c,    \* index of the recording being replayed
          i,    \* number of recorded events consumed
          v     \* "run" | "acc" | "rej"

T == Traces[c]
More == i < Len(T.ev)
NextEv == T.ev[i + 1]

TInit == /\ c \in 1..Len(Traces)
         /\ i = 0
         /\ v = "run"
         /\ d = D0

Step == /\ v = "run" /\ More
        /\ Act(NextEv)
        /\ i' = i + 1
        /\ UNCHANGED <<c, v>>

TauOK == T.mode = "cli" /\ \E h \in HiddenEvents : Legal(h)
Tau == /\ v = "run" /\ T.mode = "cli"
       /\ \E h \in HiddenEvents : Act(h)
       /\ UNCHANGED <<c, i, v>>

Accepting == ~More /\ d.ph = "done"
Accept == /\ v = "run" /\ Accepting
          /\ PrintT(<<"AC", T.id>>)
          /\ v' = "acc"
          /\ UNCHANGED <<c, i, d>>

DeadEnd == /\ v = "run" /\ ~Accepting /\ ~TauOK
           /\ ~(More /\ Legal(NextEv))
           /\ PrintT(<<"HV", T.id, "REJECTED", i + 1, IF More THEN Why(NextEv) ELSE "incomplete_trace">>)
           /\ v' = "rej"
           /\ UNCHANGED <<c, i, d>>

TNext == Step \/ Tau \/ Accept \/ DeadEnd
=============================================================================
