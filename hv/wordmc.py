"""Model-check spec/Word.tla (limb arithmetic) at several word sizes.  Used by the engine self-checks."""
import os, sys, random
from . import common, tlc

INVS = ['AddOK', 'SubOK', 'NegOK', 'MulOK', 'CmpOK', 'DivOK', 'DecOK', 'DivIdent', 'NegIdent', 'MulIdent',
        'BitIdent', 'ShiftIdent', 'DecRound', 'OvfOK', 'LimbOK', 'SmallDivOK', 'MulOvfOK']


def grid(w, seed, extra):
    bits = 8 * w
    m = 1 << bits
    vals = {0, 1, 2, 7, 8, 9, 10, 100, 127, 128, 255, 256 % m, 257 % m, 1000 % m, (m >> 1) - 1, m >> 1, (m >> 1) + 1,
            m - 1, m - 2, m - 10, m - 128, m - 255, m - 256 % m, 12345 % m, 99999 % m}
    rnd = random.Random(seed * 31 + w)
    while len(vals) < len(vals) + 0 and False:
        pass
    for _ in range(extra):
        vals.add(rnd.randrange(m))
    return sorted(vals)


def run(w, seed=1, extra=8, exhaustive=False, timeout=600):
    d = common.scratch('wordmc_')
    try:
        vals = list(range(256)) if exhaustive else grid(w, seed, extra)
        words = ['<<' + ','.join(str((v >> (8 * i)) & 255) for i in range(w)) + '>>' for v in vals]
        with open(os.path.join(d, 'WordMCB.tla'), 'w') as f:
            f.write('---- MODULE WordMCB ----\nEXTENDS WordMC\nMCGrid == {%s}\n====\n' % ', '.join(words))
        with open(os.path.join(d, 'WordMCB.cfg'), 'w') as f:
            f.write('SPECIFICATION Spec\nCONSTANTS W = %d\n Grid <- MCGrid\n' % w)
            for i in INVS:
                f.write('INVARIANT %s\n' % i)
        r = tlc.run(d, 'WordMCB', timeout=timeout)
        return r, len(vals)
    finally:
        common.rm(d)


if __name__ == '__main__':
    for w, ex in ((1, True), (2, False), (3, False), (4, False), (8, False)):
        r, n = run(w, exhaustive=ex)
        print('W=%d pairs=%d distinct=%d ok=%s wall=%.1f %s' % (w, n * n, r.distinct, r.ok, r.wall, r.errors[:2] + r.violated))
        if not r.ok:
            print(r.out[-3000:])
            sys.exit(1)
