"""Assembler for the Sphinx assembly emitted by hidc: text -> Program (code records, state and const images,
labels, label provenance of immediates and data words).  Directive/expression syntax is part of the trusted
base (DESIGN A2); the string/char escape syntax is specified in spec/AsmText.tla and checked separately."""
import re


class AsmError(Exception):
    pass


ESC = {'n': 10, 'r': 13, 't': 9, '0': 0, '\\': 92, "'": 39, '"': 34, 'a': 7, 'b': 8, 'f': 12}


def unescape(s):
    out = bytearray()
    i = 0
    while i < len(s):
        c = s[i]
        if c == '\\':
            i += 1
            if i >= len(s):
                raise AsmError('dangling backslash')
            e = s[i]
            if e == 'x':
                h = s[i + 1:i + 3]
                if len(h) != 2 or not re.fullmatch(r'[0-9a-fA-F]{2}', h):
                    raise AsmError('bad \\x escape')
                out.append(int(h, 16))
                i += 3
                continue
            if e not in ESC:
                raise AsmError('bad escape \\' + e)
            out.append(ESC[e])
            i += 1
        else:
            out += c.encode('utf-8')
            i += 1
    return bytes(out)


TOK = re.compile(r"""\s*(?:(0x[0-9a-fA-F]+|\d+)(w?)|('(?:\\x[0-9a-fA-F]{2}|\\.|[^'\\])')|(\$?[A-Za-z_][A-Za-z_0-9]*)|([-+*&|()]))""")
IDENT = re.compile(r'[A-Za-z_]\w*')


class Expr:
    def __init__(self, text, prog):
        self.text = text
        self.prog = prog

    def eval(self):
        self.toks = []
        pos = 0
        t = self.text.strip()
        if not t:
            raise AsmError('empty expression')
        while pos < len(t):
            m = TOK.match(t, pos)
            if not m:
                raise AsmError('bad expr %r' % self.text)
            pos = m.end()
            if m.group(1) is not None:
                v = int(m.group(1), 0)
                if m.group(2):
                    v *= self.prog.word
                self.toks.append(('n', v))
            elif m.group(3):
                b = unescape(m.group(3)[1:-1])
                if len(b) != 1:
                    raise AsmError('char literal is not one byte: %r' % m.group(3))
                self.toks.append(('n', b[0]))
            elif m.group(4):
                self.toks.append(('n', self.prog.sym(m.group(4))))
            else:
                self.toks.append(('o', m.group(5)))
        self.i = 0
        v = self.p_or()
        if self.i != len(self.toks):
            raise AsmError('trailing junk in %r' % self.text)
        return v

    def peek(self):
        return self.toks[self.i] if self.i < len(self.toks) else (None, None)

    def p_or(self):
        v = self.p_and()
        while self.peek() == ('o', '|'):
            self.i += 1
            v |= self.p_and()
        return v

    def p_and(self):
        v = self.p_add()
        while self.peek() == ('o', '&'):
            self.i += 1
            v &= self.p_add()
        return v

    def p_add(self):
        v = self.p_mul()
        while self.peek() in (('o', '+'), ('o', '-')):
            op = self.peek()[1]
            self.i += 1
            r = self.p_mul()
            v = v + r if op == '+' else v - r
        return v

    def p_mul(self):
        v = self.p_un()
        while self.peek() == ('o', '*'):
            self.i += 1
            v *= self.p_un()
        return v

    def p_un(self):
        k, x = self.peek()
        if (k, x) == ('o', '-'):
            self.i += 1
            return -self.p_un()
        if (k, x) == ('o', '+'):
            self.i += 1
            return self.p_un()
        if (k, x) == ('o', '('):
            self.i += 1
            v = self.p_or()
            if self.peek() != ('o', ')'):
                raise AsmError('paren')
            self.i += 1
            return v
        if k == 'n':
            self.i += 1
            return x
        raise AsmError('bad expr %r' % self.text)


def split_args(s):
    out = []
    cur = ''
    q = None
    i = 0
    while i < len(s):
        c = s[i]
        if q:
            cur += c
            if c == '\\' and i + 1 < len(s):
                cur += s[i + 1]
                i += 1
            elif c == q:
                q = None
        elif c in '\'"':
            q = c
            cur += c
        elif c == ',':
            out.append(cur.strip())
            cur = ''
        else:
            cur += c
        i += 1
    if q:
        raise AsmError('unterminated quote in %r' % s)
    if cur.strip():
        out.append(cur.strip())
    return out


def strip_comment(line):
    q = None
    i = 0
    while i < len(line):
        c = line[i]
        if q:
            if c == '\\':
                i += 1
            elif c == q:
                q = None
        elif c in '\'"':
            q = c
        elif c == ';':
            return line[:i]
        i += 1
    return line


NARGS = {'j': 1, 'halt': 0, 'mov': 2, 'yield': 1, 'sleep': 1, 'flag': 1,
         'lws': 2, 'lwc': 2, 'lbs': 2, 'lbc': 2, 'lwso': 3, 'lwco': 3, 'lbso': 3, 'lbco': 3,
         'sws': 2, 'sbs': 2, 'swso': 3, 'sbso': 3}
ARITH = {'add', 'sub', 'mul', 'div', 'mod', 'and', 'or', 'xor', 'asl', 'asr'}
HCOND = {'heq', 'hne', 'hlt', 'hgt', 'hle', 'hge', 'hltu', 'hgtu', 'hleu', 'hgeu'}
for _o in ARITH:
    NARGS[_o] = 3
for _o in HCOND:
    NARGS[_o] = 2
DEST_FIRST = ARITH | {'mov', 'lws', 'lwc', 'lbs', 'lbc', 'lwso', 'lwco', 'lbso', 'lbco'}
FLAGS = {'win', 'error', 'debug', 'progress', 'stack_overflow', 'division_by_zero', 'out_of_bounds',
         'nonlocal_preempt'}


class Program:
    """Assembled image.  args: the command-line argument vector (list of str; bytes allowed for strings)."""

    def __init__(self, lines, args=()):
        self.word = 2
        self.labels = {}
        self.args = list(args)
        self.state = bytearray()
        self.const = bytearray()
        self.code = []
        self.fix = []
        self.argv_spec = []
        self.argvals = {}
        self.ascii_lines = []   # (section, offset, raw text between quotes, decoded bytes)
        sec = None
        text = [l.decode('utf-8') if isinstance(l, (bytes, bytearray)) else l for l in lines]
        self.src_lines = text
        for raw in text:
            line = strip_comment(raw).strip()
            if not line:
                continue
            if line.startswith('%'):
                parts = line.split()
                if parts[0] == '%format':
                    if len(parts) >= 3 and parts[1] == 'word':
                        self.word = int(parts[2])
                        if self.word < 1:
                            raise AsmError('bad word size')
                    elif len(parts) >= 3 and parts[1] == 'output':
                        pass
                    else:
                        raise AsmError(line)
                elif parts[0] == '%section':
                    if len(parts) != 2 or parts[1] not in ('state', 'const', 'code'):
                        raise AsmError(line)
                    sec = parts[1]
                elif parts[0] == '%argv':
                    self.parse_argv(parts[1:])
                else:
                    raise AsmError(line)
                continue
            while True:
                m = re.match(r'([A-Za-z_][A-Za-z_0-9]*)\s*:\s*(.*)$', line)
                if not m:
                    break
                name = m.group(1)
                if name in self.labels:
                    raise AsmError('dup label ' + name)
                if sec is None:
                    raise AsmError('label outside section')
                self.labels[name] = (sec, len(self.code) if sec == 'code' else len(self.state) if sec == 'state' else len(self.const))
                line = m.group(2)
            if not line:
                continue
            if sec == 'code':
                op, _, rest = line.partition(' ')
                if op not in NARGS:
                    raise AsmError('unknown instruction ' + op)
                a = split_args(rest)
                if len(a) != NARGS[op]:
                    raise AsmError('arity of %r' % line)
                self.code.append((op, a))
            elif sec in ('state', 'const'):
                buf = self.state if sec == 'state' else self.const
                d, _, rest = line.partition(' ')
                if d == '.word':
                    for a in split_args(rest):
                        self.fix.append((sec, len(buf), self.word, a))
                        buf += bytes(self.word)
                elif d == '.byte':
                    for a in split_args(rest):
                        self.fix.append((sec, len(buf), 1, a))
                        buf += b'\0'
                elif d == '.zero':
                    n = Expr(rest, self).eval()
                    if n < 0:
                        raise AsmError('negative .zero')
                    buf += bytes(n)
                elif d == '.ascii':
                    r = rest.strip()
                    if not (len(r) >= 2 and r.startswith('"') and r.endswith('"')):
                        raise AsmError('bad .ascii ' + r)
                    inner = r[1:-1]
                    # an unescaped quote inside terminates the literal early -> malformed
                    j = 0
                    while j < len(inner):
                        if inner[j] == '\\':
                            j += 2
                            continue
                        if inner[j] == '"':
                            raise AsmError('unescaped quote in .ascii')
                        j += 1
                    data = unescape(inner)
                    self.ascii_lines.append((sec, len(buf), inner, data))
                    buf += data
                elif d == '.arg':
                    self.emit_arg(sec, buf, rest.split())
                else:
                    raise AsmError('bad directive ' + line)
            else:
                raise AsmError('content outside section: ' + line)
        self.wmask = (1 << (8 * self.word)) - 1
        self.data_label = {}
        for sec_, off, size, ex in self.fix:
            v = Expr(ex, self).eval() & ((1 << (8 * size)) - 1)
            buf = self.state if sec_ == 'state' else self.const
            buf[off:off + size] = v.to_bytes(size, 'little')
            t = ex.strip()
            if size == self.word and IDENT.fullmatch(t) and t in self.labels:
                self.data_label[(sec_, off)] = t
        self.imm_label = {}
        self.ops = []
        for pc, (op, a) in enumerate(self.code):
            self.ops.append(self.compile(pc, op, a))
        # extents of labelled data per section
        self.ext = {}
        for sec in ('state', 'const'):
            labs = sorted((a, n) for n, (s, a) in self.labels.items() if s == sec)
            end = len(self.state) if sec == 'state' else len(self.const)
            for i, (a, n) in enumerate(labs):
                hi = end
                for b, _ in labs[i + 1:]:
                    if b > a:
                        hi = b
                        break
                self.ext[n] = (sec, a, hi)

    def parse_argv(self, specs):
        names = []
        for s in specs:
            m = re.fullmatch(r'<(\w+)>', s)
            if m:
                names.append((m.group(1), False))
                continue
            m = re.fullmatch(r'\[<(\w+)>\.\.\.\]', s)
            if m:
                names.append((m.group(1), True))
                continue
            raise AsmError('argv spec ' + s)
        nfixed = sum(1 for _, v in names if not v)
        nvar = len(self.args) - nfixed
        if nvar < 0 or (nvar > 0 and not any(v for _, v in names)):
            raise AsmError('argc mismatch')
        i = 0
        for n, v in names:
            if v:
                self.argvals[n] = self.args[i:i + nvar]
                i += nvar
            else:
                self.argvals[n] = [self.args[i]]
                i += 1
        self.argv_spec = names

    def emit_arg(self, sec, buf, parts):
        name, fmt, params = parts[0], parts[1], parts[2:]
        vals = self.argvals[name]
        if fmt == 'word':
            for v in vals:
                buf += (int(v) & ((1 << (8 * self.word)) - 1)).to_bytes(self.word, 'little')
        elif fmt == 'byte':
            for v in vals:
                buf += bytes([int(v) & 0xFF])
        elif fmt == 'asciip':
            enc = [v.encode('utf-8') if isinstance(v, str) else bytes(v) for v in vals]
            if 'array' in params:
                base = len(buf) + self.word * len(enc)
                ptrs = []
                blob = bytearray()
                for e in enc:
                    ptrs.append(base + len(blob))
                    blob += len(e).to_bytes(self.word, 'little') + e
                for p in ptrs:
                    buf += p.to_bytes(self.word, 'little')
                buf += blob
            else:
                e, = enc
                buf += len(e).to_bytes(self.word, 'little') + e
        else:
            raise AsmError('arg fmt ' + fmt)

    def sym(self, name):
        if name == '$argc':
            return len(self.args)
        if name not in self.labels:
            raise AsmError('undefined ' + name)
        return self.labels[name][1]

    def operand(self, pc, k, a):
        # the value of an operand text is the same wherever it occurs in this program (labels are resolved by now)
        cache = self.__dict__.setdefault('_opcache', {})
        c = cache.get(a)
        if c is None:
            kind, v = self._operand(pc, k, a)
            c = cache[a] = (kind, v, self.imm_label.get((pc, k)))
        elif c[2] is not None:
            self.imm_label[(pc, k)] = c[2]
        return (c[0], c[1])

    def _operand(self, pc, k, a):
        a = a.strip()
        if a.startswith('[') and a.endswith(']'):
            inner = a[1:-1]
            kind = 's'
        elif a.startswith('{') and a.endswith('}'):
            inner = a[1:-1]
            kind = 'c'
        else:
            inner = a
            kind = 'i'
        t = inner.strip()
        if IDENT.fullmatch(t) and t in self.labels:
            self.imm_label[(pc, k)] = t
        v = Expr(inner, self).eval()
        if kind == 'i':
            v &= self.wmask
        return (kind, v)

    def compile(self, pc, op, args):
        if op == 'flag':
            if args[0] not in FLAGS:
                raise AsmError('unknown flag ' + args[0])
            return (op, args[0])
        ops = [self.operand(pc, k, a) for k, a in enumerate(args)]
        if op in DEST_FIRST and ops[0][0] != 's':
            raise AsmError('destination must be a state operand: %s %s' % (op, args))
        return (op, *ops)


def assemble(lines, args=()):
    return Program(lines, args)
