"""C09 Operators and casts give the specified result at every boundary value, in every usage position.
Decided by Refine.tla (HiDSem expression semantics = Word.tla); operands are inputs on a boundary grid."""
import time
from hv import rt, fam_ops, fam_seq

PROP = 'C09'


def main(tier, seed):
    t0 = time.time()
    ws = [2, 3] if tier == 'quick' else [2, 3, 4]
    items = fam_ops.ops_family(seed, tier, ws)
    items += fam_seq.computed_casts(seed, tier)
    # operators whose operand is a LITERAL, against the same program with the literal passed in at run time: the source IR
    # is read off the typechecker's tree, so a literal mistreated by the typechecker (narrowed, folded by a wrong identity)
    # shows only against its run-time twin
    items += [it for it in fam_ops.fold_family(ws) if it.key[1] in ('compare_with_out_of_range_literal', 'compare_offset', 'unit_operand_identities', 'zero_operand_identities')]
    return rt.standard(PROP, tier, seed, items,
                       'one program per operator/cast (value, branch, while, negated, !truth_is_defeat in try/undo, '
                       'try/stop and through a defeat function) x operand types x boundary grid pairs; W=2 and one of {3,4} '
                       '(thorough: 2,3,4)', t0)
