------------------------------- MODULE Refine -------------------------------
(* Compiled code refines the source (DESIGN 2.5).  One behaviour per case: first the Sphinx machine runs   *)
(* the REAL compiler output for the case (SphinxRT, all monitors evaluated in every state), then the      *)
(* source-level machine HiDSem runs the same program on the same input; when both have finished the       *)
(* observables are compared:                                                                             *)
(*      Agree == Obs(sphinx out, sphinx status) = Obs(hid out, hid status)                                *)
(* Each behaviour reports once through PrintT (one TLC run judges the whole batch).  A behaviour cut by   *)
(* the fuel constraint, or a source run that leaves the defined envelope (status undef / toobig), is     *)
(* inconclusive - counted, never a verdict.                                                              *)
EXTENDS SphinxRT, HiDSem
CONSTANT MaxLevel
VARIABLE phase          \* "m" machine running, "h" source machine running, "done" reported
vars == <<mvars, rvars, hvars, phase>>

MDone == status # "run" \/ alarm # ""
HDone == h.st # "run"
HObs == Obs(h.out, IF h.st = "ended" THEN "ended" ELSE h.st)
MObs == Obs(out, status)
Conclusive == alarm = "" /\ h.st \in {"ended", "forever", "halted"}
Agree == MObs = HObs
Verdict == [halted |-> ~NoRealHalt, fault |-> ~NoFault, alarm |-> alarm]

Init == /\ RTInit /\ hcase = Progs[prog].inits[inp].hcase /\ h = HInitRec(hcase) /\ phase = "m"
Next == \/ phase = "m" /\ ~MDone /\ RTStep /\ UNCHANGED <<hvars, phase>>
        \/ phase = "m" /\ MDone /\ phase' = "h" /\ UNCHANGED <<mvars, rvars, hvars>>
        \/ phase = "h" /\ ~HDone /\ HStep /\ UNCHANGED <<mvars, rvars, phase>>
        \/ /\ phase = "h" /\ HDone /\ phase' = "done"
           /\ PrintT(ToString(<<"HV", "R", prog, inp, Verdict, status, pc, TLCGet("level"), h.st,
                                IF Conclusive THEN Agree ELSE TRUE, h.wrap,
                                IF Conclusive /\ ~Agree THEN <<MObs, HObs>> ELSE <<MObs>> >>))
           /\ UNCHANGED <<mvars, rvars, hvars>>
Spec == Init /\ [][Next]_vars
Fuel == TLCGet("level") <= MaxLevel
=============================================================================
