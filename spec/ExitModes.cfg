\* smallest stratum of the quick tier: every shape of <= 3 nodes over the full alphabet
\* (hv/exitmodes.py generates the configurations of both tiers: see TIERS there)
SPECIFICATION Spec
CONSTANTS
    MaxNodes = 3
    Leaves = {"p", "r", "b", "c", "d", "h", "w"}
    Ctl1 = {"i", "l", "L", "P"}
    Ctl2 = {"e", "t"}
    Blocks = TRUE
    Emit = TRUE
INVARIANT CaseInv
