\* C06: deeper paths (6 frames) deduplicated by context state (VIEW); one representative path per merged state
CONSTANTS
    MaxDepth = 6
    Emit = TRUE
INIT Init
NEXT Next
VIEW DedupView
INVARIANTS TypeOK FlagsMatchPath EmitLeaf
