"""Calling the compiler under test through its public API (working tree of common.REPO)."""
from . import common


class Rejected(Exception):
    """The compiler refused the program with a CompilerError (a located diagnostic)."""
    def __init__(self, err):
        super().__init__('%s: %s' % (type(err).__name__, err))
        self.err = err


class Crashed(Exception):
    """Something other than a CompilerError escaped (internal exception / assertion)."""
    def __init__(self, err):
        super().__init__('%s: %s' % (type(err).__name__, err))
        self.err = err


_loaded = False


def load():
    global _loaded
    if not _loaded:
        common.use_repo()
        _loaded = True
    try:
        import hidc.lexer, hidc.parser, hidc.ast, hidc.codegen, hidc.errors  # noqa
    except BaseException as e:
        raise common.Machinery('cannot import hidc from %s: %r' % (common.REPO, e))


def compile_src(src, w=2, s=500, unchecked=False, **opt):
    """-> list of assembly lines (bytes).  Raises Rejected / Crashed."""
    load()
    from hidc.lexer import SourceCode
    from hidc.parser import parse
    from hidc.ast import Environment
    from hidc.codegen import CodeGen
    from hidc.errors import CompilerError
    try:
        env = Environment.empty(**opt)
        parse(SourceCode.from_string(src)).evaluate(env)
        return list(CodeGen(env, w, s, unchecked).gen_lines())
    except CompilerError as e:
        raise Rejected(e)
    except RecursionError as e:
        raise Crashed(e)
    except Exception as e:
        raise Crashed(e)
