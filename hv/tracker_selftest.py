"""Shows that the Tracker replay (hv.tracker_replay) is bound to the real code.

    cd /verif && /venv/bin/python -m hv.tracker_selftest

(a) the unmodified scratch copy of /repo must be silent; (b) each mutant of hidc/codegen/tracker.py (and one of
DynamicValue.finalize) must be reported - except the two that are *equivalent* mutants (see EQUIVALENT below), which
must stay silent (reporting them would be a false alarm); (c) one falsified expected value must be reported.
TLC runs once; its output does not depend on the tree under test and is reused for the mutants.
"""
import json, os, shutil, subprocess, sys, time
from . import common

TRACKER = 'hidc/codegen/tracker.py'
ASM = 'hidc/codegen/asm.py'

# name, file, old, new, must_be_detected
MUTANTS = [
    ('pop_level without reversed()', TRACKER,
     'for idx, dyn_val in reversed(self.levels.pop()):', 'for idx, dyn_val in self.levels.pop():', True),
    ('update only raises the last (largest) element', TRACKER,
     '        num_less = bisect.bisect_left(self.max_vals, new_max)\n'
     '        self.max_vals[:num_less] = repeat(new_max, num_less)\n',
     '        if self.max_vals and self.max_vals[-1] < new_max:\n'
     '            self.max_vals[-1] = new_max\n', True),
    ('update raises one element too few', TRACKER,
     '        self.max_vals[:num_less] = repeat(new_max, num_less)\n',
     '        num_less = max(num_less - 1, 0)\n        self.max_vals[:num_less] = repeat(new_max, num_less)\n', True),
    ('add does not keep max_vals sorted (always appends)', TRACKER,
     'idx = bisect.bisect_right(self.max_vals, cur_val)', 'idx = len(self.max_vals)', True),
    ('DynamicValue.finalize ignores maps', ASM,
     '        for f in self.maps:\n            data = f(data)\n', '        pass\n', True),
    # ---- equivalent mutants: max_vals stays sorted and guards leave strictly LIFO, so among *equal* values it
    # does not matter which slot a guard owns (equal values stay equal under every update), and overwriting
    # elements equal to new_max with new_max changes nothing.  They must NOT be reported.
    ('EQUIVALENT: bisect_right -> bisect_left in add', TRACKER,
     'idx = bisect.bisect_right(self.max_vals, cur_val)', 'idx = bisect.bisect_left(self.max_vals, cur_val)', False),
    ('EQUIVALENT: bisect_left -> bisect_right in update', TRACKER,
     'num_less = bisect.bisect_left(self.max_vals, new_max)', 'num_less = bisect.bisect_right(self.max_vals, new_max)', False),
]


def run_check(repo, cache, extra=()):
    env = dict(os.environ, HV_REPO=repo, PYTHONDONTWRITEBYTECODE='1')
    p = subprocess.run([sys.executable, '-m', 'hv.tracker_replay', '--tier', 'quick', '--cache', cache, '--json', *extra],
                       cwd=common.VERIF, env=env, stdout=subprocess.PIPE, stderr=subprocess.STDOUT)
    out = p.stdout.decode('utf-8', 'replace')
    try:
        res = json.loads(out.strip().splitlines()[-1])
    except (ValueError, IndexError):
        raise common.Machinery('tracker_replay did not produce a result (rc=%s): %s' % (p.returncode, out[-800:]))
    return p.returncode, res


def main():
    t0 = time.time()
    d = common.scratch('hv_trkself_')
    failures = []
    try:
        repo = os.path.join(d, 'repo')
        shutil.copytree(os.path.join(common.REPO, 'hidc'), os.path.join(repo, 'hidc'),
                        ignore=shutil.ignore_patterns('__pycache__'))
        cache = os.path.join(d, 'tlc_cases.json')
        rc, res = run_check(repo, cache)
        print('unmodified copy: rc=%d cases=%d mismatching=%d (TLC states=%d, %.1fs)' % (
            rc, res['cases'], res['mismatching_cases'], res['states'], res['tlc_wall_s']))
        if rc != 0:
            failures.append('unmodified copy is not silent')
        for name, rel, old, new, must in MUTANTS:
            path = os.path.join(repo, rel)
            src = open(path).read()
            if src.count(old) != 1:
                raise common.Machinery('mutation site not found exactly once for %r' % name)
            open(path, 'w').write(src.replace(old, new))
            try:
                rc, res = run_check(repo, cache)
            finally:
                open(path, 'w').write(src)
            detected = rc == 1
            first = res['violations'][0]['what'] if res['violations'] else '-'
            print('%-8s %-62s mismatching=%-7d e.g. %s' % (
                'CAUGHT' if detected else 'silent', name, res['mismatching_cases'], first[:110]))
            if detected != must:
                failures.append('%s: expected %s' % (name, 'a VIOLATION' if must else 'silence (equivalent mutant)'))
        rc, res = run_check(repo, cache, ['--corrupt', '18125'])
        print('%-8s falsified expected value of case 18125 [%s]' % ('CAUGHT' if rc == 1 else 'silent',
                                                                    res['violations'][0]['what'][:100] if res['violations'] else '-'))
        if rc != 1 or res['mismatching_cases'] != 1:
            failures.append('corrupted expected value not reported exactly once')
    finally:
        common.rm(d)
    print('tracker self-test %s in %.0fs' % ('FAILED: ' + '; '.join(failures) if failures else 'passed', time.time() - t0))
    return 1 if failures else 0


if __name__ == '__main__':
    common.main_wrapper(main)
