"""Families for C09 (operators and casts at every boundary, in three usage positions), C17 (write family),
C13 (constant data), C14 (compile-time evaluation twins), C05 (fault injection)."""
import random, re
from . import runner


def grid_ints(w, n, rnd):
    m = (1 << (8 * w - 1)) - 1
    base = [0, 1, -1, 2, 7, 127, 128, 255, 256, -128, -129, -255, -256, m, m - 1, -m - 1, -m, 10, -10, 100]
    vals = list(dict.fromkeys(base))
    while len(vals) < n:
        vals.append(rnd.randrange(-m - 1, m + 1))
    keep = vals[:6] + [m, -m - 1]
    rest = [v for v in vals if v not in keep]
    rnd.shuffle(rest)
    out = list(dict.fromkeys(keep + rest))[:max(n, len(keep))]       # both extremes always
    return out


POS_TEMPLATE = '''%(hdr)s
empty !d(bool c) { !truth_is_defeat(c); }
empty @is_you(%(ptypes)s) {
  %(pre)s
  // value
  bool v = %(B)s; write(v); write(' ');
  writeln(%(B)s);
  // branch
  if (%(B)s) { write('T'); } else { write('F'); }
  if (not (%(B)s)) { write('t'); } else { write('f'); }
  int n = 0; while (%(B)s and n < 2) { n += 1; } write(n);
  // defeat argument, three lowerings, in try/undo and try/stop
  try { !truth_is_defeat(%(B)s); write('n'); } undo { write('u'); }
  try { !truth_is_defeat(%(B)s); write('n'); } stop { write('s'); }
  try { !truth_is_defeat(not (%(B)s)); write('N'); } undo { write('U'); }
  try { !truth_is_defeat(not (%(B)s)); write('M'); } stop { write('S'); }
  try { !d(%(B)s); write('m'); } undo { write('w'); }
  writeln();
}
'''

ARITH_TEMPLATE = '''%(hdr)s
bool ident(bool t) { return t; }
empty @is_you(%(ptypes)s) {
  %(pre)s
  write(%(E)s); write(' ');
  int r = %(E)s; write(r); write(' ');
  if ((%(E)s) is bool) { write('T'); } else { write('F'); }
  write(((%(E)s) is byte) is int); write(' ');
  writeln(%(E)s == r);
}
'''


def ops_family(seed, tier, ws):
    """C09: one program per operator (all positions inside), operands are the inputs."""
    rnd = random.Random(seed)
    items = []
    cmpops = ['<', '<=', '>', '>=', '==', '!=']
    progs = []
    for op in cmpops:
        progs.append(('cmp_int_' + op, 'int a, int b', '', '(a %s b)' % op, 'ii', POS_TEMPLATE))
        progs.append(('cmp_byte_' + op, 'byte a, byte b', '', '(a %s b)' % op, 'bb', POS_TEMPLATE))
        progs.append(('cmp_mix_' + op, 'int a, byte b', '', '(a %s b)' % op, 'ib', POS_TEMPLATE))
    for op in ['==', '!=']:
        progs.append(('eq_bool_' + op, 'int a, int b', 'bool p = a is bool; bool q = b is bool;', '(p %s q)' % op, 'ii', POS_TEMPLATE))
    for op in ['==', '!=']:
        progs.append(('eq_boolcast_' + op, 'int a, int b', '', '((a is bool) %s (b is bool))' % op, 'ii', POS_TEMPLATE))
        progs.append(('eq_boolcast_mixed_' + op, 'int a, byte b', 'string s = "ab"; int[] arr = [1, 2, 3];', '(((a is bool) %s (s is bool)) == ((b is bool) %s (arr is bool)))' % (op, op), 'ib', POS_TEMPLATE))
    for op in ['and', 'or']:
        progs.append(('log_int_' + op, 'int a, int b', '', '(a %s b)' % op, 'ii', POS_TEMPLATE))
        progs.append(('log_cmp_' + op, 'int a, int b', '', '((a > 0) %s (b < 7))' % op, 'ii', POS_TEMPLATE))
        progs.append(('log_byte_' + op, 'byte a, int b', '', '(a %s (b == 1))' % op, 'bi', POS_TEMPLATE))
    progs.append(('not_int', 'int a, int b', '', '(not a)', 'ii', POS_TEMPLATE))
    progs.append(('isbool_int', 'int a, int b', '', '(a is bool)', 'ii', POS_TEMPLATE))
    progs.append(('isbool_byte', 'byte a, int b', '', '(a is bool)', 'bi', POS_TEMPLATE))
    progs.append(('isbool_sum', 'int a, int b', '', '((a + b) is bool)', 'ii', POS_TEMPLATE))
    progs.append(('isbool_value', 'int a, int b', 'bool p = a is bool; bool q = (a + b) is bool; bool[] arr = [a is bool, b is bool];',
                  '(((p is int) + (q is int) * 2 + ((not p) is int) * 4 + ((p == (b is bool)) is int) * 8 + (arr[0] is int) * 16 + ((p is byte) is int) * 32) + (ident(a is bool) is int) * 64)',
                  'ii', ARITH_TEMPLATE))
    for op in ['+', '-', '*', '/', '%']:
        progs.append(('ar_int_' + op, 'int a, int b', '', '(a %s b)' % op, 'ii', ARITH_TEMPLATE))
        progs.append(('ar_mix_' + op, 'byte a, int b', '', '(a %s b)' % op, 'bi', ARITH_TEMPLATE))
    progs.append(('neg', 'int a, int b', '', '(-a)', 'ii', ARITH_TEMPLATE))
    progs.append(('pos', 'int a, int b', '', '(+a)', 'ii', ARITH_TEMPLATE))
    progs.append(('isbyte', 'int a, int b', '', '((a is byte) is int)', 'ii', ARITH_TEMPLATE))
    progs.append(('isint_bool', 'int a, int b', 'bool p = a > b;', '(p is int)', 'ii', ARITH_TEMPLATE))
    progs.append(('isbyte_bool', 'int a, int b', 'bool p = a > b;', '((p is byte) is int)', 'ii', ARITH_TEMPLATE))
    progs.append(('byte_widen', 'byte a, byte b', '', '(a - b)', 'bb', ARITH_TEMPLATE))
    # a literal on the left / on the right of every comparison (the compiler may mirror or specialise these)
    for op in cmpops:
        for nm, e, pt, kd in (('litleft_' + op, '(7 %s a)' % op, 'int a, int b', 'ii'), ('litright_' + op, '(a %s 7)' % op, 'int a, int b', 'ii'),
                              ('charleft_' + op, "('c' %s a)" % op, 'byte a, byte b', 'bb'), ('negleft_' + op, '((0 - 1) %s a)' % op, 'int a, int b', 'ii'),
                              ('zeroleft_' + op, '(0 %s a)' % op, 'int a, int b', 'ii'), ('maxright_' + op, '(a %s 32767)' % op, 'int a, int b', 'ii')):
            progs.append(('cmp_' + nm, pt, '', e, kd, POS_TEMPLATE))
    # a byte against literals outside 0..255 whose low byte may equal it
    for nm, e in (('eq511', '(a == 511)'), ('ne_m1', '(a != (0 - 1))'), ('eq256', '(a == 256)'), ('eq256_left', '(256 == a)'), ('eq255', '(a == 255)'), ('ne_m256', '(a != (0 - 256))'),
                  ('eq_sum', '(a == b + 256)'), ('lt_m1', '(a < (0 - 1))')):
        progs.append(('cmp_byte_' + nm, 'byte a, byte b', '', e, 'bb', POS_TEMPLATE))
    # comparisons whose operand is itself arithmetic that may wrap, or arithmetic over bytes that leaves the byte range
    for op in cmpops:
        progs.append(('cmp_diff0_' + op, 'int a, int b', '', '((a - b) %s 0)' % op, 'ii', POS_TEMPLATE))
    for nm, e in (('bytesum_lt256', '((a + b) < 256)'), ('byteprod_gt255', '((a * b) > 255)'), ('byteneg_lt0', '((-a) < 0)'), ('bytediff_ge0', '((a - b) >= 0)'),
                  ('bytesum_eq', '((a + b) == 300)'), ('byte_vs_neg', '(a > (0 - 1))')):
        progs.append(('cmp_' + nm, 'byte a, byte b', '', e, 'bb', POS_TEMPLATE))
    for nm, e in (('muldiv_same', '((a * 100) / 100)'), ('muldiv_7', '((a * 7) / 7)'), ('divmul', '((a / 3) * 3)'), ('addsub', '((a + b) - b)'), ('mulmod', '((a * 256) % 256)')):
        progs.append(('ar_' + nm, 'int a, int b', '', e, 'ii', ARITH_TEMPLATE))
    # the same operators with operands that are not parameters: mutable globals, array elements, call results, lengths
    hdrs = {}
    for sk, hdr, pre, A, B in (('glob', 'int ga = 0; int gb = 0;', 'ga = a; gb = b;', 'ga', 'gb'),
                               ('elem', '', 'int[] ar = [a, b];', 'ar[0]', 'ar[1]'),
                               ('call', 'int id(int v) { return v; }', '', 'id(a)', 'id(b)'),
                               ('len', 'string[] GS = ["ab", "hello"]; string ps(int i) { if (i == 0) { return "zero"; } return "three"; }', 'int k = 1;',
                                '(a + 1)', 'GS[k].length')):
        for op in ['+', '-', '*', '/', '%']:
            progs.append(('src_%s_ar_%s' % (sk, op), 'int a, int b', pre, '(%s %s %s)' % (A, op, B), 'ii', ARITH_TEMPLATE))
        for nm, e in (('neg', '(-%s)' % A), ('pos', '(+%s)' % A), ('pos_rhs', '(7 - +%s)' % B), ('isbyte', '((%s is byte) is int)' % A),
                      ('lenrhs', '(%s * 2 - ps(b %% 2).length)' % A if sk == 'len' else '(%s - -%s)' % (A, B))):
            progs.append(('src_%s_%s' % (sk, nm), 'int a, int b', pre, e, 'ii', ARITH_TEMPLATE))
        for nm, e in (('lt', '(%s < %s)' % (A, B)), ('eq', '(%s == %s)' % (A, B)), ('not', '(not %s)' % A), ('isbool', '(%s is bool)' % B),
                      ('and', '(%s and %s)' % (A, B)), ('pos_cmp', '(+%s < 0)' % A)):
            progs.append(('src_%s_%s' % (sk, nm), 'int a, int b', pre, e, 'ii', POS_TEMPLATE))
        for q in progs:
            if q[0].startswith('src_%s_' % sk):
                hdrs[q[0]] = hdr
    for w in ws:
        n = {'quick': 7, 'thorough': 16}[tier] if w == 2 else {'quick': 4, 'thorough': 9}[tier]
        ints = grid_ints(w, n, rnd)
        bytes_ = [0, 255, 1, 128, 127, 2, 10, 200, 48, 254][:max(5, n // 2)]
        for name, ptypes, pre, expr, kinds, tmpl in progs:
            key = 'B' if tmpl is POS_TEMPLATE else 'E'
            src = tmpl % {'ptypes': ptypes, 'pre': pre, key: expr, 'hdr': hdrs.get(name, '')}
            da = ints if kinds[0] == 'i' else bytes_
            db = ints if kinds[1] == 'i' else bytes_
            pairs = [(x, y) for x in da for y in db]
            cap = 8 if name.startswith('src_') or w != 2 else 16
            if tier == 'quick' and len(pairs) > cap:
                head = pairs[:cap // 4]
                rest = pairs[cap // 4:]
                rnd.shuffle(rest)
                pairs = head + rest[:cap - cap // 4]
            if kinds == 'ii':
                # the pairs whose sum / difference / product leaves the word, in every tier
                m = (1 << (8 * w - 1)) - 1
                forced = ((m, -1), (-m - 1, 1), (m, -m - 1), (-m - 1, m), (-m - 1, -1), (m, m), (-m - 1, -m - 1), (1, -m - 1), (m // 2 + 1, 2))
                for pr in (forced[:2] if name.startswith('src_') and tier == 'quick' else forced[:4] if tier == 'quick' and w != 2 else forced):
                    if pr not in pairs:
                        pairs.append(pr)
            for x, y in pairs:
                items.append(runner.Item(('ops', name, x, y, w), src, [str(x), str(y)], w=w, s=120,
                                         meta={'family': 'op:' + name, 'classifier': {'op': name}}))
    return items


WRITE_INT = '''
empty @is_you(const int[] v) {
  int[] g = [7, 8];
  byte[] h = ['x', 'y'];
  int k = 5;
  for (int i = 0; i < v.length; i += 1) { write(v[i]); write(' '); }
  writeln(k + g[0] + g[1]); write(h);
}
'''


def write_family(seed, tier, ws):
    rnd = random.Random(seed)
    items = []
    for w in ws:
        m = (1 << (8 * w - 1)) - 1
        if w == 2:
            if tier == 'thorough':
                vals = list(range(-32768, 32768))
            else:
                vals = list(range(-1100, 1101)) + [10 ** k + d for k in range(1, 5) for d in (-1, 0, 1)] + \
                       [-(10 ** k) + d for k in range(1, 5) for d in (-1, 0, 1)] + [m, -m - 1, m - 1, -m] + \
                       [rnd.randrange(-m - 1, m + 1) for _ in range(600)]
        else:
            vals = [0, 1, -1, 9, 10, -10, m, -m - 1, m - 1, -m] + [10 ** k + d for k in range(1, int(2.4 * w)) for d in (-1, 0)] + \
                   [rnd.randrange(-m - 1, m + 1) for _ in range(40 if tier == 'quick' else 400)]
            vals = [v for v in vals if -m - 1 <= v <= m]
        per = 10
        for i in range(0, len(vals), per):
            chunk = vals[i:i + per]
            items.append(runner.Item(('wint', w, i), WRITE_INT, [str(v) for v in chunk], w=w, s=60,
                                     meta={'family': 'write_int', 'classifier': {'fn': 'write_int'}}))
    # constants (literals, const variables, folded expressions) at the decimal and word boundaries: the compiler may
    # render them itself, and must print what the run-time routine prints
    for w in ws:
        m = (1 << (8 * w - 1)) - 1
        cs = [0, 1, -1, 9, 10, -9, -10, 99, 100, -100, m, m - 1, -m, 255, 256, -128, -129] + [10 ** k + d for k in range(2, int(2.4 * w)) for d in (-1, 0) if 10 ** k <= m]
        for i in range(0, len(cs), 8):
            src = 'empty @is_you(int r) { %s write(r); }' % ' '.join('writeln(%d);' % v for v in cs[i:i + 8])
            items.append(runner.Item(('wconst', w, i), src, ['7'], w=w, s=60, meta={'family': 'write_int_constants', 'classifier': {'fn': 'write_int'}}))
        stmts = ''
        src = 'const int K = %d; const int L = -%d - 1; const int Z = 0;\nempty @is_you(int r) { %s writeln(K); write(K); write(\' \'); writeln(L); write(L + 1); write(\' \'); write(K - 1); write(\' \'); write(-K); write(\' \'); writeln(Z); write(%d - 1 + 1); write(\' \'); writeln(r); }' % (m, m, stmts, m)
        items.append(runner.Item(('wconst', w), src, [str(m)], w=w, s=60, meta={'family': 'write_int_constants', 'classifier': {'fn': 'write_int'}}))
    # write(int) with the stack as tight as it gets: the digit buffer must not touch live data
    tight = 'empty @is_you(int a) { byte[] h = [\'A\', \'B\', \'C\', \'D\']; int q = 3; write(a); write(h); write(q); }'
    for a in [0, 7, -7, 12345, -12345, 32767, -32768]:
        for s in range(5, 13):
            items.append(runner.Item(('wint_tight', a, s), tight, [str(a)], w=2, s=s,
                                     meta={'family': 'write_int_tight', 'classifier': {'fn': 'write_int'}, 'allow_exhausted': 'prefix'}))
    # bool / byte / strings / byte arrays of every length
    items.append(runner.Item(('wbool',), 'empty @is_you(int a) { write(a > 0); write(\' \'); writeln(a < 0); write(a == 0); bool[] b = [true, false]; writeln(b[0]); writeln(b[1]); }',
                             ['1'], s=60, meta={'family': 'write_bool'}))
    items.append(runner.Item(('wbool', 2), 'empty noise(int a, int b) { write(a + b); }\nempty @is_you(int a) { write(a); write(a < 0); write(\' \'); write(12345); writeln(a > 99); noise(a, 30000); write(a == 1234); write(false); write(true); writeln(a != a); }',
                             ['-77'], s=60, meta={'family': 'write_bool'}))
    for w in ws:
        if w != 2:
            items.append(runner.Item(('wbool', 'w', w), 'empty @is_you(int a) { write(a); write(a < 0); write(a > 0); bool t = a == 5; writeln(t); writeln(not t); write("ab" is byte[]); write("xyz"); }',
                                     ['5'], w=w, s=60, meta={'family': 'write_bool'}))
    items.append(runner.Item(('wbool', 'ops'), 'empty @is_you(int a, int b) { bool t = a > 0; write(a > 0 and b > 0); write(\' \'); writeln(a > 0 or b > 0); write(not (a > 0)); write((a > 0) == (b > 0)); writeln(t and not (b > 0)); write(t or b == 2); writeln(a is bool); write((a > 0 and b > 0) or (a < 0 and b < 0)); writeln(not (t and b > 0)); write(a != b); }',
                             ['1', '0'], s=60, meta={'family': 'write_bool'}))
    items.append(runner.Item(('wbool', 'ops2'), items[-1].src, ['3', '2'], s=60, meta={'family': 'write_bool'}))
    items.append(runner.Item(('wbool', 'ops3'), items[-1].src, ['-1', '-5'], s=60, meta={'family': 'write_bool'}))
    items.append(runner.Item(('wbool', 0), 'empty @is_you(int a) { write(a > 0); write(\' \'); writeln(a < 0); writeln(a == 0); }',
                             ['0'], s=60, meta={'family': 'write_bool'}))
    byte_prog = 'empty @is_you(const byte[] v) { for (int i = 0; i < v.length; i += 1) { write(v[i]); } writeln(); for (int j = 0; j < v.length; j += 1) { writeln(v[j]); } }'
    for lo in range(0, 256, 32):
        items.append(runner.Item(('wbyte', lo), byte_prog, [str(b) for b in range(lo, lo + 32)], s=60, meta={'family': 'write_byte'}))
    lens = list(range(0, 65)) if tier == 'thorough' else [0, 1, 2, 3, 7, 8, 9, 15, 16, 17, 31, 32, 33, 63, 64]
    strprog = '''empty p(string s) { write(s); write('|'); writeln(s); }
empty @is_you(string s) { int k = 9; byte[] keep = ['k', 'p']; write(s); write('|'); writeln(s); p(s);
  write(s is byte[]); write('|'); const byte[] c = s is byte[]; writeln(c); write(c.length); write(keep); write(k); }'''
    for n in lens:
        text = ''.join(chr(33 + (i * 7) % 90) for i in range(n))
        items.append(runner.Item(('wstr', n), strprog, [text], s=80, meta={'family': 'write_string'}))
    for k, (col, e) in enumerate([(70, '\\n'), (71, '\\"'), (70, '\\\\'), (69, '\\x01'), (71, '\\t'), (142, '\\n')]):
        items.append(runner.Item(('wstr', 'long_lit', k), 'empty @is_you() { int keep = 7; write("%s%stail"); write(keep); }' % ('a' * col, e), [], s=80,
                                 meta={'family': 'write_long_string'}))
    items.append(runner.Item(('wstr', 'utf8'), strprog, ['hé 世界 \U0001F30E'], s=80, meta={'family': 'write_string'}))
    # short literals (1 to 6 bytes) with multi-byte characters, written directly
    items.append(runner.Item(('wstr', 'short_utf8'), 'empty @is_you() { write("\\u{b0}C"); write("|"); write("\\u{e9}"); writeln("\\u{4e16}"); write("\\u{1F30E}"); write("a\\u{e9}"); writeln("\\u{e9}\\u{e9}"); write("\\xc3\\xa9"); write("\\xff"); writeln("z"); write("ab"); write("\\n"); write("\\u{7f}\\u{80}"); }',
                             [], s=80, meta={'family': 'write_string'}))
    arrprog = '''empty show(const byte[] c, byte[] m) { write(c); m[0] = 'Z'; writeln(c); }
empty @is_you(byte[] a) { int k = 4; write(a); write('|'); writeln(a); show(a, a); byte[] al = a; al[0] = 'Y'; write(a); write(k); }'''
    for n in [x for x in lens if x > 0]:
        items.append(runner.Item(('warr', n), arrprog, [str(65 + (i % 26)) for i in range(n)], s=80, meta={'family': 'write_byte_array'}))
    zero = '''empty show(byte[] m, const byte[] c) { write('<'); write(m); write(c); writeln(m); write('>'); }
empty @is_you(int n, byte[] a) { byte buf[n]; byte[] e = []; const byte[] ce = []; write('['); write(buf); write(e); write(ce); write(a); writeln(buf); show(buf, e); show(a, ce);
  try { write(buf); write(a); !truth_is_defeat(n == 0); write('n'); } undo { write('u'); } write(']'); }'''
    items.append(runner.Item(('wzero', 0), zero, ['0'], s=80, meta={'family': 'write_empty_arrays'}))
    items.append(runner.Item(('wzero', 1), zero, ['0', '65'], s=80, meta={'family': 'write_empty_arrays'}))
    items.append(runner.Item(('wzero', 2), 'empty @is_you(string s, const byte[] c) { write(s); write(c); writeln(s); write(""); write(s is byte[]); write(\'.\'); }', [''], s=80, meta={'family': 'write_empty_arrays'}))
    items.append(runner.Item(('wlit',), 'empty @is_you() { write("lit"); writeln("eral"); write([72, 105]); writeln(); const byte[] g = [\'o\', \'k\']; writeln(g); writeln(""); write(""); writeln(); }',
                             [], s=60, meta={'family': 'write_literals'}))
    return items


def esc(b):
    return '\\x%02x' % b


def const_family(seed, tier):
    """C13: every byte value in string / char literals, pairs over the special bytes, constant arrays."""
    rnd = random.Random(seed)
    items = []
    dump = lambda name: 'write(%s); write(%s.length); for (int i = 0; i < %s.length; i += 1) { write(%s[i] is int); write(\',\'); } writeln();' % ((name,) * 4)
    # all 256 single bytes, 16 per program, as string literal bytes and as char literals
    for lo in range(0, 256, 16):
        bs = list(range(lo, lo + 16))
        lit = ''.join(esc(b) for b in bs)
        chars = ' '.join("write('%s');" % esc(b) for b in bs)
        src = 'empty @is_you() { string s = "%s"; %s %s writeln(); byte[] q = [%s]; write(q); }' % (
            lit, dump('s'), chars, ', '.join("'%s'" % esc(b) for b in bs))
        items.append(runner.Item(('c13', 'bytes', lo), src, [], s=80, meta={'family': 'const_bytes'}))
        # the same bytes as global byte arrays written with character literals (data directives of the const / state section)
        cl = ', '.join("'%s'" % esc(b) for b in bs)
        src = 'const byte[] GC = [%s]; byte[] GM = [%s]; const byte[] G1 = [\'%s\']; const byte[] G2 = [\'"\', \'%s\', \'"\']; empty @is_you() { write(GC); write(GM); %s %s write(G1); write(G2); }' % (
            cl, cl, esc(bs[0]), esc(bs[5]), dump('GC'), dump('GM'))
        items.append(runner.Item(('c13', 'global_chars', lo), src, [], s=80, meta={'family': 'const_global_char_arrays'}))
    # raw (unescaped in the source) printable characters
    raw = '\t' + ''.join(chr(c) for c in range(32, 127) if chr(c) not in '"\\') + '\t\t.'
    for i in range(0, len(raw), 33):
        items.append(runner.Item(('c13', 'raw', i), 'empty @is_you() { string s = "%s"; %s }' % (raw[i:i + 33], dump('s')), [], s=80,
                                 meta={'family': 'const_raw'}))
    special = [0x5c, 0x22, 0x27, 0x0a, 0x0d, 0x00, 0x20, 0x7e, 0x7f, 0x80, 0xff, 0x41]
    pairs = [(a, b) for a in special for b in special]
    per = 12
    for i in range(0, len(pairs), per):
        stmts = []
        for j, (a, b) in enumerate(pairs[i:i + per]):
            stmts.append('string s%d = "%s%s"; %s' % (j, esc(a), esc(b), dump('s%d' % j)))
        items.append(runner.Item(('c13', 'pairs', i), 'empty @is_you() { %s }' % ' '.join(stmts), [], s=120,
                                 meta={'family': 'const_pairs'}))
    # the simple escapes and \u{...}
    items.append(runner.Item(('c13', 'escapes'), 'empty @is_you() { string s = "\\a\\b\\f\\n\\r\\t\\0\\\'\\"\\\\"; %s string u = "\\u{e9}\\u{4e16}\\u{1F30E}\\u{7f}\\u{80}\\u{7ff}\\u{800}"; %s write(\'\\\\\'); write(\'\\\'\'); write(\'"\'); write("\'"); }' % (dump('s'), dump('u')),
                             [], s=80, meta={'family': 'const_escapes'}))
    # long strings with an escaped byte at every column around multiples of 72 of the escaped text
    for esc_txt, width in (('\\n', 2), ('\\"', 2), ('\\\\', 2), ('\\x01', 4)):
        stmts = []
        for k, col in enumerate(list(range(66, 76)) + list(range(140, 147))):
            body = 'a' * col + esc_txt + 'tail'
            stmts.append('string q%d = "%s"; write(q%d.length); write(q%d); write(\'|\');' % (k, body, k, k))
        for i in range(0, len(stmts), 5):       # (a few strings per program: the run must stay short enough for TLC)
            items.append(runner.Item(('c13', 'long', esc_txt, i), 'empty @is_you() { %s }' % ' '.join(stmts[i:i + 5]), [], s=120,
                                     meta={'family': 'const_long_strings'}))
    for w in (3, 4):
        items.append(runner.Item(('c13', 'litcast', w), 'empty @is_you() { write("abc" is byte[]); write(("wxyz" is byte[])[2]); write(("wxyz" is byte[]).length); const byte[] l = "q\\n" is byte[]; write(l.length); write(l); }',
                                 [], w=w, s=80, meta={'family': 'const_string_casts'}))
    for k in range(4 if tier == 'quick' else 24):
        n = rnd.randrange(1, 24)
        bs = [rnd.randrange(256) for _ in range(n)]
        items.append(runner.Item(('c13', 'rand', k), 'string g = "%s"; empty @is_you() { %s string l = "%s"; %s }' % (
            ''.join(esc(b) for b in bs), dump('g'), ''.join(esc(b) for b in reversed(bs)), dump('l')), [], s=80,
            meta={'family': 'const_random'}))
    # equal value lists at different element sizes in ONE program (tables must not be shared across element types)
    same = '''const int[] AI = [2, 3, 5]; const byte[] AB = [2, 3, 5]; const int[] BI = [1]; const bool[] BO = [true]; const byte[] BB = [1];
const int[] CI = [1, 0, 1, 1, 0, 0, 0, 0, 1]; const bool[] CO = [true, false, true, true, false, false, false, false, true]; const byte[] CB = [1, 0, 1, 1, 0, 0, 0, 0, 1];
int[] MI = [2, 3, 5]; byte[] MB = [2, 3, 5];
empty @is_you() {
  const int[] li = [2, 3, 5]; const byte[] lb = [2, 3, 5]; const bool[] lo = [true]; const int[] lj = [1];
  for (int i = 0; i < 3; i += 1) { write(AI[i]); write(AB[i] is int); write(MI[i]); write(MB[i] is int); write(li[i]); write(lb[i] is int); write(','); }
  write(BI[0]); write(BO[0]); write(BB[0] is int); write(lo[0]); write(lj[0]); write(',');
  for (int j = 0; j < 9; j += 1) { write(CI[j]); write(CO[j] is int); write(CB[j] is int); }
  MB[1] = 9; MI[1] = 300; write(MB[1] is int); write(MI[1]); write(AI[1]); write(AB[1] is int);
  write("ab"); write(['a', 'b']); const byte[] s2 = "ab" is byte[]; write(s2); string t = "ab"; write(t.length); write(97); write([97, 98][1]);
}'''
    items.append(runner.Item(('c13', 'same_values'), same, [], s=200, meta={'family': 'const_same_values'}))
    # tables whose values are all zero (or all equal), of every element type, each followed by other data
    zeros = '''const int[] ZI = [0, 0, 0, 0, 0]; const int[] AFTER1 = [11, 12]; int[] MZ = [0, 0, 0]; int[] AFTER2 = [21, 22]; const byte[] ZB = [0, 0, 0]; const byte[] AFTER3 = [31, 32];
const bool[] ZO = [false, false, false, false, false, false, false, false, false]; const bool[] AFTER4 = [true, true]; int hits[4]; int[] AFTER5 = [51]; const string[] ZS = ["", ""]; const int[] ONES = [1, 1, 1, 1];
empty @is_you() {
  for (int i = 0; i < 5; i += 1) { write(ZI[i]); } write(AFTER1[0]); write(','); MZ[2] += 7; MZ[1] = 3; for (int j = 0; j < 3; j += 1) { write(MZ[j]); } write(AFTER2[0]); write(AFTER2[1]); write(',');
  for (int k = 0; k < 3; k += 1) { write(ZB[k] is int); } write(AFTER3[1] is int); for (int n = 0; n < 9; n += 1) { write(ZO[n] is int); } write(AFTER4[1]); write(',');
  hits[3] += 4; hits[1] += 2; for (int q = 0; q < 4; q += 1) { write(hits[q]); } write(AFTER5[0]); write(ZS[1].length); write(ZS.length); for (int r = 0; r < 4; r += 1) { write(ONES[r]); }
  const int[] lz = [0, 0, 0]; int[] lm = [0, 0]; lm[1] = 5; write(lz[2]); write(lm[0]); write(lm[1]); write(ZI.length); write(MZ.length);
}'''
    for w in (2, 3, 4):
        items.append(runner.Item(('c13', 'zero_tables', w), zeros, [], w=w, s=200, meta={'family': 'const_zero_tables'}))
    # constant arrays of every length, every element type, global/local, const/mutable
    lens = list(range(0, 41)) if tier == 'thorough' else [0, 1, 2, 7, 8, 9, 15, 16, 17, 31, 32, 33, 40]
    for n in lens:
        ints = [rnd.choice([0, 1, -1, 255, 256, 32767, -32768, rnd.randrange(-32768, 32768)]) for _ in range(n)]
        byts = [rnd.randrange(256) for _ in range(n)]
        bools = [rnd.random() < 0.5 for _ in range(n)]
        strs = ['"%s"' % rnd.choice(['', 'a', 'bc', 'x\\n']) for _ in range(n)]
        il = ', '.join(str(v) if v >= 0 else '(%d)' % v for v in ints)
        bl = ', '.join(str(v) for v in byts)
        ol = ', '.join('true' if v else 'false' for v in bools)
        sl = ', '.join(strs)
        di = lambda nm: 'write(%s.length); write(\':\'); for (int i = 0; i < %s.length; i += 1) { write(%s[i]); write(\',\'); } writeln();' % (nm, nm, nm)
        if n == 0:
            src = 'empty @is_you() { int[] a = []; const byte[] b = []; bool[] c = []; write(a.length); write(b.length); write(c.length); write(b); }'
            items.append(runner.Item(('c13', 'arr', 0), src, [], s=80, meta={'family': 'const_arrays'}))
            continue
        progs = {
            'int': 'const int[] GI = [%s]; int[] GM = [%s];\nempty @is_you() { %s %s GM[0] = 5; %s const int[] li = [%s]; %s }' % (
                il, il, di('GI'), di('GM'), di('GM'), il, di('li')),
            'byte': 'const byte[] GB = [%s]; byte[] GN = [%s];\nempty @is_you() { %s write(GB); writeln(); GN[0] = \'!\'; write(GN); byte[] lb = [%s]; write(lb); writeln(); write(lb.length); }' % (
                bl, bl, di('GB'), bl),
            'bool': 'const bool[] GO = [%s]; bool[] GP = [%s];\nempty @is_you() { %s GP[0] = not GP[0]; %s const bool[] lo = [%s]; %s bool[] lm = [%s]; lm[%d] = not lm[%d]; %s }' % (
                ol, ol, di('GO'), di('GP'), ol, di('lo'), ol, n - 1, n - 1, di('lm')),
            'string': 'const string[] GS = [%s];\nempty @is_you() { %s string[] ls = [%s]; ls[0] = "zz"; %s }' % (sl, di('GS'), sl, di('ls')),
        }
        for el, src in progs.items():
            items.append(runner.Item(('c13', 'arr', el, n), src, [], s=400, meta={'family': 'const_arrays_' + el}))
    return items


# ------------------------------------------------------------------------------------------------ C14
def const_exprs(rnd, depth, lits):
    """random constant int/bool expression text + list of literal values used (for the twin)"""
    def ie(d):
        if d == 0 or rnd.random() < 0.25:
            v = rnd.choice(lits)
            return ('L', v)
        c = rnd.random()
        if c < 0.6:
            return ('B', rnd.choice(['+', '-', '*', '/', '%']), ie(d - 1), ie(d - 1))
        if c < 0.7:
            return ('U', '-', ie(d - 1))
        if c < 0.8:
            return ('C', 'byte', ie(d - 1))
        if c < 0.9:
            return ('I', be(d - 1))
        return ('B', rnd.choice(['+', '-', '*']), ie(d - 1), ie(d - 1))

    def be(d):
        if d == 0 or rnd.random() < 0.2:
            return ('K', ie(0), rnd.choice(['<', '==', '>=']), ie(0))
        c = rnd.random()
        if c < 0.5:
            return ('K', ie(d - 1), rnd.choice(['<', '<=', '>', '>=', '==', '!=']), ie(d - 1))
        if c < 0.7:
            return ('A', rnd.choice(['and', 'or']), be(d - 1), be(d - 1))
        if c < 0.8:
            return ('N', be(d - 1))
        return ('T', ie(d - 1))
    return ie, be


def render_const(t, names):
    """-> (constant text, variable-form text); names: dict literal value -> variable name (filled in)"""
    k = t[0]
    if k == 'L':
        v = t[1]
        nm = names.setdefault(v, 'v%d' % len(names))
        return (str(v) if v >= 0 else '(%d)' % v), nm
    if k == 'B':
        a, b = render_const(t[2], names), render_const(t[3], names)
        return '(%s %s %s)' % (a[0], t[1], b[0]), '(%s %s %s)' % (a[1], t[1], b[1])
    if k == 'U':
        a = render_const(t[2], names)
        return '(-%s)' % a[0], '(-%s)' % a[1]
    if k == 'C':
        a = render_const(t[2], names)
        return '((%s is byte) is int)' % a[0], '((%s is byte) is int)' % a[1]
    if k == 'I':
        a = render_const(t[1], names)
        return '(%s is int)' % a[0], '(%s is int)' % a[1]
    if k == 'K':
        a, b = render_const(t[1], names), render_const(t[3], names)
        return '(%s %s %s)' % (a[0], t[2], b[0]), '(%s %s %s)' % (a[1], t[2], b[1])
    if k == 'A':
        a, b = render_const(t[2], names), render_const(t[3], names)
        return '(%s %s %s)' % (a[0], t[1], b[0]), '(%s %s %s)' % (a[1], t[1], b[1])
    if k == 'N':
        a = render_const(t[1], names)
        return '(not %s)' % a[0], '(not %s)' % a[1]
    if k == 'T':
        a = render_const(t[1], names)
        return '(%s is bool)' % a[0], '(%s is bool)' % a[1]
    raise ValueError(k)


def twin_family(seed, tier, ws):
    """C14: constant form (compiled) against the run-time form (source semantics)."""
    rnd = random.Random(seed)
    items = []
    for w in ws:
        m = (1 << (8 * w - 1)) - 1
        lits = [0, 1, 2, 3, 7, 10, 127, 128, 255, 256, m, m - 1, -1, -2, -128, -256, -m, 100, 1000 % m]
        ie, be = const_exprs(rnd, 3, lits)
        n = {'quick': 150, 'thorough': 1500}[tier] if w == 2 else {'quick': 40, 'thorough': 400}[tier]
        for i in range(n):
            depth = rnd.choice([1, 2, 2, 3])
            t = ie(depth) if rnd.random() < 0.7 else be(depth)
            names = {}
            ctext, vtext = render_const(t, names)
            form = rnd.choice(['write', 'const', 'global', 'cond'])
            params = ', '.join('int %s' % nm for nm in names.values())
            args = [str(v) for v in names.keys()]
            if form == 'write':
                a = 'empty @is_you() { writeln(%s); }' % ctext
                b = 'empty @is_you(%s) { writeln(%s); }' % (params, vtext)
            elif form == 'const':
                ty = 'int' if t[0] in 'LBUCI' else 'bool'
                a = 'empty @is_you() { const %s K = %s; writeln(K); %s L = K; writeln(L); }' % (ty, ctext, ty)
                b = 'empty @is_you(%s) { %s K = %s; writeln(K); %s L = K; writeln(L); }' % (params, ty, vtext, ty)
            elif form == 'global':
                ty = 'int' if t[0] in 'LBUCI' else 'bool'
                a = '%s G = %s; empty @is_you() { writeln(G); G = G; writeln(G); }' % (ty, ctext)
                b = 'empty @is_you(%s) { %s G = %s; writeln(G); G = G; writeln(G); }' % (params, ty, vtext)
            else:
                a = 'empty @is_you() { if (%s) { write(\'T\'); } else { write(\'F\'); } }' % (ctext if t[0] not in 'LBUCI' else '(%s is bool)' % ctext)
                b = 'empty @is_you(%s) { if (%s) { write(\'T\'); } else { write(\'F\'); } }' % (params, vtext if t[0] not in 'LBUCI' else '(%s is bool)' % vtext)
            items.append(runner.Item(('twin', w, i), a, [], w=w, s=60, sem_src=b, sem_args=args,
                                     meta={'family': 'twin:' + form, 'twin': (a, b, args), 'classifier': {'form': form, 'all_constant': True}}))
    # the two shapes of the recorded finding F6, in every run (so that each listed finding is shown on every run)
    if 2 in ws:
        a = 'empty @is_you() { writeln((32767 + 1) / 2); }'
        b = 'empty @is_you(int v0, int v1, int v2) { writeln((v0 + v1) / v2); }'
        args = ['32767', '1', '2']
        items.append(runner.Item(('twin', 2, 'f6'), a, [], w=2, s=60, sem_src=b, sem_args=args,
                                 meta={'family': 'twin:write', 'twin': (a, b, args), 'classifier': {'form': 'write', 'all_constant': True}}))
        a = "empty @is_you() { if (((((1000 % 1) / (-2)) / ((32767 - 7) / (32766 + 127))) is bool)) { write('T'); } else { write('F'); } }"
        b = "empty @is_you(int v0, int v1, int v2, int v3, int v4, int v5, int v6) { if (((((v0 % v1) / v2) / ((v3 - v4) / (v5 + v6))) is bool)) { write('T'); } else { write('F'); } }"
        args = ['1000', '1', '-2', '32767', '7', '32766', '127']
        items.append(runner.Item(('twin', 2, 'f6r'), a, [], w=2, s=60, sem_src=b, sem_args=args,
                                 meta={'family': 'twin:cond', 'twin': (a, b, args), 'classifier': {'form': 'cond', 'all_constant': True}}))
    return items


FOLD_PROGRAMS = [
    # (constant form, run-time twin, twin arguments): effects of the non-constant operand must survive folding
    ('logic_effects', '''int g = 0; int side(int v) { g += 1; write('s'); return v; }
const bool F = false; const bool T = true;
empty @is_you(int a) { int[] arr = [1, 2];
  write((side(a) > 0) and false); write((side(a) > 0) or true); write(false and (side(a) > 0)); write(true or (side(a) > 0)); write(g);
  write((side(a) > 0) and F); write((side(a) > 0) or T); write((arr[a] > 0) and false); write(g);
  if ((side(a) == 1) and F) { write('x'); } else { write('y'); } while ((side(a) == 7) or (T and F)) { write('z'); } write(g); }''',
     '''int g = 0; int side(int v) { g += 1; write('s'); return v; }
empty @is_you(int a, int fi, int ti) { bool F = fi is bool; bool T = ti is bool; int[] arr = [1, 2];
  write((side(a) > 0) and F); write((side(a) > 0) or T); write(F and (side(a) > 0)); write(T or (side(a) > 0)); write(g);
  write((side(a) > 0) and F); write((side(a) > 0) or T); write((arr[a] > 0) and F); write(g);
  if ((side(a) == 1) and F) { write('x'); } else { write('y'); } while ((side(a) == 7) or (T and F)) { write('z'); } write(g); }''',
     [['0', '0', '1'], ['1', '0', '1'], ['5', '0', '1']]),
    ('spec_literal_left', '''int g = 0; int side(int v) { g += 1; write('s'); return v; }
empty @is_you(int b) { int l1 = 5 ?? side(b); write(l1); write(g); write(3 ?? side(b + 1)); write(g); byte q = 'a' ?? (side(b) is byte); write(q); bool t = true ?? (side(b) > 0); write(t); write(g); }''',
     '''int g = 0; int side(int v) { g += 1; write('s'); return v; }
empty @is_you(int b, int five, int three, byte ca, int tr) { bool tt = tr is bool; int l1 = five ?? side(b); write(l1); write(g); write(three ?? side(b + 1)); write(g); byte q = ca ?? (side(b) is byte); write(q); bool t = tt ?? (side(b) > 0); write(t); write(g); }''',
     [['0', '5', '3', '97', '1'], ['5', '5', '3', '97', '1'], ['2', '5', '3', '97', '1']]),
    ('known_lengths', '''const int[] G = [1, 2, 3]; byte[] H = [7, 8]; string S = "four";
empty @is_you(int a) { const int[] l = [5, 6, 7, 8]; write((G is bool) is int); write(not (G is bool)); write((G is bool) == true); write((l is bool) is int); write((H is bool) is int);
  bool[] pack = [G is bool, l is bool, "abc" is bool, [1, 2] is bool]; for (int i = 0; i < 4; i += 1) { write(pack[i] is int); } write((S is bool) is int); write(("abcd" is bool) is int);
  bool keep = G is bool; write(keep is int); write(keep == (a is bool)); write(G.length + l.length + "abc".length); }''',
     None, [['1'], ['0'], ['2']]),
    ('bool_literal_runtime_tail', '''empty @is_you(int a, int b) { bool[] f = [true, false, true, false, true, false, true, false, a > 0, b > 0, true, a == b, false, false, false, false, b == 1, a == 1];
  for (int i = 0; i < f.length; i += 1) { write(f[i] is int); } bool[] g = [a > 0, true, b > 0, false, false, false, false, false, false, a > 1, b > 1]; for (int j = 0; j < g.length; j += 1) { write(g[j] is int); } }''',
     None, [['1', '0'], ['0', '1'], ['2', '2'], ['1', '1']]),
    ('const_switches', '''const bool DEBUG = false; const int LEVEL = 0; const bool ON = true;
empty !chk(int v) { !truth_is_defeat(DEBUG); write('c'); !truth_is_defeat(v > 5 and DEBUG); write('d'); !truth_is_defeat(LEVEL > 0); write('e'); }
int pick(int v) { if (DEBUG) { return 0 - 1; } if (ON or v > 3) { write('o'); } while (DEBUG) { v += 1; } return v + LEVEL; }
empty @is_you(int v) { try { !chk(v); write('n'); } stop { write('h'); } write(pick(v)); try { !truth_is_defeat(false); write('k'); !truth_is_defeat(ON and v == 9); write('m'); } undo { write('u'); } write('>'); }''',
     None, [['0'], ['7'], ['9']]),
]

FOLD_PROGRAMS.append(('literal_length_effects', '''int g = 0; int side(int v) { g += 1; write('s'); return v; }
empty @is_you(int a) { write([side(a), side(a + 1)].length); write(g); write(["x", "yz"].length); write([side(1)].length + "abc".length); write(g); if ([side(a)].length == 1) { write('t'); } write(g); int n = [a, side(a), 3].length * 2; write(n); write(g); }''',
                      '''int g = 0; int side(int v) { g += 1; write('s'); return v; }
empty @is_you(int a) { int[] t1 = [side(a), side(a + 1)]; write(t1.length); write(g); string[] t2 = ["x", "yz"]; write(t2.length); int[] t3 = [side(1)]; string t4 = "abc"; write(t3.length + t4.length); write(g);
  int[] t5 = [side(a)]; if (t5.length == 1) { write('t'); } write(g); int[] t6 = [a, side(a), 3]; int n = t6.length * 2; write(n); write(g); }''', [['0'], ['5']]))
# 1, -1 and 0 as the constant operand of every operator, and operands that are syntactically equal: folding by algebraic
# identity must keep the effects (and faults) of the other operand
FOLD_PROGRAMS.append(('unit_operand_identities', '''int g = 0; int side(int v) { g += 1; write('s'); return v; }
empty @is_you(int x) { write(side(x) % 1); write(side(x) % (0 - 1)); write(side(x) / 1); write(side(x) * 1); write(1 * side(x)); write(side(x) + 0); write(0 + side(x)); write(side(x) - 0); write(g); write(' ');
  write(side(x) / (0 - 1)); write(side(x) * (0 - 1)); write(side(x) - side(x)); write(side(x) == side(x)); write(side(x) / side(x + 1)); write(g); write(' ');
  int v = x; v %= 1; write(v); v = x; v *= 1; write(v); v /= 1; write(v); v += 0; write(v); write((side(x) > 0) and true); write((side(x) > 0) or false); write(true and (side(x) > 0)); write(g); }''',
                      '''int g = 0; int side(int v) { g += 1; write('s'); return v; }
empty @is_you(int x, int one, int m1, int z, int ti, int fi) { bool T = ti is bool; bool F = fi is bool; write(side(x) % one); write(side(x) % m1); write(side(x) / one); write(side(x) * one); write(one * side(x)); write(side(x) + z); write(z + side(x)); write(side(x) - z); write(g); write(' ');
  write(side(x) / m1); write(side(x) * m1); write(side(x) - side(x)); write(side(x) == side(x)); write(side(x) / side(x + 1)); write(g); write(' ');
  int v = x; v %= one; write(v); v = x; v *= one; write(v); v /= one; write(v); v += z; write(v); write((side(x) > 0) and T); write((side(x) > 0) or F); write(T and (side(x) > 0)); write(g); }''',
                      [[str(x), '1', '-1', '0', '1', '0'] for x in (5, -7, 0, -1)]))
# comparisons of `expr +- literal` with a literal near the word extremes: moving the offset across the comparison ignores wrap-around
FOLD_PROGRAMS.append(('compare_offset', '''empty @is_you(int x) { write(x + 1 > 0); write(x - 1 < 0); write(x + 100 < 50); write(x - 100 > 32000); write(x + 1 >= x); write(1 + x <= 0); write(x * 2 > 10); write(x + 1 == 0 - 32768);
  write(x + 32767 > 5); write(x - 32767 < 0 - 5); if (x + 2 > 1) { write('T'); } else { write('F'); } try { !truth_is_defeat(x + 1 < 0); write('n'); } undo { write('u'); } write((x is byte) + 1 > 255); }''',
                      '''empty @is_you(int x, int one, int z, int c100, int c50, int c32000, int two, int c10, int mn, int mx, int c5, int c255) { write(x + one > z); write(x - one < z); write(x + c100 < c50); write(x - c100 > c32000); write(x + one >= x); write(one + x <= z); write(x * two > c10); write(x + one == mn);
  write(x + mx > c5); write(x - mx < z - c5); if (x + two > one) { write('T'); } else { write('F'); } try { !truth_is_defeat(x + one < z); write('n'); } undo { write('u'); } write((x is byte) + one > c255); }''',
                      [[str(x), '1', '0', '100', '50', '32000', '2', '10', '-32768', '32767', '5', '255'] for x in (32767, -32768, 0, -1, 32766, -32700, 16384, 255)]))
# lengths of literal and constant strings / arrays, asked directly (may be folded) and through a variable (the twin)
FOLD_PROGRAMS.append(('constant_lengths', '''const string CS = "\\u{4e16}\\u{754c}!"; string GS = "\\u{e9}t\\u{e9}"; const int[] CI = [1, 2, 3]; const bool[] CO = [true, false, true, true, false, false, true, false, true];
empty @is_you(int a) { write("\\u{e9}x".length); write("abc".length); write("".length); write("\\u{1F30E}".length); write(CS.length); write(GS.length); write(CI.length); write(CO.length); write("q\\n\\x00z".length);
  write(["ab", "c"].length); write([a, 2].length); write(("xyz" is byte[]).length); write(("\\u{e9}" is byte[]).length); for (int i = 0; i < "\\u{e9}\\u{e9}".length; i += 1) { write('.'); } write(CS.length * 2 + a); }''',
                      '''empty @is_you(int a) { string s1 = "\\u{e9}x"; string s2 = "abc"; string s3 = ""; string s4 = "\\u{1F30E}"; string CS = "\\u{4e16}\\u{754c}!"; string GS = "\\u{e9}t\\u{e9}"; int[] CI = [1, 2, 3]; bool[] CO = [true, false, true, true, false, false, true, false, true]; string s5 = "q\\n\\x00z";
  write(s1.length); write(s2.length); write(s3.length); write(s4.length); write(CS.length); write(GS.length); write(CI.length); write(CO.length); write(s5.length);
  string[] sa = ["ab", "c"]; int[] ia = [a, 2]; string s6 = "xyz"; string s7 = "\\u{e9}"; string s8 = "\\u{e9}\\u{e9}"; const byte[] b6 = s6 is byte[]; const byte[] b7 = s7 is byte[]; write(sa.length); write(ia.length); write(b6.length); write(b7.length); for (int i = 0; i < s8.length; i += 1) { write('.'); } write(CS.length * 2 + a); }''',
                      [['1'], ['0']]))
# comparisons against literals outside the range of one operand's TYPE (bytes, bools as ints, lengths): only the value decides
FOLD_PROGRAMS.append(('compare_with_out_of_range_literal', '''empty @is_you(byte x, byte y, int i) { string s = "abc"; bool t = i > 0;
  write((x + y) < 256); write((x * y) > 255); write((0 - x) < 0); write((x - y) >= 0); write(x < 256); write(x > (0 - 1)); write((x is int) == 300); write(x + y == 300);
  write(x == 511); write(x != 0 - 1); write(x == 256); write(256 == x); write(x == 255); write(y != 0 - 256); write(x == y + 256); write(511 != x);
  write(s.length < 0); write(s.length >= 0); write((t is int) < 2); write((t is int) > 1); write((i is byte) < 256); write((i is byte) >= 0); write(((x + y) is byte) < (x + y));
  if ((x + y) < 256) { write('T'); } else { write('F'); } try { !truth_is_defeat((x * y) > 255); write('n'); } undo { write('u'); } }''',
                      '''empty @is_you(byte x, byte y, int i, int k256, int k255, int k0, int km1, int k300, int k2, int k1) { string s = "abc"; bool t = i > 0;
  write((x + y) < k256); write((x * y) > k255); write((k0 - x) < k0); write((x - y) >= k0); write(x < k256); write(x > km1); write((x is int) == k300); write(x + y == k300);
  write(x == k256 + k255); write(x != km1); write(x == k256); write(k256 == x); write(x == k255); write(y != k0 - k256); write(x == y + k256); write(k256 + k255 != x);
  write(s.length < k0); write(s.length >= k0); write((t is int) < k2); write((t is int) > k1); write((i is byte) < k256); write((i is byte) >= k0); write(((x + y) is byte) < (x + y));
  if ((x + y) < k256) { write('T'); } else { write('F'); } try { !truth_is_defeat((x * y) > k255); write('n'); } undo { write('u'); } }''',
                      [[str(x), str(y), str(i), '256', '255', '0', '-1', '300', '2', '1'] for x, y, i in ((1, 2, 5), (200, 100, -3), (255, 255, 256), (0, 0, 0), (16, 16, 300), (150, 150, 1))]))
FOLD_PROGRAMS.append(('literal_zero_elements', '''int fill(int x) { int[] junk = [x, x + 1, x + 2, x + 3, x + 4, x + 5]; return junk[5]; }
empty @is_you(int x) { write(fill(x)); write(' '); for (int i = 0; i < 2; i += 1) { { int[] a = [9, 9, 9, 9, x + 9]; write(a[4]); } { int[] b = [x, 0, 0, 0, 0]; write(b[0] + b[1] + b[2] + b[3] + b[4]); write(' ');
  byte[] c = [(x is byte), 0, 0]; write(c[1] is int); write(c[2] is int); bool[] d = [x > 0, false, false, false, false, false, false, false, false, false]; write(d[1]); write(d[9]); write(f3([x, 0, 0])); } } }
int f3(const int[] p) { return p[0] * 100 + p[1] * 10 + p[2]; }''',
                      '''int fill(int x) { int[] junk = [x, x + 1, x + 2, x + 3, x + 4, x + 5]; return junk[5]; }
empty @is_you(int x, int z, int fi) { bool f = fi is bool; write(fill(x)); write(' '); for (int i = 0; i < 2; i += 1) { { int[] a = [9, 9, 9, 9, x + 9]; write(a[4]); } { int[] b = [x, z, z, z, z]; write(b[0] + b[1] + b[2] + b[3] + b[4]); write(' ');
  byte[] c = [(x is byte), (z is byte), (z is byte)]; write(c[1] is int); write(c[2] is int); bool[] d = [x > 0, f, f, f, f, f, f, f, f, f]; write(d[1]); write(d[9]); write(f3([x, z, z])); } } }
int f3(const int[] p) { return p[0] * 100 + p[1] * 10 + p[2]; }''', [['5', '0', '0'], ['0', '0', '0'], ['-3', '0', '0']]))
# 0 as the constant operand of every operator: folding by algebraic identity must keep the faults and effects of the other side
FOLD_PROGRAMS.append(('zero_operand_identities', '''int g = 0; int side(int v) { g += 1; write('s'); return v; }
const int Z = 0;
empty @is_you(int x) { write('a'); write(0 * side(x)); write(side(x) * 0); write(0 + x); write(x - 0); write(0 - x); write(Z * x); write(g); write('b');
  if (x < 5) { write(0 / x); write('c'); write(0 % x); write('d'); write(Z / x); } else { write(Z % (x - 9)); write('e'); write(0 / (x - 9)); } write('f'); }''',
                      '''int g = 0; int side(int v) { g += 1; write('s'); return v; }
empty @is_you(int x, int z) { write('a'); write(z * side(x)); write(side(x) * z); write(z + x); write(x - z); write(z - x); write(z * x); write(g); write('b');
  if (x < 5) { write(z / x); write('c'); write(z % x); write('d'); write(z / x); } else { write(z % (x - 9)); write('e'); write(z / (x - 9)); } write('f'); }''',
                      [['3', '0'], ['0', '0'], ['9', '0'], ['12', '0'], ['-2', '0']]))

# constant indices into constant strings / arrays, in and out of range, negative included: folding a lookup must keep
# the run-time fault
for _k in (-1, -5, -6, 5, 0, 4, 6):
    FOLD_PROGRAMS.append(('const_index_lit_%d' % _k, '''empty @is_you(int a) { write('s'); write("hello"[%d]); write('e'); }''' % _k,
                          '''empty @is_you(int a, int k) { string h = "hello"; write('s'); write(h[k]); write('e'); }''', [['0', str(_k)]]))
    FOLD_PROGRAMS.append(('const_index_const_%d' % _k, '''const string CS = "world"; const int[] CI = [1, 2, 3, 4, 5]; const int K = %d;
empty @is_you(int a) { write('s'); if (a == 0) { write(CS[K]); } else { write(CI[K]); } write(("abcde" is byte[])[K]); write('e'); }''' % _k,
                          '''empty @is_you(int a, int k) { string CS = "world"; int[] CI = [1, 2, 3, 4, 5]; byte[] q = ['a', 'b', 'c', 'd', 'e'];
write('s'); if (a == 0) { write(CS[k]); } else { write(CI[k]); } write(q[k]); write('e'); }''', [['0', str(_k)], ['1', str(_k)]]))


def fold_family(ws):
    items = []
    for name, a, b, argss in FOLD_PROGRAMS:
        for args in argss:
            for w in ws:
                if b is None:
                    items.append(runner.Item(('fold', name, tuple(args), w), a, args, w=w, s=120,
                                             meta={'family': 'fold:' + name, 'classifier': {'form': name}}))
                else:
                    sig = re.search(r'@is_you\(([^)]*)\)', a).group(1).strip()
                    na = len(sig.split(',')) if sig else 0          # the constant form takes the first arguments of its twin
                    items.append(runner.Item(('fold', name, tuple(args), w), a, args[:na], w=w, s=120, sem_src=b, sem_args=args,
                                             meta={'family': 'fold:' + name, 'twin': (a, b, args), 'classifier': {'form': name}}))
    return items


# ------------------------------------------------------------------------------------------------ C05
def fault_family(seed, tier):
    rnd = random.Random(seed)
    items = []
    W = 2
    m = 32767

    def add(name, src, argss, s=120, **cl):
        for a in argss:
            items.append(runner.Item(('flt', name, tuple(a)), src, [str(x) for x in a], w=W, s=s,
                                     meta={'family': 'fault:' + name, 'classifier': dict({'site': name}, **cl)}))
    divs = [[x, y] for x in [7, -7, 0, m, -m - 1] for y in [-1, 0, 1, 2]]
    for op in ['/', '%']:
        add('div_value' + op, 'int g = 0; int f() { g = 9; write(\'f\'); return 1; }\nempty @is_you(int x, int y) { write(\'a\'); g = 1; int r = (x %s y) + f(); write(\'b\'); write(r); write(g); }' % op, divs)
        add('div_branch' + op, 'empty @is_you(int x, int y) { write(\'a\'); if ((x %s y) > 0) { write(\'T\'); } else { write(\'F\'); } write(\'b\'); }' % op, divs)
        add('div_tid' + op, 'empty @is_you(int x, int y) { write(\'a\'); try { !truth_is_defeat((x %s y) == 3); write(\'n\'); } undo { write(\'u\'); } write(\'b\'); }' % op, divs)
        add('div_byte' + op, 'empty @is_you(byte x, byte y) { write(\'a\'); write(x %s y); write(\'b\'); }' % op, [[7, 0], [7, 1], [0, 0], [255, 255]])
        add('div_assign' + op, 'int g = 3; empty @is_you(int x, int y) { int v = x; write(\'a\'); v %s= y; write(v); g %s= y; write(g); }' % (op, op), divs)
        add('div_elem' + op, 'empty @is_you(int x, int y) { int[] a = [x, 5]; byte[] b = [9, 8]; write(\'a\'); a[0] %s= y; write(a[0]); b[1] %s= (y is byte); write(b[1] is int); }' % (op, op), divs)
        add('div_rhs_first' + op, 'int g = 0; int f() { g += 1; write(\'f\'); return 0; }\nempty @is_you(int x, int y) { write(\'a\'); int r = f() + (x %s y); write(g); write(r); }' % op, divs)
    # divisors that are compile-time constants (literal, const variable) under a run-time dividend
    add('div_const_zero', 'const int Z = 0; const int ONE = 1;\nempty @is_you(int x, int y) { int[] a = [x, 5]; int v = x; write(\'a\'); if (y == 1) { write(x / Z); } if (y == 2) { write(x %% Z); } if (y == 3) { a[0] %%= 0; } if (y == 4) { v /= 0; } if (y == 5) { a[1] /= Z; } write(x / ONE); write(\'b\'); write(a[0]); write(v); }'.replace('%%', '%'),
        [[7, k] for k in range(0, 6)])
    # faults inside expression statements whose value is discarded
    src = '''int z = 0; int[] GA = [1, 2, 3];
empty @is_you(int k, int i) { int[] la = [4, 5]; string s = "ab"; write('a'); if (k == 0) { 10 / z; } if (k == 1) { GA[i]; } if (k == 2) { la[i]; } if (k == 3) { s[i]; } if (k == 4) { 7 %% (i - i); } if (k == 5) { -(10 / z); } if (k == 6) { (10 / z) is byte; }
  if (k == 7) { [1, 10 / z]; } if (k == 8) { la[i] + 1; } if (k == 9) { GA[i] > 0; } write('b'); }'''.replace('%%', '%')
    for k in range(10):
        for i in (0, 5, -1):
            items.append(runner.Item(('flt', 'discarded_value', k, i), src, [str(k), str(i)], s=120,
                                     meta={'family': 'fault:discarded_value', 'classifier': {'site': 'discarded_value'}}))
    # divisors that are lengths (of entry arrays / strings, dynamic arrays, literals), possibly zero
    src = '''int cnt(const int[] p) { return 100 / p.length; }
empty @is_you(int n, string s, const int[] v) { int a[n]; write('a'); if (n == 0) { write(10 / a.length); } if (n == 1) { write(10 %% s.length); } if (n == 2) { write(10 / v.length); write(10 %% v.length); }
  if (n == 3) { int q = 7; q /= s.length; write(q); q %%= v.length; write(q); } if (n == 4) { write(cnt(v)); } if (n == 5) { write(7 / "".length); } write(12 / "abc".length); write('b'); }'''.replace('%%', '%')
    for args in ([0, 'x'], [1, ''], [1, 'ab'], [2, 'x'], [2, 'x', 5, 6], [3, '', 1], [3, 'ab'], [3, 'ab', 4], [4, 'x'], [4, 'x', 9], [5, 'x']):
        items.append(runner.Item(('flt', 'div_by_length', tuple(args)), src, [str(x) for x in args], s=120,
                                 meta={'family': 'fault:div_by_length', 'classifier': {'site': 'div_by_length'}}))
    # dividends that are compile-time constants (0 and others) over a run-time divisor
    add('div_const_dividend', 'const int Z = 0; const int K = 12;\nempty @is_you(int x, int y) { write(\'a\'); if (y == 0) { write(0 / x); } if (y == 1) { write(0 %% x); } if (y == 2) { write(Z / x); } if (y == 3) { write(K %% x); } if (y == 4) { write(12 / x); } if (y == 5) { int v = 0; v /= x; write(v); } if (y == 6) { write((0 * x) / x); } write(\'b\'); }'.replace('%%', '%'),
        [[x, k] for x in (0, 5, -1) for k in range(0, 7)])
    idx = lambda n: [[-1], [0], [n - 1], [n], [n + 1], [m], [-m - 1], [256], [-256]]
    for el, lit, n in [('int', '[3, 4, 5]', 3), ('byte', "['a', 'b', 'c', 'd']", 4), ('bool', '[true, false, true, true, false, true, false, false, true]', 9),
                       ('string', '["p", "qq"]', 2)]:
        wr = 'write' if el != 'string' else 'write'
        add('idx_read_' + el, 'empty @is_you(int i) { %s[] a = %s; int after = 77; write(\'a\'); write(a[i]); write(\'b\'); write(after); }' % (el, lit), idx(n))
        add('idx_read_global_' + el, 'const %s[] G = %s; empty @is_you(int i) { write(\'a\'); write(G[i]); write(\'b\'); }' % (el, lit), idx(n))
        add('idx_param_' + el, 'empty show(const %s[] p, int i) { write(\'s\'); write(p[i]); write(\'t\'); }\nempty @is_you(int i) { %s[] a = %s; show(a, i); write(\'b\'); }' % (el, el, lit), idx(n))
        val = {'int': '42', 'byte': "'z'", 'bool': 'true', 'string': '"new"'}[el]
        add('idx_store_' + el, 'int g = 0; empty @is_you(int i) { %s[] a = %s; int guard = 5; write(\'a\'); a[i] = %s; write(\'b\'); write(a[0]); write(guard); }' % (el, lit, val), idx(n))
        add('idx_store_order_' + el, '%s f() { write(\'f\'); return %s; }\nempty @is_you(int i) { %s[] a = %s; write(\'a\'); a[i] = f(); write(\'b\'); }' % (el, val, el, lit), idx(n))
        if el in ('int', 'byte'):
            add('idx_inc_' + el, 'empty @is_you(int i) { %s[] a = %s; write(\'a\'); a[i] += 1; write(\'b\'); write(a[0] is int); }' % (el, lit), idx(n))
            add('idx_vla_' + el, 'empty @is_you(int i) { %s a[4]; for (int k = 0; k < 4; k += 1) { a[k] = %s; } write(\'a\'); write(a[i]); a[i] = %s; write(\'b\'); }' % (el, val, val), idx(4))
    add('idx_string', 'empty @is_you(int i) { string s = "hello"; write(\'a\'); write(s[i]); write(\'b\'); }', idx(5))
    add('idx_string_lit', 'empty @is_you(int i) { write(\'a\'); write("xyz"[i]); write(\'b\'); }', idx(3))
    add('idx_string_empty', 'empty @is_you(int i) { string s = ""; write(\'a\'); write(s[i]); write(\'b\'); }', [[0], [-1], [1]])
    for a in [['abc', i] for i in (-1, 0, 2, 3, 100)]:
        items.append(runner.Item(('flt', 'idx_entry_string', tuple(a)), 'empty @is_you(string s, int i) { write(\'a\'); write(s[i]); write(\'b\'); }',
                                 [str(x) for x in a], s=120, meta={'family': 'fault:idx_entry_string', 'classifier': {'site': 'idx_entry_string'}}))
    for i in (-1, 0, 2, 3):
        items.append(runner.Item(('flt', 'idx_entry_arr', i), 'empty @is_you(int i, const int[] v) { write(\'a\'); write(v[i]); write(\'b\'); }',
                                 [str(i), '10', '20', '30'], s=120, meta={'family': 'fault:idx_entry_arr', 'classifier': {'site': 'idx_entry_arr'}}))
        items.append(runner.Item(('flt', 'idx_entry_strs', i), 'empty @is_you(int i, const string[] v) { write(\'a\'); write(v[i]); write(\'b\'); }',
                                 [str(i), 'x', 'yy', 'zzz'], s=120, meta={'family': 'fault:idx_entry_strs', 'classifier': {'site': 'idx_entry_strs'}}))
    lens = [[-8], [-7], [-1], [0], [1], [2], [9], [m], [-m - 1], [m // 2], [m // 2 + 1], [16383], [16384], [-m], [-m + 1], [-16384], [-16383]]
    for el, val in [('int', '1'), ('byte', "'b'"), ('bool', 'true'), ('string', '"s"')]:
        add('vla_len_' + el, 'empty @is_you(int n) { int before = 3; write(\'a\'); %s a[n]; write(\'b\'); write(a.length); if (n > 0) { a[0] = %s; a[n - 1] = %s; write(a[0]); } write(before); }' % (el, val, val), lens, s=200)
        add('vla_len_expr_' + el, 'int f(int n) { write(\'f\'); return n; }\nempty @is_you(int n) { write(\'a\'); %s a[f(n) * 1]; write(a.length); }' % el, [[-1], [0], [3]], s=200)
    # stacks larger than the compiler accepts at 16 bits (rejected on a correct tree: then these cases are simply not run):
    # the length guards rely on a negative length being larger, unsigned, than any possible free stack
    for n in (-30000, -1, 40000 - 65536):
        items.append(runner.Item(('flt', 'vla_len_huge_stack', n), 'empty @is_you(int n) { write(\'a\'); byte buf[n]; write(buf.length); int iq[n]; write(iq.length); write(\'b\'); }',
                                 [str(n)], w=2, s=20000, meta={'family': 'fault:vla_len_huge_stack', 'classifier': {'site': 'vla_len_huge_stack'}}))
    # the same length guards at wider words: lengths whose BYTE size wraps around the word
    for w in (3, 4):
        mm = (1 << (8 * w - 1)) - 1
        full = 1 << (8 * w)
        wl = [[-1], [0], [2], [mm // w], [mm // w + 1], [full // w + 1], [full // w + 2], [mm], [-mm - 1], [(full // w) // 2 + 1]]
        for el, val in [('int', '1'), ('string', '"s"'), ('bool', 'true'), ('byte', "'b'")]:
            src = 'empty @is_you(int n, int k) { int before = 3; write(\'a\'); %s a[n]; write(\'b\'); write(a.length); if (n > 0) { a[0] = %s; a[k] = %s; write(a[k]); } write(before); }' % (el, val, val)
            for a in wl:
                for k in (0, 19):
                    items.append(runner.Item(('flt', 'vla_len_w%d_%s' % (w, el), a[0], k), src, [str(a[0]), str(k)], w=w, s=20,
                                             meta={'family': 'fault:vla_len_w%d_%s' % (w, el), 'classifier': {'site': 'vla_len_wide'}}))
    # nonlocal preempt
    np = '''empty !pre(int k) { if (k > 5) { preempt { write('p'); } } write('q'); }
empty @is_you(int k, int d) {
  write('a');
  try { !pre(k); write('r'); !truth_is_defeat(d == 1); write('n'); } undo { write('u'); }
  write('b');
}'''
    add('nonlocal_preempt', np, [[0, 0], [0, 1], [9, 0], [9, 1]])
    np2 = '''empty !pre(int k) { preempt { write('p'); return; } write('q'); !truth_is_defeat(k == 1); }
empty @is_you(int k, int d) {
  write('a');
  try { !pre(k); write('r'); !truth_is_defeat(d == 1); write('n'); } stop { write('s'); }
  write('b');
}'''
    add('nonlocal_preempt_stop', np2, [[0, 0], [0, 1], [1, 0], [1, 1]])
    # value-returning preemptive defeat functions: every way of leaving one must check for a non-local preempt
    for ty, v1, v2 in (('int', '5', '1'), ('byte', "'x'", "'y'"), ('bool', 'true', 'false'), ('string', '"pp"', '"qq"')):
        for nm, body in (('ret_in_preempt', "preempt { write('p'); return %s; } write('q'); !truth_is_defeat(k == 1); return %s;" % (v1, v2)),
                         ('ret_after_preempt', "preempt { write('p'); } write('q'); !truth_is_defeat(k == 1); return %s;" % v2),
                         ('ret_nested', "for (int i = 0; i < 2; i += 1) { preempt { write('p'); if (i == 0) { return %s; } } } write('q'); if (k == 2) { return %s; } !truth_is_defeat(k == 1); return %s;" % (v1, v1, v2))):
            add('np_value_%s_%s' % (nm, ty), '''%s !pre(int k) { %s }
empty @is_you(int k, int d) {
  write('a');
  try { write(!pre(k)); write('r'); !truth_is_defeat(d == 1); write('n'); } undo { write('u'); }
  try { %s t = !pre(k); write('R'); !truth_is_defeat(d == 2); write('N'); } stop { write('s'); }
  write('b');
}''' % (ty, body, ty), [[0, 0], [0, 1], [0, 2], [1, 0], [1, 1], [2, 1], [2, 2]])
    # literal indices on things whose length is only known at run time (and may be zero)
    for K in (0, 1, 2):
        src = '''empty @is_you(int n, const int[] v) { int a[n]; write('a'); if (n == 9) { write(v[%d]); } else { a[%d] = 5; a[%d] += 1; write(a[%d]); } write('b'); }''' % (K, K, K, K)
        for args in ([0], [1], [2], [3], [9], [9, 4], [9, 4, 5], [9, 4, 5, 6]):
            items.append(runner.Item(('flt', 'idx_literal_%d' % K, tuple(args)), src, [str(x) for x in args], s=120,
                                     meta={'family': 'fault:idx_literal', 'classifier': {'site': 'idx_literal'}}))
        src = '''empty @is_you(string s, const string[] v) { write('a'); write(s[%d]); write(v[%d]); write(v[%d][%d]); write('b'); }''' % (K, K, K, K)
        for args in ([''], ['x'], ['xyz'], ['xyz', ''], ['xyz', 'p', 'q', 'r'], ['xyz', 'pqr', 'q', 'r'], ['xyz', 'pqr', 'qqq', 'rrr']):
            items.append(runner.Item(('flt', 'idx_literal_str_%d' % K, tuple(args)), src, args, s=120,
                                     meta={'family': 'fault:idx_literal', 'classifier': {'site': 'idx_literal_str'}}))
    # the last element (`a[a.length - 1]`) and byte-typed indices at the edge of 255 / 256-element arrays
    src = '''empty @is_you(int n, const int[] v) { int a[n]; for (int i = 0; i < n; i += 1) { a[i] = i + 10; } write('a'); if (n == 9) { write(v[v.length - 1]); } else { write(a[a.length - 1]); a[a.length - 1] += 1; write(a[a.length - 1]); } write('b'); }'''
    for args in ([0], [1], [3], [9], [9, 4], [9, 4, 5]):
        items.append(runner.Item(('flt', 'idx_last', tuple(args)), src, [str(x) for x in args], s=120,
                                 meta={'family': 'fault:idx_last', 'classifier': {'site': 'idx_last'}}))
    src = '''byte[] T255 = [%s]; byte[] T256 = [%s, 9]; int t5[255];
empty @is_you(int i) { byte b = i is byte; t5[254] = 7; write('a'); if (i < 1000) { write(T256[b] is int); write(T255[b] is int); write(t5[b]); } else { T255[b] = 1; } write('b'); }''' % (', '.join(str(k % 251) for k in range(255)), ', '.join(str(k % 251) for k in range(255)))
    for i in (0, 254, 255, 256 + 255, 1255, 1254):
        items.append(runner.Item(('flt', 'idx_byte_255', i), src, [str(i)], s=600,
                                 meta={'family': 'fault:idx_byte_255', 'classifier': {'site': 'idx_byte_255'}}))
    # every syntactic home of a preempt block makes the function preemptive (README: "anywhere in it, even if unreachable")
    homes = {'for': 'for (int i = 0; i < k; i += 1) { preempt { write(\'p\'); } }', 'while': 'int i = 0; while (i < k) { i += 1; preempt { write(\'p\'); } }',
             'else': 'if (k > 5) { write(\'t\'); } else { preempt { write(\'p\'); } }', 'block': '{ { preempt { write(\'p\'); } } }',
             'dead': 'if (false) { preempt { write(\'p\'); } }', 'after_return': 'if (k >= 0) { write(\'q\'); return; } preempt { write(\'p\'); }',
             'forstep': 'for (int i = 0; i < k; i += 1) { if (i > 5) { preempt { } } }', 'nested_if_for': 'if (k < 3) { for (;;) { preempt { break; } break; } }'}
    for nm, body in homes.items():
        add('preempt_home_' + nm, 'empty !pre(int k) { %s write(\'q\'); }\nempty @is_you(int k, int d) { write(\'a\'); try { !pre(k); write(\'r\'); !truth_is_defeat(d == 1); write(\'n\'); } undo { write(\'u\'); } write(\'b\'); }' % body,
            [[0, 0], [0, 1], [1, 1], [9, 1]])
    return items
