"""C09 Operators and casts give the specified result at every boundary value, in every usage position.
Decided by Refine.tla (HiDSem expression semantics = Word.tla); operands are inputs on a boundary grid."""
import time
from hv import rt, fam_ops, fam_seq

PROP = 'C09'


def main(tier, seed):
    t0 = time.time()
    ws = [2, 3] if tier == 'quick' else [2, 3, 4]
    items = fam_ops.ops_family(seed, tier, ws)
    items += fam_seq.computed_casts(seed, tier)
    return rt.standard(PROP, tier, seed, items,
                       'one program per operator/cast (value, branch, while, negated, !truth_is_defeat in try/undo, '
                       'try/stop and through a defeat function) x operand types x boundary grid pairs; W=2 and one of {3,4} '
                       '(thorough: 2,3,4)', t0)
