\* The Lexer machine on its own: every input of LexerData, properties of the machine itself.
\* (hv/checks/c12.py copies this next to a generated LexerData.tla and a root module EXTENDS Lexer.)
SPECIFICATION Spec
INVARIANTS TypeOK SpanExact ReaderAgrees
PROPERTIES CursorForward Terminates
CHECK_DEADLOCK TRUE
