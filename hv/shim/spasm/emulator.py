"""Stand-in for `spasm.emulator` backed by the verification VM (hv.svm): the whole run is computed up front
(committed timeline), then replayed event by event through the context the upstream tests install."""
from hv import svm


class Emulator:
    def __init__(self, program, ctx):
        self.ctx = ctx
        self.vm = svm.VM(program, max_steps=3_000_000, full_cycle=False)
        self.vm.run()
        self.i = 0

    def step(self):
        if self.i < len(self.vm.out):
            k, v = self.vm.out[self.i]
            self.i += 1
            if k == 'y':
                self.ctx.output(bytes([v]))
            elif k == 's':
                self.ctx.sleep(v)
            else:
                self.ctx.on_flag(None, v)
            return True
        if self.vm.status in ('halt', 'fault'):
            return False
        if self.vm.status == 'fuel':
            raise RuntimeError('verification VM ran out of fuel')
        return True
