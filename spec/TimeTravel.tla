----------------------------- MODULE TimeTravel -----------------------------
(* The DECLARATIVE meaning of try/undo, try/stop and preempt (README "Time travel", "Computational       *)
(* astrology"), by prophecy through recursion - no choice stack, no backtracking:                         *)
(*    RunTry(K, s, forced)   run the rest K of a try body from state s.  A `preempt P` runs iff skipping   *)
(*                           it makes the rest end in defeat (or, when defeat is unavoidable and therefore *)
(*                           virtualised - forced = TRUE - always);                                       *)
(*    try B undo H           = H from the state at try entry if RunTry(B) ends in defeat, else B's result; *)
(*    try B stop H           = B's result if defeat is avoidable; otherwise B is run with every preempt     *)
(*                           taken, up to the defeat, then H.                                              *)
(* and the model check that HiDSem's operational backtracking machine (the oracle of C02) computes         *)
(* exactly this on every program of the time-travel core (statements: output, assignment to the global x, *)
(* !is_defeat, !truth_is_defeat(x ? k), preempt, if (x ? k), try/undo, try/stop, sequences of tries; no    *)
(* calls).  The programs are the enumerated core of hv/fam_tt.py, translated by hv/ir.py.                 *)
EXTENDS HiDSem

\* ---- pure evaluation of the expressions of the core: literals, the global, the entry parameter, ==, !=, +
RECURSIVE PEval(_, _)
PEval(e, s) == CASE e.k = "lit" -> e.v
                 [] e.k = "glob" -> s.x
                 [] e.k = "loc" -> s.p
                 [] e.k = "cmp" -> BoolWord(CmpRes(e.op, PEval(e.a, s), PEval(e.b, s)))
                 [] e.k = "bin" -> ArithRes(e.op, PEval(e.a, s), PEval(e.b, s))
                 [] e.k = "cast" -> PEval(e.a, s)

Emit(s, bs) == [s EXCEPT !.out = @ \o [i \in 1..Len(bs) |-> HEv("y", <<bs[i]>>)]]

\* what a simple (non-control) statement does: [res, s]
Simple(st, s) ==
   IF st.k = "assign" THEN [res |-> "ok", s |-> [s EXCEPT !.x = PEval(st.e, s)]]
   ELSE \* expression statement: a builtin call
        LET b == st.e IN
        CASE b.name = "write_byte" -> [res |-> "ok", s |-> Emit(s, <<LowByte(PEval(b.args[1], s))>>)]
          [] b.name = "write_int" -> [res |-> "ok", s |-> Emit(s, Decimal(PEval(b.args[1], s)))]
          [] b.name = "is_defeat" -> [res |-> "defeat", s |-> s]
          [] b.name = "truth_is_defeat" -> [res |-> IF IsZero(PEval(b.args[1], s)) THEN "ok" ELSE "defeat", s |-> s]

RECURSIVE RunTry(_, _, _)
RunTry(K, s, forced) ==
   IF K = <<>> THEN [res |-> "done", s |-> s]
   ELSE LET st == Head(K)  T == Tail(K) IN
        CASE st.k \in {"assign", "expr"} ->
                WithVal(Simple(st, s), LAMBDA r : IF r.res = "defeat" THEN r ELSE RunTry(T, r.s, forced))
          [] st.k = "if" -> RunTry((IF ~IsZero(PEval(st.c, s)) THEN st.a ELSE st.b) \o T, s, forced)
          [] st.k = "block" -> RunTry(st.body \o T, s, forced)
          [] st.k = "preempt" ->
                IF forced THEN RunTry(st.body \o T, s, forced)
                ELSE WithVal(RunTry(T, s, forced),
                             LAMBDA skip : IF skip.res = "defeat" THEN RunTry(st.body \o T, s, forced) ELSE skip)

RECURSIVE RunYou(_, _)
RunYou(K, s) ==
   IF K = <<>> THEN s
   ELSE LET st == Head(K)  T == Tail(K) IN
        CASE st.k \in {"assign", "expr"} -> RunYou(T, Simple(st, s).s)
          [] st.k = "if" -> RunYou((IF ~IsZero(PEval(st.c, s)) THEN st.a ELSE st.b) \o T, s)
          [] st.k = "block" -> RunYou(st.body \o T, s)
          [] st.k = "return" -> s              \* (the implicit return the typechecker appends to @is_you)
          [] st.k = "try" ->
                WithVal(RunTry(st.body, s, FALSE),
                        LAMBDA r : IF r.res # "defeat" THEN RunYou(T, r.s)
                                   ELSE IF st.kind = "undo" THEN RunYou(st.handler \o T, s)
                                   ELSE RunYou(st.handler \o T, RunTry(st.body, s, TRUE).s))

Declarative(c) ==
   LET src == MCSources[MCCases[c].src]
       main == src.funcs[src.main]
       s0 == [x |-> MCCases[c].g0[1], p |-> MCCases[c].frame0[1], out |-> <<>>]
   IN RunYou(main.body, s0).out \o <<HEv("f", <<1>>)>>

TTSpec == HInit /\ [][HStep]_hvars
TTAgree == h.st # "run" => (h.st = "ended" /\ h.out = Declarative(hcase))
=============================================================================
