"""Design-level model check: HiDSem's backtracking (choice stack) == the declarative prophecy semantics of
TimeTravel.tla on the enumerated time-travel core (no calls)."""
import os, sys, random
from . import common, tlc, ir, fam_tt

LEAVES = ['o', 's1', 's2', 'd', 't0', 't1']


def programs(n, tier):
    out = []
    B = fam_tt.bodies(n, 2, LEAVES)
    hs = [(), (('o',),), (('s1',), ('o',))]
    for b in B:
        if not b:
            continue
        for kind in ('undo', 'stop'):
            for h in hs:
                r = fam_tt.R()
                out.append("int x = 0;\nempty @is_you(int x0) { x = x0; write('<'); %s write('>'); write(x); }" %
                           fam_tt.render_try(kind, b, h, r))
    small = fam_tt.bodies(2, 1, LEAVES)
    pairs = [(a, ka, b, kb) for a in small if a for ka in ('undo', 'stop') for b in small if b for kb in ('undo', 'stop')]
    rnd = random.Random(7)
    rnd.shuffle(pairs)
    for a, ka, b, kb in pairs[:400 if tier == 'quick' else 4000]:
        r = fam_tt.R()
        out.append("int x = 0;\nempty @is_you(int x0) { x = x0; %s write('|'); %s write('>'); write(x); }" % (
            fam_tt.render_try(ka, a, (('o',),), r), fam_tt.render_try(kb, b, (('s2',), ('o',)), r)))
    return out


def run(n=3, tier='quick', timeout=1500, mutate=None):
    d = common.scratch('ttmc_')
    try:
        srcs = programs(n, tier)
        sources, cases = [], []
        for src in srcs:
            tr = ir.Translator(src, w=2)
            sources.append(tr.source_record())
            for x0 in ('0', '1'):
                cases.append(ir.case_record(tr, len(sources), [x0]))
        with open(os.path.join(d, 'BatchData.tla'), 'w') as f:
            f.write('---- MODULE BatchData ----\nEXTENDS SphinxCode, HiDIR\nMCProgs == <<>>\nMCSources == %s\nMCCases == %s\n====\n'
                    % (tlc.tla(sources), tlc.tla(cases)))
        spec = open(os.path.join(common.SPEC, 'TimeTravel.tla')).read()
        if mutate:
            with open(os.path.join(d, 'HiDSem.tla'), 'w') as f:
                f.write(mutate(open(os.path.join(common.SPEC, 'HiDSem.tla')).read()))
        with open(os.path.join(d, 'TTMC.tla'), 'w') as f:
            f.write('---- MODULE TTMC ----\nEXTENDS TimeTravel\n====\n')
        with open(os.path.join(d, 'TTMC.cfg'), 'w') as f:
            f.write('SPECIFICATION TTSpec\nCONSTANTS W = 2\n MaxAlloc = 16\nINVARIANT TTAgree\n')
        r = tlc.run(d, 'TTMC', timeout=timeout)
        return r, len(srcs)
    finally:
        common.rm(d)


if __name__ == '__main__':
    n = int(sys.argv[1]) if len(sys.argv) > 1 else 3
    r, k = run(n, 'quick' if n <= 3 else 'thorough')
    print('programs=%d runs=%d distinct=%d ok=%s wall=%.1f %s' % (k, 2 * k, r.distinct, r.ok, r.wall, (r.errors + r.violated)[:3]))
    if not r.ok:
        print(r.out[-3000:])
        sys.exit(1)
