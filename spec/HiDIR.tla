------------------------------- MODULE HiDIR -------------------------------
(* Constructors of the source-level intermediate representation consumed by HiDSem.tla (DESIGN App. B). *)
(* A program is a record [funcs, main]; a function [name, nparams, nslots, preemptive, hasret, body];    *)
(* statements and expressions are records tagged by `k`.  Every implicit coercion of the source is an   *)
(* explicit `cast` node; every variable reference is resolved to a frame slot or a global index.         *)
(* Generated batch modules are built from these constructors only (hv/ir.py).                            *)
EXTENDS Integers, Sequences

\* ---------------------------------------------------------------- expressions (each leaves one value)
Lit(w) == [k |-> "lit", v |-> w]                        \* w: a word (tuple of W bytes)
Str(id) == [k |-> "str", id |-> id]                     \* index into the case's string table
Loc(slot) == [k |-> "loc", slot |-> slot]
Glob(idx) == [k |-> "glob", idx |-> idx]
Un(op, a) == [k |-> "un", op |-> op, a |-> a]           \* neg pos not
Bin(op, a, b) == [k |-> "bin", op |-> op, a |-> a, b |-> b]     \* add sub mul div mod
Cmp(op, a, b) == [k |-> "cmp", op |-> op, a |-> a, b |-> b]     \* eq ne lt gt le ge
AndE(a, b) == [k |-> "and", a |-> a, b |-> b]
OrE(a, b) == [k |-> "or", a |-> a, b |-> b]
Cast(op, a) == [k |-> "cast", op |-> op, a |-> a]       \* i2b b2i tobool strbool arrbool str2arr ident
Idx(sk, src, i) == [k |-> "idx", sk |-> sk, src |-> src, i |-> i]          \* sk: "arr" / "str"
LenOf(sk, a) == [k |-> "len", sk |-> sk, a |-> a]
Call(f, args) == [k |-> "call", f |-> f, args |-> args]
Bi(name, nl, args) == [k |-> "bi", name |-> name, nl |-> nl, args |-> args]   \* builtin; nl: append newline
ArrLit(el, ro, elems) == [k |-> "arrlit", el |-> el, ro |-> ro, elems |-> elems]
SpecE(a, b) == [k |-> "spec", a |-> a, b |-> b]          \* a ?? b

\* ---------------------------------------------------------------- statements
Decl(slot, e) == [k |-> "decl", slot |-> slot, e |-> e]
Vla(slot, el, len) == [k |-> "vla", slot |-> slot, el |-> el, len |-> len]
Assign(tk, idx, e) == [k |-> "assign", tk |-> tk, idx |-> idx, e |-> e]    \* tk: "loc" / "glob"
AssignIdx(el, op, arr, i, e) == [k |-> "assignIdx", el |-> el, op |-> op, arr |-> arr, i |-> i, e |-> e]
ExprS(e) == [k |-> "expr", e |-> e]
IfS(c, a, b) == [k |-> "if", c |-> c, a |-> a, b |-> b]
Loop(id, c, body, step) == [k |-> "loop", id |-> id, c |-> c, body |-> body, step |-> step]
Break == [k |-> "break"]
Continue == [k |-> "continue"]
Return0 == [k |-> "return", has |-> FALSE]
Return1(e) == [k |-> "return", has |-> TRUE, e |-> e]
Block(body) == [k |-> "block", body |-> body]
Try(kind, body, handler) == [k |-> "try", kind |-> kind, body |-> body, handler |-> handler]   \* undo / stop
Preempt(body) == [k |-> "preempt", body |-> body]

Func(name, nparams, nslots, preemptive, hasret, body) ==
   [name |-> name, nparams |-> nparams, nslots |-> nslots, preemptive |-> preemptive, hasret |-> hasret, body |-> body]

\* an array in the store: element type, elements (words; <<>> = never written), read-only flag
Arr(el, ro, d) == [el |-> el, ro |-> ro, d |-> d]
=============================================================================
