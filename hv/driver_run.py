"""Driving the real compiler and recording one event trace per compilation (spec/Driver.tla).

Three recorders (field `mode` of the trace):
  run_api   the harness calls SourceCode.from_string / parse / evaluate / CodeGen / gen_lines itself;
  run_main  hidc.__main__.main() is called in-process with probes on the names it uses;
  run_cli   the real command line `python -m hidc ...` in a subprocess (black box).
A trace is a tuple of events (k, r, n, s, x) exactly as Driver.tla reads them; nothing here decides a
verdict: the recorders only encode what happened (which phase ended how, spans, line lengths, counts,
digests, whether hv.sasm accepted the text).  `info` carries free-form details for reports/classifiers.
"""
import contextlib, hashlib, io, os, re, subprocess, sys, traceback

from . import common, sasm

MAX_NEST = 30          # the property is about inputs of bounded nesting depth (DESIGN C10)
OLD_CONTENT = b'; stale output from an earlier run\n'


def ev(k, r='', n=0, s=(), x=''):
    return (k, r, n, s, x)


def opts(m=16, s=500, unchecked=False, lint=False, dump=False, out='fresh', inp='file'):
    return (('m', m), ('s', s), ('unchecked', unchecked), ('lint', lint), ('dump', dump), ('out', out),
            ('inp', inp))


# ------------------------------------------------------------------ scope: nesting depth
_OPENERS = re.compile(r'[(\[{]|\b(?:if|else|while|for|try|undo|stop|preempt|not|is)\b|[-+~!]|\?\?')


def nesting_bound(text):
    """An upper bound on the nesting depth of `text`: the number of tokens that can open a nesting level
    (brackets, block keywords, prefix operators).  Inputs whose bound exceeds MAX_NEST are outside the
    property when (and only when) they end in RecursionError."""
    if isinstance(text, bytes):
        text = text.decode('latin-1')
    return len(_OPENERS.findall(text))


# ------------------------------------------------------------------ helpers
def _spans(err):
    out = []
    for sp in getattr(err, 'context', ()):
        try:
            out.append((int(sp.start.line), int(sp.start.col), int(sp.end.line), int(sp.end.col)))
        except Exception:
            out.append((-1, -1, -1, -1))
    return tuple(out)


def _site(err):
    """innermost frame inside the hidc package: (function, file:line) — for classifiers only."""
    tb = traceback.extract_tb(err.__traceback__)
    for fr in reversed(tb):
        fn = fr.filename.replace('\\', '/')
        if '/hidc/' in fn:
            return fr.name, '%s:%d' % (fn.split('/hidc/', 1)[1], fr.lineno)
    if tb:
        return tb[-1].name, '%s:%d' % (os.path.basename(tb[-1].filename), tb[-1].lineno)
    return '?', '?'


def _escape_info(info, phase, err):
    fn, where = _site(err)
    info['escape'] = {'phase': phase, 'exc': type(err).__name__, 'site': fn, 'where': where,
                      'msg': str(err)[:200]}


def asm_args(lines):
    """command-line arguments satisfying the %argv line of an assembly text"""
    args = []
    for l in lines[:3]:
        t = l.decode('utf-8', 'replace') if isinstance(l, (bytes, bytearray)) else l
        if t.startswith('%argv'):
            for spec in t.split()[1:]:
                args += ['0', '1'] if spec.startswith('[') else ['0']
    return args


_ZERO = re.compile(rb'^(\s*)\.zero (\d+)w\s*$')


def assembles(lines):
    """-> (True, '') or (False, message): does hv.sasm accept the text?  A stack reservation above 2^20
    bytes is shrunk first (identical directive syntax; sasm would otherwise allocate the image)."""
    lines = list(lines)
    word = 2
    for idx, l in enumerate(lines):
        if not isinstance(l, (bytes, bytearray)):
            return False, 'line %d is %s, not bytes' % (idx, type(l).__name__)
        if l.startswith(b'%format word '):
            try:
                word = int(l.split()[2])
            except ValueError:
                pass
        m = _ZERO.match(l)
        if m and int(m.group(2)) * max(word, 1) > (1 << 20):
            lines[idx] = m.group(1) + b'.zero 64w'
    try:
        sasm.assemble(lines, asm_args(lines))
    except sasm.AsmError as e:
        return False, 'AsmError: %s' % e
    except RecursionError as e:
        return False, 'RecursionError in sasm'
    except Exception as e:       # malformed beyond what sasm anticipates (e.g. undecodable line)
        return False, '%s: %s' % (type(e).__name__, e)
    return True, ''


def _digest_lines(lines):
    h = hashlib.sha1()
    for l in lines:
        h.update(l)
        h.update(b'\n')
    return h.hexdigest()[:16]


_hidc = None


def hidc():
    """import the compiler under test once per process"""
    global _hidc
    if _hidc is None:
        common.use_repo()
        import hidc.lexer, hidc.parser, hidc.ast, hidc.codegen, hidc.errors  # noqa
        import importlib
        _hidc = {
            'SourceCode': hidc.lexer.SourceCode, 'parse': hidc.parser.parse,
            'Environment': hidc.ast.Environment, 'CodeGen': hidc.codegen.CodeGen,
            'CompilerError': hidc.errors.CompilerError,
            'main': importlib.import_module('hidc.__main__'),
        }
    return _hidc


class OutOfScope(Exception):
    """RecursionError on an input whose nesting bound exceeds MAX_NEST"""


# ------------------------------------------------------------------ api mode
def _phase(events, info, kind, fn, text, CompilerError):
    """run one compiler phase; -> (ok, value_or_error)"""
    try:
        val = fn()
    except CompilerError as e:
        events.append(ev(kind, 'error', 0, _spans(e), ''))
        info['error'] = {'phase': kind, 'type': type(e).__name__, 'msg': str(e)[:200]}
        return False, e
    except RecursionError as e:
        if nesting_bound(text) > MAX_NEST:
            raise OutOfScope()
        events.append(ev(kind, 'escape', 0, (), 'RecursionError'))
        _escape_info(info, kind, e)
        return False, None
    except Exception as e:
        events.append(ev(kind, 'escape', 0, (), type(e).__name__))
        _escape_info(info, kind, e)
        return False, None
    events.append(ev(kind, 'ok'))
    return True, val


def _render(events, info, err, source):
    try:
        txt = err.get_info(source)
        ok = isinstance(txt, str)
    except Exception as e:
        events.append(ev('render', 'escape', 0, (), type(e).__name__))
        _escape_info(info, 'render', e)
        return
    events.append(ev('render', 'ok' if ok else 'notext'))


def run_api(src, m=16, s=500, unchecked=False, lint=False, want_lines=False):
    """-> (trace, info).  `m` is the word size in bits as on the command line (w = m // 8)."""
    H = hidc()
    CE = H['CompilerError']
    info = {}
    events = [ev('start', 'api', 0, opts(m, s, unchecked, lint), '')]
    source = H['SourceCode'].from_string(src)
    events.append(ev('read', 'ok', 0, tuple(len(l) for l in source.lines), ''))
    env = H['Environment'].empty(unreachable_error=lint)
    box = {}
    steps = (('parse', lambda: box.__setitem__('prog', H['parse'](source))),
             ('check', lambda: box['prog'].evaluate(env)),
             ('codegen', lambda: box.__setitem__('cg', H['CodeGen'](env, m // 8, s, unchecked))),
             ('gen', lambda: box.__setitem__('lines', list(box['cg'].gen_lines()))))
    for kind, fn in steps:
        ok, err = _phase(events, info, kind, fn, src, CE)
        if not ok:
            if err is not None:
                _render(events, info, err, source)
            return tuple(events), info
    lines = box['lines']
    events[-1] = ev('gen', 'ok', len(lines))
    good, msg = assembles(lines)
    events.append(ev('asm', 'ok' if good else 'error'))
    if not good:
        info['asm_error'] = msg
    else:
        info['digest'] = _digest_lines(lines)
    if want_lines:
        info['lines'] = lines
    return tuple(events), info


# ------------------------------------------------------------------ main mode (in-process, probed)
class _Rec:
    def __init__(self):
        self.events = []
        self.info = {}
        self.source = None
        self.expect = None
        self.text = ''


class _SourceCodeProbe:
    def __init__(self, real, rec):
        self._real, self._rec = real, rec

    def from_file(self, filename):
        rec = self._rec
        try:
            src = self._real.from_file(filename)
        except OSError:
            rec.events.append(ev('read', 'oserror'))
            raise
        except Exception as e:
            # from_file is not one of parse/evaluate/CodeGen/gen_lines: what matters is what main() makes of
            # it (Driver.tla R2) — a decoding error that main() reports is legal, a traceback is not
            rec.events.append(ev('read', 'decode_error' if isinstance(e, UnicodeError) else 'escape', 0, (),
                                 type(e).__name__))
            _escape_info(rec.info, 'read', e)
            raise
        rec.source = src
        rec.events.append(ev('read', 'ok', 0, tuple(len(l) for l in src.lines), ''))
        return src

    def __getattr__(self, name):
        return getattr(self._real, name)


def _probe_call(rec, kind, fn, CE):
    try:
        val = fn()
    except CE as e:
        rec.events.append(ev(kind, 'error', 0, _spans(e), ''))
        rec.info['error'] = {'phase': kind, 'type': type(e).__name__, 'msg': str(e)[:200]}
        raise
    except RecursionError as e:
        if nesting_bound(rec.text) > MAX_NEST:
            rec.info['out_of_scope'] = True
        rec.events.append(ev(kind, 'escape', 0, (), 'RecursionError'))
        _escape_info(rec.info, kind, e)
        raise
    except Exception as e:
        rec.events.append(ev(kind, 'escape', 0, (), type(e).__name__))
        _escape_info(rec.info, kind, e)
        raise
    return val


class _ProgramProbe:
    def __init__(self, prog, rec, CE):
        self._prog, self._rec, self._CE = prog, rec, CE

    def evaluate(self, env):
        val = _probe_call(self._rec, 'check', lambda: self._prog.evaluate(env), self._CE)
        self._rec.events.append(ev('check', 'ok'))
        return val


class _CodeGenProbe:
    def __init__(self, cg, rec, CE):
        self._cg, self._rec, self._CE = cg, rec, CE

    def gen_lines(self):
        rec = self._rec
        n = 0
        h = hashlib.sha1()
        try:
            for line in self._cg.gen_lines():
                n += 1
                h.update(line)
                h.update(b'\n')
                yield line
        except self._CE as e:
            rec.events.append(ev('gen', 'error', n, _spans(e), ''))
            raise
        except GeneratorExit:
            raise
        except Exception as e:
            rec.events.append(ev('gen', 'escape', n, (), type(e).__name__))
            _escape_info(rec.info, 'gen', e)
            raise
        rec.expect = h.hexdigest()[:16]
        rec.events.append(ev('gen', 'ok', n))

    def __getattr__(self, name):
        return getattr(self._cg, name)


class _FileProbe:
    def __init__(self, f, rec):
        self._f, self._rec, self._nl, self._closed = f, rec, 0, False

    def write(self, data):
        self._nl += bytes(data).count(b'\n')
        return self._f.write(data)

    def close(self):
        self._f.close()
        if not self._closed:
            self._closed = True
            self._rec.events.append(ev('close', 'ok', self._nl))

    def __enter__(self):
        return self

    def __exit__(self, *exc):
        self.close()
        return False

    def __getattr__(self, name):
        return getattr(self._f, name)


def _classify_stderr(text):
    if not text.strip():
        return 'none'
    if 'Traceback (most recent call last)' in text:
        return 'traceback'
    if text.lstrip().startswith('usage:'):
        return 'usage'
    return 'diag'


def _classify_stdout(text, outpath):
    t = text.strip()
    if not t:
        return 'none'
    if t.startswith('Program('):
        return 'ast'
    if '\n' not in t and outpath and outpath in t:
        return 'msg'
    return 'other'


def _file_facts(outpath, before, old=OLD_CONTENT):
    """-> (event 'file', content or None)"""
    if outpath is None or not os.path.exists(outpath):
        return ev('file', 'absent'), None
    if os.path.isdir(outpath):
        return ev('file', 'unchanged' if before == 'existing' else 'absent'), None
    with open(outpath, 'rb') as f:
        data = f.read()
    if before == 'existing' and data == old:
        return ev('file', 'unchanged', 0, (), hashlib.sha1(data).hexdigest()[:16]), data
    return ev('file', 'written', 1 if data.endswith(b'\n') else 0, (), hashlib.sha1(data).hexdigest()[:16]), data


def prepare_paths(workdir, name, src_bytes, o):
    """create the input/output situation described by the options; -> (input_path, output_path, argv)"""
    od = dict(o)
    inp = os.path.join(workdir, name + '.hid')
    if od['inp'] in ('file', 'undecodable'):
        with open(inp, 'wb') as f:
            f.write(src_bytes)
    elif od['inp'] == 'dir':
        os.mkdir(inp)
    # 'missing': nothing
    argv = [inp]
    if od['out'] == 'default':
        outp = inp + '.s'
    elif od['out'] == 'unwritable':
        outp = os.path.join(workdir, name + '_nodir', 'out.s')
        argv += ['-o', outp]
    else:
        outp = os.path.join(workdir, name + '.out.s')
        argv += ['-o', outp]
        if od['out'] == 'existing':
            with open(outp, 'wb') as f:
                f.write(OLD_CONTENT)
    if od['m'] != 16 or od.get('explicit'):
        argv += ['-m', str(od['m'])]
    if od['s'] != 500:
        argv += ['-s', str(od['s'])]
    if od['unchecked']:
        argv.append('--unchecked')
    if od['lint']:
        argv.append('--lint')
    if od['dump']:
        argv.append('--dump-ast')
    return inp, outp, argv


def cleanup_paths(inp, outp):
    for p in (inp, outp):
        try:
            if os.path.isdir(p):
                os.rmdir(p)
            elif os.path.exists(p):
                os.remove(p)
        except OSError:
            pass


def run_main(src_bytes, o, workdir, name='case'):
    """hidc.__main__.main() in this process with probes.  -> (trace, info)"""
    H = hidc()
    M = H['main']
    CE = H['CompilerError']
    rec = _Rec()
    rec.text = src_bytes
    od = dict(o)
    inp, outp, argv = prepare_paths(workdir, name, src_bytes, o)
    rec.events.append(ev('start', 'main', 0, o, ''))
    rec.events.append(ev('args', 'usage' if (od['m'] % 8 != 0 or od['m'] < 0) else 'ok'))   # see below

    real_get_info = CE.get_info

    def p_get_info(self, source):
        try:
            txt = real_get_info(self, source)
        except Exception as e:
            rec.events.append(ev('render', 'escape', 0, (), type(e).__name__))
            _escape_info(rec.info, 'render', e)
            raise
        rec.events.append(ev('render', 'ok' if isinstance(txt, str) else 'notext'))
        return txt

    def p_parse(source, *a, **k):
        prog = _probe_call(rec, 'parse', lambda: H['parse'](source, *a, **k), CE)
        rec.events.append(ev('parse', 'ok'))
        return _ProgramProbe(prog, rec, CE)

    def p_codegen(*a, **k):
        cg = _probe_call(rec, 'codegen', lambda: H['CodeGen'](*a, **k), CE)
        rec.events.append(ev('codegen', 'ok'))
        return _CodeGenProbe(cg, rec, CE)

    def p_open(path, mode='r', *a, **k):
        try:
            f = open(path, mode, *a, **k)
        except OSError:
            rec.events.append(ev('open', 'oserror'))
            raise
        rec.events.append(ev('open', 'ok'))
        return _FileProbe(f, rec)

    saved = {n: getattr(M, n, None) for n in ('SourceCode', 'parse', 'CodeGen')}
    had_open = 'open' in vars(M)
    M.SourceCode = _SourceCodeProbe(H['SourceCode'], rec)
    M.parse = p_parse
    M.CodeGen = p_codegen
    M.open = p_open
    CE.get_info = p_get_info
    out, err = io.StringIO(), io.StringIO()
    old_argv = sys.argv
    sys.argv = ['hidc'] + argv
    tb = ''
    try:
        with contextlib.redirect_stdout(out), contextlib.redirect_stderr(err):
            try:
                rc = M.main()
                code = 0 if rc is None else rc if isinstance(rc, int) else 1
            except SystemExit as e:
                code = 0 if e.code is None else e.code if isinstance(e.code, int) else 1
            except BaseException as e:   # what the interpreter would do with it: traceback, status 1
                if isinstance(e, KeyboardInterrupt):
                    raise
                code = 1
                tb = 'Traceback (most recent call last):\n  ...\n%s: %s\n' % (type(e).__name__, e)
    finally:
        sys.argv = old_argv
        CE.get_info = real_get_info
        for n, v in saved.items():
            setattr(M, n, v)
        if not had_open:
            del M.open
    # the `args` event: main() validates -m itself; what it did is visible from what followed
    first_phase = next((e for e in rec.events[2:]), None)
    usage_before_read = first_phase is None or first_phase[0] not in ('read',)
    rec.events[1] = ev('args', 'usage' if usage_before_read else 'ok')
    etext = err.getvalue() + tb
    rec.events.append(ev('stderr', _classify_stderr(etext)))
    rec.events.append(ev('stdout', _classify_stdout(out.getvalue(), outp)))
    rec.events.append(ev('exit', '', code))
    fev, data = _file_facts(outp, od['out'])
    rec.events.append(fev)
    rec.events.append(ev('expect', 'ok', 0, (), rec.expect) if rec.expect else ev('expect', 'none'))
    if code == 0 and data is not None and fev[1] == 'written' and not od['dump']:
        good, msg = assembles(data.split(b'\n')[:-1] if data.endswith(b'\n') else data.split(b'\n'))
        rec.events.append(ev('asm', 'ok' if good else 'error'))
        if not good:
            rec.info['asm_error'] = msg
    else:
        rec.events.append(ev('asm', 'skipped'))
    rec.info['stderr'] = etext[-600:]
    rec.info['argv'] = argv
    cleanup_paths(inp, outp)
    if rec.info.get('out_of_scope'):
        raise OutOfScope()
    return tuple(rec.events), rec.info


# ------------------------------------------------------------------ cli mode (subprocess, black box)
def cli_env(hashseed=None):
    env = dict(os.environ)
    env['PYTHONPATH'] = common.REPO
    env['PYTHONDONTWRITEBYTECODE'] = '1'
    env.pop('PYTHONHASHSEED', None)
    if hashseed is not None:
        env['PYTHONHASHSEED'] = str(hashseed)
    return env


def run_cli(src_bytes, o, workdir, name='case', timeout=120):
    """python -m hidc in a subprocess.  -> (trace, info)"""
    od = dict(o)
    inp, outp, argv = prepare_paths(workdir, name, src_bytes, o)
    info = {'argv': argv}
    events = [ev('start', 'cli', 0, o, '')]
    try:
        p = subprocess.run([sys.executable, '-m', 'hidc'] + argv, cwd=workdir, env=cli_env(),
                           stdout=subprocess.PIPE, stderr=subprocess.PIPE, timeout=timeout)
    except subprocess.TimeoutExpired:
        cleanup_paths(inp, outp)
        raise common.Machinery('python -m hidc timed out on %r' % (argv,))
    etext = p.stderr.decode('utf-8', 'replace')
    events.append(ev('stderr', _classify_stderr(etext)))
    events.append(ev('stdout', _classify_stdout(p.stdout.decode('utf-8', 'replace'), outp)))
    events.append(ev('exit', '', p.returncode))
    fev, data = _file_facts(outp, od['out'])
    events.append(fev)
    # what the generator produces for this file and these options (second recording, API in-process)
    expect = None
    if od['inp'] in ('file', 'undecodable') and not (od['m'] % 8 != 0 or od['m'] < 0):
        H = hidc()
        try:
            source = H['SourceCode'].from_file(inp)
            env = H['Environment'].empty(unreachable_error=od['lint'])
            H['parse'](source).evaluate(env)
            expect = _digest_lines(H['CodeGen'](env, od['m'] // 8, od['s'], od['unchecked']).gen_lines())
        except Exception:
            expect = None
    events.append(ev('expect', 'ok', 0, (), expect) if (expect and p.returncode == 0 and not od['dump'])
                  else ev('expect', 'none'))
    if p.returncode == 0 and data is not None and fev[1] == 'written' and not od['dump']:
        good, msg = assembles(data.split(b'\n')[:-1] if data.endswith(b'\n') else data.split(b'\n'))
        events.append(ev('asm', 'ok' if good else 'error'))
        if not good:
            info['asm_error'] = msg
    else:
        events.append(ev('asm', 'skipped'))
    info['stderr'] = etext[-600:]
    if 'RecursionError' in etext and nesting_bound(src_bytes) > MAX_NEST:
        cleanup_paths(inp, outp)
        raise OutOfScope()
    m = re.search(r'^(\w+(?:\.\w+)*(?:Error|Exception|Interrupt)\b).*$', etext, re.M) if 'Traceback' in etext else None
    if m:
        site = re.findall(r'File ".*?/hidc/(.*?)", line (\d+), in (\w+)', etext)
        info['escape'] = {'phase': 'cli', 'exc': m.group(1).split('.')[-1],
                          'site': site[-1][2] if site else '?',
                          'where': '%s:%s' % (site[-1][0], site[-1][1]) if site else '?'}
    cleanup_paths(inp, outp)
    return tuple(events), info
