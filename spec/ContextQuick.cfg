\* C06: exhaustive enumeration of every nesting path with 3 frames below the root
CONSTANTS
    MaxDepth = 3
    Emit = TRUE
INIT Init
NEXT Next
INVARIANTS TypeOK FlagsMatchPath EmitLeaf
