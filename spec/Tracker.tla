------------------------------ MODULE Tracker ------------------------------
(***************************************************************************)
(* The stack-guard bookkeeping of `hidc.codegen.tracker.Tracker`           *)
(* (property C04: the function-entry stack guard, and every VLA guard,     *)
(* must cover the maximum static frame size reached later in the same      *)
(* block).                                                                 *)
(*                                                                         *)
(* WHAT THE GENERATOR RELIES ON (hidc/codegen/generator.py)                *)
(*  R1 gen_func: a fresh Tracker per function; the entry guard             *)
(*       `Hgeu r1, checkpoints.add(stack.static_size)` is created in the   *)
(*       root level and the root level is popped at the end of gen_func.   *)
(*  R2 gen_block(CodeBlock): push_level() ... pop_level() around the       *)
(*       statements of every code block (well nested).                     *)
(*  R3 ArrayInitializer (VLA): `checkpoints.add(stack.static_size)         *)
(*       .map(lambda max_size: max_size - cur_static_array)` is created in *)
(*       the level of the enclosing block; DynamicValue.finalize applies   *)
(*       the maps to the value the tracker finalises (asm.py).             *)
(*  R4 reserve_byte / reserve_word / create_new_stack_array call           *)
(*       `checkpoints.update(stack.static_size)` each time the static      *)
(*       frame grows (the same value may be passed again after a block     *)
(*       has shrunk the frame: update never lowers anything).              *)
(*                                                                         *)
(* SPECIFIED MEANING (action names = method names)                         *)
(*  M1 Add(v) creates a guard, in the innermost open level, whose value is *)
(*     not yet known.                                                      *)
(*  M2 PopLevel finalises the guards of the innermost level.  A guard is   *)
(*     finalised to max(v, every value passed to Update after its Add and  *)
(*     before the pop of its level) - updates made inside nested levels    *)
(*     that were pushed and popped in between count too.  (`Meaning`       *)
(*     below states this over the recorded history; the machine keeps a    *)
(*     running maximum per live guard and TLC checks that both agree in    *)
(*     every reachable state: invariant MeaningInv.)                       *)
(*  M3 Popping the root level finalises the root guards and leaves a fresh *)
(*     empty root level (tracker.py: `if not self.levels: push_level()`).  *)
(*     In the enumerated sequences the root pop is only the closing step   *)
(*     (R1: the generator throws the tracker away afterwards).             *)
(*  M4 A guard created with a map m (R3) is finalised to m(maximum).       *)
(*     Cases use the generator's own two kinds: odd-numbered guards        *)
(*     (1st, 3rd ...) are entry style (no map), even-numbered guards are   *)
(*     VLA style with map  max |-> max - v  (v = the value given to Add,   *)
(*     playing the role of cur_static_array <= static_size).               *)
(*                                                                         *)
(* CASES.  Every operation sequence of length <= MaxLen over sizes         *)
(* 0..MaxSize with explicit PopLevel only at depth > 1, whose last         *)
(* operation is Add or Update, implicitly followed by the closing pops of  *)
(* all open levels and of the root level (so every guard is finalised).    *)
(* (A sequence ending in PushLevel / PopLevel plus the closing pops        *)
(* finalises exactly what its prefix plus closing pops finalises, so it    *)
(* is explored as a prefix but is not a case of its own.)                  *)
(* The TLC states are the sequences of length <= MaxLen - Look.  Every     *)
(* state prints the expected results of its Add(v) / Update(v) extensions, *)
(* and a state of length MaxLen - Look also those of all its extensions by *)
(* up to Look operations (so the long cases, 99% of them, need no state    *)
(* and no print call of their own - both are expensive in this sandbox):   *)
(*    <<"TR", c1, e1, c2, e2, ...>>   one (c, e) pair per case             *)
(* c = the case's operations as a decimal number, leading 1 then one digit *)
(* per operation (Add v = v, Update v = 4 + v, PushLevel = 8, PopLevel =   *)
(* 9); e = leading 1 then one digit per guard in creation order = the      *)
(* finalised DynamicValue._data of the case "operations + closing pops".   *)
(* (Numbers, not text: TLC interns every string it builds.)                *)
(*                                                                         *)
(* dontcare: none.                                                         *)
(***************************************************************************)
EXTENDS Naturals, Sequences, TLC

CONSTANTS MaxLen,    \* longest case (explicit operations); 1 <= MaxLen <= 8
          MaxSize,   \* sizes are 0 .. MaxSize, MaxSize <= 3
          Look,      \* how many operations beyond the longest state a case may extend (1 .. MaxLen)
          FirstOps,  \* operation codes allowed as the first operation (slices a big run)
          Emit       \* BOOLEAN: print the cases

ASSUME MaxSize \in 0 .. 3 /\ MaxLen \in 1 .. 8 /\ Look \in 1 .. MaxLen

VARIABLES ops,     \* history: sequence of operation codes
          depth,   \* number of open levels (the root level is 1)
          g        \* guards in creation order: <<cur, mx, lvl, born, died>>
                   \*   cur = value given to Add, mx = running maximum, lvl = depth of the level the
                   \*   guard lives in (0 once finalised), born/died = position in `ops` of its Add and
                   \*   of the PopLevel that finalised it (0 while live)

vars == <<ops, depth, g>>

Sizes == 0 .. MaxSize
CAdd(v) == v
CUpd(v) == 4 + v
CPush == 8
CPop == 9
Max2(a, b) == IF a >= b THEN a ELSE b
MaxOf(S) == CHOOSE x \in S : \A y \in S : y <= x

(* the bookkeeping itself *)
GAdd(gs, d, pos, v) == Append(gs, <<v, v, d, pos, 0>>)                                          \* M1
GUpd(gs, v) == [i \in DOMAIN gs |-> IF gs[i][3] = 0 THEN gs[i] ELSE [gs[i] EXCEPT ![2] = Max2(@, v)]]
GPop(gs, d, pos) == [i \in DOMAIN gs |-> IF gs[i][3] = d THEN [gs[i] EXCEPT ![3] = 0, ![5] = pos] ELSE gs[i]]

Init == /\ ops = <<>>
        /\ depth = 1
        /\ g = <<>>

(* states are the prefixes of length <= MaxLen - Look: longer cases are evaluated by EmitInv of their prefix *)
Allowed(c) == Len(ops) < MaxLen - Look /\ (Len(ops) = 0 => c \in FirstOps)

Add(v) ==
    /\ Allowed(CAdd(v))
    /\ ops' = Append(ops, CAdd(v))
    /\ g' = GAdd(g, depth, Len(ops) + 1, v)
    /\ UNCHANGED depth

Update(v) ==
    /\ Allowed(CUpd(v))
    /\ ops' = Append(ops, CUpd(v))
    /\ g' = GUpd(g, v)
    /\ UNCHANGED depth

PushLevel ==
    /\ Allowed(CPush)
    /\ ops' = Append(ops, CPush)
    /\ depth' = depth + 1
    /\ UNCHANGED g

PopLevel ==
    /\ Allowed(CPop)
    /\ depth > 1                            \* M3: the root pop is the closing step only
    /\ ops' = Append(ops, CPop)
    /\ g' = GPop(g, depth, Len(ops) + 1)                                                       \* M2
    /\ depth' = depth - 1

Next == \/ \E v \in Sizes : Add(v)
        \/ \E v \in Sizes : Update(v)
        \/ PushLevel
        \/ PopLevel

Spec == Init /\ [][Next]_vars

-----------------------------------------------------------------------------
(* value a guard is finalised to (M2, M4).  The closing pops do not change any running maximum, so the
   expected finalised values of the case "history + closing pops" are the current ones. *)
IsVla(i) == i % 2 = 0
Final(gs, i) == IF IsVla(i) THEN gs[i][2] - gs[i][1] ELSE gs[i][2]

RECURSIVE EncF(_, _, _)
EncF(gs, i, acc) == IF i > Len(gs) THEN acc ELSE EncF(gs, i + 1, acc * 10 + Final(gs, i))
E(gs) == EncF(gs, 1, 1)

RECURSIVE EncH(_, _, _)
EncH(h, i, acc) == IF i > Len(h) THEN acc ELSE EncH(h, i + 1, acc * 10 + h[i])
H == EncH(ops, 1, 1)

RECURSIVE Cat(_, _)                     \* concatenation of a sequence of sequences
Cat(ss, i) == IF i > Len(ss) THEN <<>> ELSE ss[i] \o Cat(ss, i + 1)

(* the (c, e) pairs of every case that extends the history (code hc, length n, bookkeeping gs, depth d) by
   1 .. k operations; at the very beginning only by operations in FirstOps *)
RECURSIVE Cases(_, _, _, _, _)
Cases(gs, d, hc, n, k) ==
    LET ok(c) == n > 0 \/ c \in FirstOps
        adds == Cat([j \in 1 .. MaxSize + 1 |->
                       IF ok(CAdd(j - 1)) THEN <<hc * 10 + CAdd(j - 1), E(GAdd(gs, d, n + 1, j - 1))>> ELSE <<>>], 1)
        upds == Cat([j \in 1 .. MaxSize + 1 |->
                       IF ok(CUpd(j - 1)) THEN <<hc * 10 + CUpd(j - 1), E(GUpd(gs, j - 1))>> ELSE <<>>], 1)
        deeper == IF k <= 1 THEN <<>> ELSE
                    Cat([j \in 1 .. MaxSize + 1 |->
                          IF ok(CAdd(j - 1)) THEN Cases(GAdd(gs, d, n + 1, j - 1), d, hc * 10 + CAdd(j - 1), n + 1, k - 1)
                          ELSE <<>>], 1)
                    \o Cat([j \in 1 .. MaxSize + 1 |->
                          IF ok(CUpd(j - 1)) THEN Cases(GUpd(gs, j - 1), d, hc * 10 + CUpd(j - 1), n + 1, k - 1)
                          ELSE <<>>], 1)
                    \o (IF ok(CPush) THEN Cases(gs, d + 1, hc * 10 + CPush, n + 1, k - 1) ELSE <<>>)
                    \o (IF d > 1 /\ ok(CPop) THEN Cases(GPop(gs, d, n + 1), d - 1, hc * 10 + CPop, n + 1, k - 1) ELSE <<>>)
    IN adds \o upds \o deeper

(* printed once per distinct state (TLC evaluates invariants once on every new state) *)
EmitInv ==
    Emit => PrintT(<<"TR">> \o Cases(g, depth, H, Len(ops), IF Len(ops) = MaxLen - Look THEN Look ELSE 1))

-----------------------------------------------------------------------------
(* M2 stated over the history *)
Meaning(i) ==
    LET last == IF g[i][3] = 0 THEN g[i][5] - 1 ELSE Len(ops)
    IN MaxOf({g[i][1]} \cup {ops[j] - 4 : j \in {k \in (g[i][4] + 1) .. last : ops[k] \in 4 .. 7}})

MeaningInv == \A i \in DOMAIN g : g[i][2] = Meaning(i)

(* structure: live guards sit in an open level, finalised ones carry the position of their pop *)
StructInv ==
    /\ depth >= 1
    /\ \A i \in DOMAIN g : /\ g[i][3] \in 0 .. depth
                           /\ (g[i][3] = 0) = (g[i][5] # 0)
                           /\ g[i][5] # 0 => ops[g[i][5]] = CPop
                           /\ ops[g[i][4]] = CAdd(g[i][1])
=============================================================================
