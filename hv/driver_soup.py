"""Token soups for C10: TLC (spec/DriverSoup.tla) enumerates the token-index sequences, Python renders
them into program skeletons."""
import os, re

from . import common, tlc

ALPHABET = ['int', 'empty', 'x', '@is_you', '!f', '(', ')', '{', '}', '[', ']', ';', ',', '=', '+=', '+',
            '??', 'is', '1', '"s"', "'c'", 'try', 'undo', 'preempt', 'return', '.']

# skeleton holes: global scope, function body, expression position, body of a defeat function
HOLES = {
    'global': 'int g = 3;\n%s\nempty !f() { }\nempty @is_you() { }\n',
    'body':   'empty !f() { }\nempty @is_you() {\n    int x = 2;\n    %s\n}\n',
    'expr':   'empty !f() { }\nint h(int a) { return a; }\nempty @is_you() {\n    int x = 2;\n    int y = %s;\n}\n',
    'defeat': 'empty !f() {\n    int x = 2;\n    %s\n}\nempty @is_you() { try { !f(); } undo { } }\n',
}

_SP = re.compile(r'<<"SP", <<([\d, ]*)>>>>')


def enumerate_soups(full_len, extra=0, sample_mod=1, seed=0, timeout=600):
    """-> (list of index tuples, tlc result).  TLC is the enumerator."""
    d = common.scratch('hv_soup_')
    try:
        cfg = os.path.join(d, 'DriverSoup.cfg')
        with open(cfg, 'w') as f:
            f.write('INIT Init\nNEXT Next\nINVARIANT Emit\nCONSTANTS\n NTok = %d\n FullLen = %d\n Extra = %d\n'
                    ' SampleMod = %d\n SampleRes = %d\n' % (len(ALPHABET), full_len, extra, max(1, sample_mod),
                                                            seed % max(1, sample_mod)))
        with open(os.path.join(common.SPEC, 'DriverSoup.tla')) as f:
            text = f.read()
        with open(os.path.join(d, 'DriverSoup.tla'), 'w') as f:
            f.write(text)
        r = tlc.run(d, 'DriverSoup', cfg=cfg, timeout=timeout, tag='NOPRINTS')
        if not r.ok:
            raise common.Machinery('DriverSoup enumeration failed: %s %s' % (r.errors[:2], r.out[-800:]))
        seqs = [tuple(int(t) for t in m.split(',')) if m.strip() else () for m in _SP.findall(r.out)]
        return seqs, r
    finally:
        common.rm(d)


def render(hole, seq):
    return HOLES[hole] % ' '.join(ALPHABET[t - 1] for t in seq)
