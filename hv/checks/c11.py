"""C11  Expressions group by the documented precedence and associativity.

Every verdict is TLC's (spec/Precedence.tla):
  code -> spec   token strings are parsed by the real parser; the AST is serialised in the spec's tree
                 shape and written, next to the token string, into a generated module; TraceSpec runs the
                 spec's operator-precedence machine over the same tokens and compares trees
                 (PrintT(<<"HV", id, "MISMATCH", ...>>) per failing case, one tally per chunk).
  spec -> code   trees (exhaustive to a small depth, seeded random to depth 6) are printed with minimal
                 parentheses by the spec's Unparse (PrintSpec); the printed string goes through the real
                 parser; TraceSpec then requires  hidc(string) = machine(string) = tree  and
                 Unparse(tree) = string.
Python enumerates inputs, renders tokens as text, runs hidc and relays; it holds no parser and no printer.

  /venv/bin/python -m hv.check C11 --tier quick|thorough
  /venv/bin/python -m hv.checks.c11 --selftest        (mutants of a scratch copy of the repo + corrupted record)
"""
import concurrent.futures, itertools, json, os, random, re, subprocess, sys, time
from .. import common, tlc
from .. import prec_trees as PT
from .. import prec_hidc as PH

PROP = 'C11'
# several small JVMs run side by side: keep each one's GC / JIT thread pools small
os.environ.setdefault('JAVA_TOOL_OPTIONS', '-XX:ParallelGCThreads=2 -XX:CICompilerCount=2')
BATCH = 6000           # at most this many cases per generated module / TLC run (more runs when needed)
ACTIONS = ['Operand', 'Prefix', 'OpenParen', 'OpenArray', 'OpenCall', 'CloseEmpty', 'Reduce', 'Binary', 'IsCast',
           'OpenIndex', 'DotLength', 'CloseParen', 'CloseBracket', 'Comma', 'Finish', 'Reject', 'Judge', 'Summary']
CORRUPT = None         # self-test hook: function(cases) -> description, run just before TLC judges the records
ASSUMPTIONS = [
    'token strings are rendered as text by joining the token texts with single spaces (lexing is C12)',
    'only the parser runs (no typechecker): well-formed ill-typed strings such as a < b < c have trees',
    'dontcare (never a violation): a second `is` directly after `is <type>`; a `??` below another `??`',
]

MAX_REPORT = 40
PAR = 8                # TLC JVMs run side by side (SANY, which reads the generated module, is single-threaded)
TLC_WORKERS = 2
NCHUNKS = 64           # as in spec/Precedence*.cfg


class _Names:
    """Short names for the distinct tokens / leaves of a batch (keeps the generated module small)."""
    def __init__(self):
        self.tok, self.leaf = {}, {}

    def toks(self, toks):
        out = []
        for t in toks:
            n = self.tok.get(t)
            if n is None:
                n = self.tok[t] = 't%d' % (len(self.tok) + 1)
            out.append(n)
        return '<<' + ','.join(out) + '>>'

    def tree(self, t):
        if t is None:
            return 'Nil'
        k, v, c = t
        if not c and k in PT.LEAF_KINDS:
            n = self.leaf.get(t)
            if n is None:
                n = self.leaf[t] = 'l%d' % (len(self.leaf) + 1)
            return n
        q = PT._q
        if k == 'un':
            return 'Un(%s,%s)' % (q(v), self.tree(c[0]))
        if k == 'bin':
            return 'Bin(%s,%s,%s)' % (q(v), self.tree(c[0]), self.tree(c[1]))
        if k == 'is':
            return 'IsN(%s,%s)' % (q(v), self.tree(c[0]))
        if k == 'ix':
            return 'Ix(%s,%s)' % (self.tree(c[0]), self.tree(c[1]))
        if k == 'len':
            return 'Ln(%s)' % self.tree(c[0])
        if k == 'arr':
            return 'Arr(<<%s>>)' % ','.join(self.tree(x) for x in c)
        if k == 'call':
            return 'Call(%s,<<%s>>)' % (q(v), ','.join(self.tree(x) for x in c))
        raise ValueError('tree kind %r' % (k,))

    def header(self):
        lines = ['%s == %s' % (n, PT.tok_tla(t)) for t, n in self.tok.items()]
        lines += ['%s == %s' % (n, PT.tree_tla(t)) for t, n in self.leaf.items()]
        return '\n'.join(lines) + '\n'


def _write_module(d, name, cases, trees):
    nm = _Names()
    lines = []
    for c in cases:
        if c.get('rt'):
            lines.append('R(%s,"%s",%s,%s)' % (nm.toks(c['toks']), c['st'], nm.tree(c['tree']), nm.tree(c['orig'])))
        else:
            lines.append('C(%s,"%s",%s)' % (nm.toks(c['toks']), c['st'], nm.tree(c['tree'])))
    tlines = [nm.tree(t) for t in trees]
    with open(os.path.join(d, name + '.tla'), 'w') as f:
        f.write('---- MODULE %s ----\nEXTENDS Precedence\n' % name)
        f.write('C(tk, st, t) == [toks |-> tk, st |-> st, tree |-> t, rt |-> FALSE, orig |-> Nil]\n')
        f.write('R(tk, st, t, o) == [toks |-> tk, st |-> st, tree |-> t, rt |-> TRUE, orig |-> o]\n')
        f.write(nm.header())
        f.write('BatchCases == <<\n' + ',\n'.join(lines) + '>>\n')
        f.write('BatchTrees == <<\n' + ',\n'.join(tlines) + '>>\n====\n')


class Stats:
    def __init__(self):
        self.states = self.transitions = self.runs = 0
        self.wall = 0.0
        self.coverage = {}

    def add(self, r):
        self.states += r.distinct
        self.transitions += r.generated
        self.runs += 1
        self.wall += r.wall
        for k, (_d, n) in r.coverage.items():
            self.coverage[k] = self.coverage.get(k, 0) + n


def _tlc_batches(jobs, cfg, timeout, stats, coverage=False):
    """jobs: list of (cases, trees).  One generated module + one TLC run per job, PAR at a time."""
    def one(job):
        cases, trees = job
        d = common.scratch('c11_')
        try:
            _write_module(d, 'PrecBatch', cases, trees)
            r = tlc.run(d, 'PrecBatch', cfg=os.path.join(common.SPEC, cfg), timeout=timeout, coverage=coverage,
                        workers=TLC_WORKERS, heap='2g')
        finally:
            common.rm(d)
        if not r.ok:
            raise common.Machinery('TLC failed (%s): errors=%s violated=%s timed_out=%s\n%s' % (
                cfg, r.errors[:3], r.violated, r.timed_out, r.out[-1500:]))
        return r
    with concurrent.futures.ThreadPoolExecutor(max_workers=PAR) as ex:
        rs = list(ex.map(one, jobs))
    for r in rs:
        stats.add(r)
    return rs


_HEAD_P = re.compile(r'<<\s*"HV",\s*"P",\s*(\d+),')
_PAIR = re.compile(r'<<"((?:[^"\\]|\\.)*)",\s*"((?:[^"\\]|\\.)*)">>')
_HEAD = re.compile(r'<<\s*"HV"')


def _unesc(s):
    return re.sub(r'\\(.)', r'\1', s) if '\\' in s else s


def _prints(out):
    """Every printed <<"HV", ...>> value (TLC breaks long values over several lines)."""
    res = []
    for m in _HEAD.finditer(out):
        try:
            v, _used = tlc.parse_value(out[m.start():m.start() + 200000])
            res.append(v)
        except (ValueError, IndexError, AttributeError):
            pass
    return res


def _split(n):
    nb = max((n + BATCH - 1) // BATCH, min(PAR, (n + 2499) // 2500), 1)
    size = (n + nb - 1) // nb
    return [(i, min(n, i + size)) for i in range(0, n, size)]


def unparse_trees(trees, stats, timeout):
    """spec -> code, step 1: Unparse(tree) for every tree, computed by TLC (PrintSpec)."""
    out = [None] * len(trees)
    spans = _split(len(trees))
    rs = _tlc_batches([([], trees[a:b]) for a, b in spans], 'PrecedencePrint.cfg', timeout, stats)
    for (a, b), r in zip(spans, rs):
        heads = list(_HEAD_P.finditer(r.out))
        for h, nxt in zip(heads, heads[1:] + [None]):
            seg = r.out[h.end():nxt.start() if nxt else len(r.out)]
            out[a + int(h.group(1)) - 1] = [(_unesc(x), _unesc(y)) for x, y in _PAIR.findall(seg)]
    if any(o is None for o in out):
        raise common.Machinery('PrintSpec printed %d of %d trees' % (sum(o is not None for o in out), len(out)))
    return out


def judge(cases, stats, timeout):
    """TraceSpec over the recorded cases -> (tally incl. per-action counts, mismatches {case index: (verdict,
    model tree)}, spec faults)."""
    total = {}
    acts = {}
    bad, spec = {}, {}
    spans = _split(len(cases))
    rs = _tlc_batches([(cases[a:b], []) for a, b in spans], 'PrecedenceTrace.cfg', timeout, stats)
    for (b0, _b1), r in zip(spans, rs):
        chunks = 0
        for p in _prints(r.out):
            if len(p) == 5 and p[1] == 'CHUNK':
                chunks += 1
                for k, v in p[3].items():
                    total[k] = total.get(k, 0) + v
                for k, v in p[4].items():
                    acts[k] = acts.get(k, 0) + v
            elif len(p) >= 5 and p[2] == 'MISMATCH':
                bad[b0 + p[1] - 1] = (p[3], PT.tree_from_value(p[4]))
            elif len(p) >= 5 and p[2] == 'SPEC':
                spec[b0 + p[1] - 1] = (p[3], PT.tree_from_value(p[4]), p[5] if len(p) > 5 else None)
        if chunks != NCHUNKS:
            raise common.Machinery('TraceSpec: %d of %d chunk tallies printed' % (chunks, NCHUNKS))
    if total.get('eval', 0) != len(cases):
        raise common.Machinery('TraceSpec evaluated %s of %d cases' % (total.get('eval'), len(cases)))
    if total.get('bad', 0) != len(bad) or total.get('spec', 0) != len(spec):
        raise common.Machinery('TraceSpec tallies (%s bad, %s spec) disagree with the printed lines (%d, %d)' % (
            total.get('bad'), total.get('spec'), len(bad), len(spec)))
    total['acts'] = acts
    return total, bad, spec


def model_coverage(stats, timeout):
    """TLC -coverage on the module's built-in batch (upstream parser tests + one example per rule): every action
    of the machine must be taken and the batch must agree with itself."""
    r = tlc.run(common.SPEC, 'Precedence', cfg='Precedence.cfg', timeout=timeout, coverage=True, workers=2, heap='2g')
    if not r.ok or any(len(p) > 2 and p[2] in ('MISMATCH', 'SPEC') for p in _prints(r.out)):
        raise common.Machinery('Precedence.tla built-in batch failed: %s %s\n%s' % (r.errors[:3], r.violated,
                                                                                     r.out[-1200:]))
    stats.add(r)
    missing = [a for a in ACTIONS if not r.coverage.get(a, (0, 0))[1]]
    if missing:
        raise common.Machinery('TLC -coverage: actions never taken on the built-in batch: %s' % missing)
    return {a: r.coverage[a][1] for a in ACTIONS}


# ---------------------------------------------------------------------------------------------- case sources
def token_cases(tier):
    """Families (a) (b) (c) (e): token strings, both parser routes."""
    cases = []
    smoke = tier == 'smoke'
    for fam, toks in PT.family_pairs_triples(PT.REPS + ['%', '<='] if smoke else PT.BINOPS):
        cases.append({'fam': fam, 'toks': toks})
    if tier == 'thorough':
        pairs = None                                   # all 14 x 14 operator pairs
    else:                                              # one operator per level, and every operator next to `+`
        pairs = sorted(set(itertools.product(PT.REPS, repeat=2)) | {(o, '+') for o in PT.BINOPS}
                       | {('+', o) for o in PT.BINOPS})
    for fam, toks in PT.family_decorations(pairs):
        cases.append({'fam': fam, 'toks': toks})
    for fam, toks in PT.family_parenthesisations(4, ['*', '+', 'and', '??'] if smoke else PT.REPS):
        cases.append({'fam': fam, 'toks': toks})
    for fam, toks in PT.family_malformed():
        cases.append({'fam': fam, 'toks': toks})
    if smoke:      # self-test tier: everything but only every 3rd decoration case
        keep, k = [], 0
        for c in cases:
            if c['fam'] == 'b':
                k += 1
                if k % 3:
                    continue
            keep.append(c)
        cases = keep
    out = []
    for c in cases:
        out.append(dict(c, route='rule'))
        if tier == 'thorough' or c['fam'] in ('a2', 'c', 'e'):
            out.append(dict(c, route='prog'))
    if tier == 'thorough':
        for fam, toks in PT.family_parenthesisations(5, ['*', '+', '<', 'or']):
            out.append({'fam': 'c5', 'toks': toks, 'route': 'rule'})
    return out


def tree_cases(tier, seed):
    """Family (d): trees for the round trip -> list of (fam, tree)."""
    a = PT.Id('a')
    res = []
    full = PT.enumerate_trees(2, [a], PT.REPS if tier == 'smoke' else PT.BINOPS, PT.PREOPS, ['int', 'byte[]'],
                              index_with=None, lists=True)
    res += [('d2', t) for t in full]
    if tier == 'smoke':
        n_rand, d3 = 300, PT.enumerate_trees(3, [a], ['+'], ['-'], [], index_with=PT.Id('i'))
    elif tier == 'quick':
        n_rand, d3 = 1500, PT.enumerate_trees(3, [a], ['*', '+'], ['-'], [], index_with=PT.Id('i'), length=False)
    else:
        n_rand, d3 = 20000, PT.enumerate_trees(3, [a], ['*', '+'], ['-', 'not'], ['int'], index_with=PT.Id('i'))
    res += [('d3', t) for t in d3 if PT.tree_depth(t) == 3]
    rnd = random.Random(seed)
    for n in range(n_rand):
        depth = 6 if n % 3 == 0 else rnd.randint(2, 6)
        t = PT.random_tree(rnd, depth, exact=True)
        if PT.tree_size(t) <= 160:
            res.append(('dr', t))
    return res


# ---------------------------------------------------------------------------------------------- the check
def run(tier, seed, t0):
    stats = Stats()
    tmo = 900 if tier != 'thorough' else 1500        # per TLC run; a safety net, not the budget
    phase = {}
    cov = Stats()
    cov_pool = concurrent.futures.ThreadPoolExecutor(max_workers=1)      # beside everything else
    cov_future = cov_pool.submit(model_coverage, cov, tmo)
    t1 = time.time()
    cases = token_cases(tier)
    trees = tree_cases(tier, seed)
    phase['enumerate'] = round(time.time() - t1, 1)
    t1 = time.time()
    printed = unparse_trees([t for _f, t in trees], stats, tmo)
    phase['tlc_unparse'] = round(time.time() - t1, 1)
    for (fam, t), toks in zip(trees, printed):
        cases.append({'fam': fam, 'toks': toks, 'route': 'rule', 'rt': True, 'orig': t})
    t1 = time.time()
    results = PH.parse_many([(c['route'], PT.toks_src(c['toks'])) for c in cases])
    parse_wall = time.time() - t1
    phase['hidc_parse'] = round(parse_wall, 1)
    for c, (st, tree, note) in zip(cases, results):
        c['st'], c['tree'], c['note'] = st, tree, note
    corrupted = CORRUPT(cases) if CORRUPT else None
    t1 = time.time()
    tally, bad, spec = judge(cases, stats, tmo)
    builtin_cov = cov_future.result()
    cov_pool.shutdown()
    phase['tlc_judge'] = round(time.time() - t1, 1)
    missing = [a for a in ACTIONS if not tally['acts'].get(a)]
    if missing:
        raise common.Machinery('machine actions never taken over %d cases: %s' % (len(cases), missing))
    if spec:
        i = sorted(spec)[0]
        raise common.Machinery('Precedence.tla does not reproduce its own tree for %r (%d round-trip cases): %r' % (
            PT.toks_src(cases[i]['toks']), len(spec), spec[i][:2]))
    violations = []
    # shortest inputs first; at most MAX_REPORT replay files (the evidence holds the full count)
    order = sorted(bad, key=lambda i: (len(cases[i]['toks']), i))
    for i in order[:MAX_REPORT]:
        c = cases[i]
        mv, mt = bad[i]
        src = PT.toks_src(c['toks'])
        if c['st'] == 'tree':
            did = 'parses as %s' % PT.tree_show(c['tree'])
        else:
            did = '%ss (%s)' % (c['st'], c['note'][:80]) if c['st'] == 'reject' else 'crashes (%s)' % c['note'][:80]
        want = 'the documented table gives %s' % PT.tree_show(mt) if mv == 'tree' else 'it is not an expression'
        violations.append(common.Violation(
            PROP, '`%s` %s; %s' % (src, did, want),
            classifier={'family': c['fam'], 'route': c['route'], 'source': src, 'hidc': c['st']},
            detail={'toks': [list(t) for t in c['toks']], 'route': c['route'], 'hidc_status': c['st'],
                    'hidc_tree': PT.tree_show(c['tree']), 'hidc_note': c['note'], 'model_verdict': mv,
                    'model_tree': PT.tree_show(mt), 'round_trip_of': PT.tree_show(c.get('orig'))}))
    per_fam = {}
    for c in cases:
        per_fam[c['fam']] = per_fam.get(c['fam'], 0) + 1
    statuses = {}
    for c in cases:
        statuses[c['st']] = statuses.get(c['st'], 0) + 1
    rnd = random.Random(seed)
    samples = [{'family': c['fam'], 'route': c['route'], 'source': PT.toks_src(c['toks']), 'hidc': c['st'],
                'tree': PT.tree_show(c['tree'])} for c in rnd.sample(cases, min(12, len(cases)))]
    rt_depths = {}
    for c in cases:
        if c.get('rt'):
            dd = PT.tree_depth(c['orig'])
            rt_depths[dd] = rt_depths.get(dd, 0) + 1
    coverage = {
        'states': stats.states + cov.states, 'transitions': stats.transitions + cov.transitions,
        'traces_validated_against_impl': tally['eval'],
        'samples': samples,
        'exhaustive': 'families a2 a3 b c e d2 d3 are exhaustive enumerations; dr is seeded random (depth <= 6)',
        'rule': 'machine(toks) = hidc(toks); round trip: hidc(Unparse(t)) = machine(Unparse(t)) = t',
        'cases_per_family': per_fam, 'hidc_outcomes': statuses,
        'model_tree_and_equal': tally['trees'], 'model_reject_and_rejected': tally['agree'] - tally['trees'],
        'dontcare': tally['dc'], 'mismatch': tally['bad'], 'round_trips_closed': tally['rt'],
        'round_trip_tree_depths': {str(k): v for k, v in sorted(rt_depths.items())},
        'max_tokens': max(len(c['toks']) for c in cases),
        'binary_operators': len(PT.BINOPS), 'decorations': len(PT.DECORATIONS),
        'tlc_runs': stats.runs + cov.runs, 'tlc_wall_s': round(stats.wall + cov.wall, 1),
        'hidc_parse_wall_s': round(parse_wall, 1), 'phase_wall_s': phase,
        'machine_action_counts': {a: tally['acts'].get(a, 0) for a in ACTIONS},
        'tlc_coverage_builtin_batch': builtin_cov,
    }
    if corrupted:
        coverage['selftest_corruption'] = corrupted
    return coverage, violations


def main(tier, seed):
    t0 = time.time()
    coverage, violations = run(tier, seed, t0)
    return common.finish(PROP, tier, seed, 'model_checking', coverage, violations, t0, ASSUMPTIONS)


def replay(path):
    """Re-run the one case of a replay file through the real parser and TraceSpec."""
    with open(path) as f:
        rec = json.load(f)
    det = rec['detail']
    toks = [tuple(t) for t in det['toks']]
    st, tree, note = PH.parse_one((det['route'], PT.toks_src(toks)))
    case = {'fam': 'replay', 'toks': toks, 'route': det['route'], 'st': st, 'tree': tree, 'note': note}
    stats = Stats()
    tally, bad, _spec = judge([case], stats, 120)
    print('source: %s\nroute: %s\nhidc: %s %s %s' % (PT.toks_src(toks), det['route'], st, PT.tree_show(tree), note))
    if bad:
        mv, mt = bad[0]
        print('VIOLATION property=%s replay=%s  # model: %s %s' % (PROP, path, mv, PT.tree_show(mt)))
        return 1
    print('OK property=%s (replayed case agrees with Precedence.tla; dontcare=%d)' % (PROP, tally['dc']))
    return 0


if __name__ == '__main__':
    if '--selftest' in sys.argv:
        from . import c11_selftest
        common.main_wrapper(c11_selftest.main)
    else:
        tier = sys.argv[sys.argv.index('--tier') + 1] if '--tier' in sys.argv else 'quick'
        common.main_wrapper(lambda: main(tier, common.seed_from_env()))
